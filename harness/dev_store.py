"""dev helper: run a few store histories, print the first disagreements"""
import json, random, sys
from harness.lib import core, storegen

def main():
    seed = int(sys.argv[1]) if len(sys.argv) > 1 else 0
    n = int(sys.argv[2]) if len(sys.argv) > 2 else 5
    steps = int(sys.argv[3]) if len(sys.argv) > 3 else 40
    profile = sys.argv[4] if len(sys.argv) > 4 else "mixed"
    ctx = core.Ctx("C03", "quick", seed)
    tot = 0
    for h in range(n):
        rng = random.Random(seed * 1000 + h)
        ops, outs = storegen.run_history(ctx, rng, steps, profile, "dev%d" % h, reopen_prob=0.05)
        model = core.run_driver("C03", [["reset"]] + ops)[1:]
        diffs = storegen.compare(ops, outs, model)
        tot += len(ops)
        bads = [o for o in outs if "bad" in o]
        errs = {}
        for o in outs:
            if "err" in o: errs[o["err"]] = errs.get(o["err"], 0) + 1
        print("history", h, "ops", len(ops), "diffs", len(diffs), "bad", len(bads), "errs", errs)
        for k, op, m, i in diffs[:3]:
            print("  #%d %s\n     model=%s\n     impl =%s" % (k, json.dumps(op, ensure_ascii=False)[:300], json.dumps(m, ensure_ascii=False)[:600], json.dumps(i, ensure_ascii=False)[:600]))
            # context: the previous mutating ops
            prev = [json.dumps(o, ensure_ascii=False)[:160] for o in ops[max(0, k - 60):k] if o[0] not in ("get", "has", "len", "list", "role", "dump")]
            print("     recent mutators:", prev[-4:])
        if bads:
            print("  first bad:", [ (ops[k], outs[k]) for k in range(len(outs)) if "bad" in outs[k]][:2])
    ctx.cleanup()
    print("total ops", tot)

main()
