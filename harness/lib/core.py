"""Shared plumbing of the /verif checks: Lake builds, axiom audit, driver I/O, evidence,
known findings, violation reports.  Runs under /venv/bin/python (nixio = /repo working tree).
"""
import fcntl
import hashlib
import json
import os
import random
import re
import shutil
import subprocess
import sys
import tempfile
import time

VERIF = os.path.dirname(os.path.dirname(os.path.dirname(os.path.abspath(__file__))))
REPO = os.environ.get("NIXPY_REPO", "/repo")
LEAN = os.path.join(VERIF, "lean")
DRIVER = os.path.join(LEAN, ".lake", "build", "bin", "nixdriver")
EVIDENCE = os.path.join(VERIF, "evidence")
REPLAYS = os.path.join(VERIF, "replays")
CORPUS = os.path.join(VERIF, "corpus")
ALLOWED_AXIOMS = {"propext", "Classical.choice", "Quot.sound"}
FORBIDDEN = re.compile(r"\bsorry\b|\badmit\b|^\s*axiom\s|native_decide|bv_decide|implemented_by|"
                       r"\bunsafe\s|maxHeartbeats\s+0\b|\bextern\b")

TRUSTED_BASE_COMMON = [
    "Lean 4.33.0 kernel (theorems accepted by `lake build`; thorough tier re-checks with leanchecker)",
    "axioms allowed in property theorems: propext, Classical.choice, Quot.sound (audited by #print axioms every run)",
    "Mathlib v4.33.0 modules imported by Lemmas/ and Props/ files",
    "harness/extract/*.py (source -> Generated/*.lean translators)",
    "harness correspondence (differential execution of model driver vs nixio on generated inputs), its generators and canonicalisation",
    "modelled, not verified: h5py/libhdf5 storage, numpy, CPython library calls, IEEE-754 rounding (DESIGN.md section 8)",
]


class InfraError(Exception):
    """infrastructure failure (exit 2, never a violation)"""


# --------------------------------------------------------------------------------------
# Lake


class _Lock:
    def __enter__(self):
        self.f = open(os.path.join(LEAN, ".build.lock"), "w")
        fcntl.flock(self.f, fcntl.LOCK_EX)
        return self

    def __exit__(self, *a):
        fcntl.flock(self.f, fcntl.LOCK_UN)
        self.f.close()


def lake(args, timeout=3600):
    with _Lock():
        try:
            p = subprocess.run(["lake"] + args, cwd=LEAN, stdout=subprocess.PIPE, stderr=subprocess.STDOUT,
                               text=True, timeout=timeout)
        except subprocess.TimeoutExpired:
            raise InfraError("lake %s timed out" % " ".join(args))
    return p.returncode, p.stdout


def write_generated(files):
    """write Generated/*.lean atomically, only when the content changed; returns changed paths"""
    changed = []
    with _Lock():
        for rel, content in files.items():
            path = os.path.join(LEAN, rel)
            old = None
            if os.path.exists(path):
                old = open(path, encoding="utf-8").read()
            if old != content:
                os.makedirs(os.path.dirname(path), exist_ok=True)
                tmp = path + ".tmp%d" % os.getpid()
                with open(tmp, "w", encoding="utf-8") as f:
                    f.write(content)
                os.replace(tmp, path)
                changed.append(rel)
    return changed


def build(targets, timeout=3600):
    """lake build; returns (ok, output, failing declaration names)"""
    rc, out = lake(["build"] + list(targets), timeout=timeout)
    if rc == 0:
        return True, out, []
    if "error" not in out:
        raise InfraError("lake build failed without a Lean error:\n" + out[-2000:])
    return False, out, parse_build_failures(out)


def parse_build_failures(out):
    """names of files/lines that failed, best effort, for the replay file"""
    fails = []
    for m in re.finditer(r"error: ([^\s:]+\.lean):(\d+):(\d+)", out):
        fails.append("%s:%s" % (m.group(1), m.group(2)))
    return sorted(set(fails))


def theorem_at(relfile_line):
    """map 'NixModel/Props/C09.lean:123' to the enclosing theorem name"""
    try:
        rel, line = relfile_line.rsplit(":", 1)
        path = rel if os.path.isabs(rel) else os.path.join(LEAN, rel)
        lines = open(path, encoding="utf-8").read().split("\n")
        for i in range(min(int(line), len(lines)) - 1, -1, -1):
            m = re.match(r"\s*(?:private\s+|protected\s+)?(?:theorem|lemma|def|example|instance)\s+([^\s:(\[{]+)?", lines[i])
            if m:
                return m.group(1) or "example@%s" % relfile_line
    except Exception:
        pass
    return relfile_line


def import_closure(modules):
    """the project files (NixModel.*, Driver.*) reachable by `import` from the given modules"""
    seen, todo = set(), list(modules)
    while todo:
        m = todo.pop()
        if m in seen or not (m.startswith("NixModel") or m.startswith("Driver")):
            continue
        path = os.path.join(LEAN, m.replace(".", "/") + ".lean")
        if not os.path.exists(path):
            continue
        seen.add(m)
        for l in open(path, encoding="utf-8").read().split("\n"):
            mm = re.match(r"\s*(?:public\s+)?import\s+(\S+)", l)
            if mm:
                todo.append(mm.group(1))
    return sorted(seen)


def forbidden_hits(modules=None):
    """sorry/admit/axiom/native_decide/... outside comments in the Lean sources of the import
    closure of `modules` (every project file when None)"""
    hits = []
    if modules is None:
        files = []
        for root in (os.path.join(LEAN, "NixModel"), os.path.join(LEAN, "Driver")):
            for dp, _, fns in os.walk(root):
                files += [os.path.join(dp, fn) for fn in fns if fn.endswith(".lean")]
    else:
        files = [os.path.join(LEAN, m.replace(".", "/") + ".lean") for m in import_closure(modules)]
    for p in sorted(files):
        txt = open(p, encoding="utf-8").read()
        txt = re.sub(r"/-.*?-/", lambda m: "\n" * m.group(0).count("\n"), txt, flags=re.S)
        for i, l in enumerate(txt.split("\n"), 1):
            l = re.sub(r"--.*$", "", l)
            l = re.sub(r'"(?:[^"\\]|\\.)*"', '""', l)
            if FORBIDDEN.search(l):
                hits.append("%s:%d: %s" % (os.path.relpath(p, LEAN), i, l.strip()[:80]))
    return hits


def audit(module, theorems, timeout=1800):
    """#print axioms for every theorem; returns (ok, {theorem: [axioms]}, problems)"""
    src = "import %s\n" % module + "".join("#print axioms %s\n" % t for t in theorems)
    d = tempfile.mkdtemp(prefix="audit", dir=os.path.join(LEAN, ".lake"))
    try:
        f = os.path.join(d, "Audit.lean")
        open(f, "w").write(src)
        rc, out = lake(["env", "lean", f], timeout=timeout)
    finally:
        shutil.rmtree(d, ignore_errors=True)
    res = {}
    problems = []
    # outputs look like: 'Nix.foo' depends on axioms: [propext, Quot.sound]   or   'Nix.foo' does not depend on any axioms
    flat = re.sub(r"\s+", " ", out)
    for t in theorems:
        m = re.search(r"'%s' depends on axioms: \[([^\]]*)\]" % re.escape(t), flat)
        if m:
            ax = [a.strip() for a in m.group(1).split(",") if a.strip()]
        elif re.search(r"'%s' does not depend on any axioms" % re.escape(t), flat):
            ax = []
        else:
            problems.append("theorem %s not found by the audit" % t)
            continue
        res[t] = ax
        bad = [a for a in ax if a not in ALLOWED_AXIOMS]
        if bad:
            problems.append("theorem %s depends on non-standard axioms %s" % (t, bad))
    if rc != 0 and not problems:
        problems.append("audit file failed to elaborate: " + out[-500:])
    return (not problems), res, problems


def leanchecker(modules, timeout=3600):
    rc, out = lake(["env", "leanchecker"] + list(modules), timeout=timeout)
    return rc == 0, out


# --------------------------------------------------------------------------------------
# driver


_DRIVER_SNAPSHOT = {}


def driver_target(prop):
    return "drv_%s" % prop


def driver_snapshot(prop):
    """a private copy of the property's driver binary (taken under the build lock): other checks
    may relink the shared one at any time. Every property has its own executable (`drv_Cxx`), so
    a driver file of another property that does not compile cannot break this check."""
    if prop in _DRIVER_SNAPSHOT and os.path.exists(_DRIVER_SNAPSHOT[prop]):
        return _DRIVER_SNAPSHOT[prop]
    exe = os.path.join(LEAN, ".lake", "build", "bin", driver_target(prop))
    with _Lock():
        if not os.path.exists(exe):
            raise InfraError("driver binary missing: " + exe)
        # inside the run's scratch directory when there is one (removed by Ctx.cleanup also when this process is a
        # forked worker whose atexit handlers never run)
        root = os.environ.get("NIXVERIF_SCRATCH")
        d = tempfile.mkdtemp(prefix="nixdriver-", dir=root if root and os.path.isdir(root) else None)
        dst = os.path.join(d, driver_target(prop))
        shutil.copy2(exe, dst)
    import atexit
    atexit.register(shutil.rmtree, d, True)
    _DRIVER_SNAPSHOT[prop] = dst
    return dst


def run_driver(prop, cases, timeout=1800):
    """pipe JSON-able cases to `nixdriver <prop>`; returns the parsed output per case"""
    drv = driver_snapshot(prop)
    data = "".join(json.dumps(c, ensure_ascii=True) + "\n" for c in cases)
    try:
        p = subprocess.run([drv], input=data, stdout=subprocess.PIPE, stderr=subprocess.PIPE,
                           text=True, timeout=timeout)
    except subprocess.TimeoutExpired:
        raise InfraError("model driver timed out")
    if p.returncode != 0:
        raise InfraError("model driver failed: " + p.stderr[-1000:])
    outs = [json.loads(l) for l in p.stdout.split("\n") if l.strip()]
    if len(outs) != len(cases):
        raise InfraError("model driver returned %d lines for %d cases" % (len(outs), len(cases)))
    return outs


# --------------------------------------------------------------------------------------
# context / results


def file_fingerprint(relpath):
    """whitespace/comment-insensitive AST hash of one source file of the tree under check"""
    import ast
    try:
        tree = ast.parse(open(os.path.join(REPO, relpath), encoding="utf-8").read())
    except Exception:
        return None
    return sha(ast.dump(tree, annotate_fields=False, include_attributes=False))


def changed_anchor_files(prop):
    """(F) DESIGN 2.3: the files a property is anchored in (properties.jsonl), plus the HDF5 wrappers every property
    goes through, whose AST differs from the baseline recorded for /repo's HEAD (harness/anchor_baseline.json,
    written by tools/anchor_baseline.py). Budget steering only: never an alarm, never a tie."""
    try:
        base = json.load(open(os.path.join(VERIF, "harness", "anchor_baseline.json")))
        files = []
        for line in open(os.path.join(VERIF, "properties.jsonl"), encoding="utf-8"):
            rec = json.loads(line)
            if rec.get("id") == prop:
                files = list(rec.get("anchors", {}).get("files", []))
        for extra in ("nixio/hdf5/h5group.py", "nixio/hdf5/h5dataset.py", "nixio/entity.py", "nixio/container.py"):
            if extra not in files:
                files.append(extra)
        return [f for f in files if f in base and file_fingerprint(f) != base[f]]
    except Exception:
        return []


class Ctx:
    def __init__(self, prop, tier, seed):
        self.prop = prop
        self.tier = tier
        self.seed = seed
        self.rng = random.Random("%s/%s/%d" % (prop, tier, seed))
        self.t0 = time.time()
        self.notes = []
        self.scratch = tempfile.mkdtemp(prefix="nixverif-%s-" % prop)
        os.environ["NIXVERIF_SCRATCH"] = self.scratch
        self.changed_files = changed_anchor_files(prop)
        self.boost = 2 if self.changed_files else 1

    def quick(self):
        return self.tier == "quick"

    def budget(self, quick, thorough):
        """tier budget; in the quick tier a changed anchored source file doubles it (capped by the thorough budget)"""
        if self.tier != "quick":
            return thorough
        if self.boost > 1 and isinstance(quick, (int, float)) and isinstance(thorough, (int, float)) \
                and not isinstance(quick, bool) and thorough > quick:
            return type(quick)(min(thorough, quick * self.boost))
        return quick

    def cleanup(self):
        shutil.rmtree(self.scratch, ignore_errors=True)

    def tmpfile(self, name):
        return os.path.join(self.scratch, name)


class Failure:
    """a concrete input on which the *implementation* violates the property"""

    def __init__(self, what, input, observed=None, required=None, site=None):
        self.what = what
        self.input = input
        self.observed = observed
        self.required = required
        self.site = site

    def to_json(self):
        return {"what": self.what, "input": self.input, "observed": self.observed,
                "required": self.required, "site": self.site}


class Disagreement:
    """model and implementation differ on a case (not by itself a violation)"""

    def __init__(self, case, model, impl):
        self.case = case
        self.model = model
        self.impl = impl

    def to_json(self):
        return {"case": self.case, "model": self.model, "impl": self.impl}


def canon(x):
    return json.dumps(x, sort_keys=True, ensure_ascii=True)


def load_known(prop):
    p = os.path.join(VERIF, "known_findings.json")
    if not os.path.exists(p):
        return []
    return [e for e in json.load(open(p)) if e.get("property") == prop]


def load_corpus(prop):
    """corpus/<prop>/*.json: list of cases each (minimised past disagreements / violations)"""
    d = os.path.join(CORPUS, prop)
    out = []
    if os.path.isdir(d):
        for fn in sorted(os.listdir(d)):
            if fn.endswith(".json"):
                try:
                    out.extend(json.load(open(os.path.join(d, fn)))["cases"])
                except Exception as e:
                    raise InfraError("bad corpus file %s: %s" % (fn, e))
    return out


def write_replay(prop, seed, obj):
    os.makedirs(REPLAYS, exist_ok=True)
    path = os.path.join(REPLAYS, "%s-%d.json" % (prop, seed))
    obj = dict(obj)
    obj["property"] = prop
    obj["seed"] = seed
    obj["replay_cmd"] = "./check %s --replay replays/%s-%d.json" % (prop, prop, seed)
    with open(path, "w") as f:
        json.dump(obj, f, indent=1, ensure_ascii=True, default=str)
    return os.path.relpath(path, VERIF)


def write_evidence(prop, tier, seed, level, coverage, assumptions, wall_s, violations):
    os.makedirs(EVIDENCE, exist_ok=True)
    ev = {"property_id": prop, "tier": tier, "seed": seed, "level": level, "coverage": coverage,
          "assumptions": assumptions, "wall_s": round(wall_s, 2), "violations": violations}
    tmp = os.path.join(EVIDENCE, ".%s.json.tmp%d" % (prop, os.getpid()))
    with open(tmp, "w") as f:
        json.dump(ev, f, indent=1, ensure_ascii=True, default=str)
    os.replace(tmp, os.path.join(EVIDENCE, "%s.json" % prop))


def sha(s):
    return hashlib.sha256(s.encode("utf-8")).hexdigest()[:16]


def func_fingerprint(relpath, names):
    """whitespace/comment-insensitive AST hash of functions (budget steering only, DESIGN 2.3 F)"""
    import ast
    try:
        tree = ast.parse(open(os.path.join(REPO, relpath), encoding="utf-8").read())
    except Exception:
        return {}
    out = {}
    for n in ast.walk(tree):
        if isinstance(n, (ast.FunctionDef, ast.ClassDef)) and n.name in names:
            out[n.name] = sha(ast.dump(n, annotate_fields=False, include_attributes=False))
    return out
