"""History generator with copies between two files (protocol of lean/Driver/Store2.lean)."""
import os

from . import storegen
from .storegen import Gen, inventory, LIT_UUID
from .storeimpl2 import Impl2

NEW_NAMES = ["copy", "a", "b", "z1", "é", "0f" * 16, LIT_UUID, ""]


class Gen2(Gen):
    def inv(self, fi):
        keep = self.impl.cur
        self.impl.cur = fi
        try:
            return inventory(self.impl)
        finally:
            self.impl.cur = keep

    def use(self, fi):
        if self.impl.cur != fi:
            self.do(["use", fi])

    def dump_both(self):
        keep = self.impl.cur
        for fi in (0, 1):
            self.use(fi)
            self.do(["dump"])
        self.use(keep)

    def copy_step(self):
        rng = self.rng
        sf = rng.choice([0, 0, 1])
        df = sf if rng.random() < 0.55 else 1 - sf
        self.use(df)
        src_ents = self.inv(sf)
        dst_ents = self.inv(df)
        kind = rng.choice(["block", "data_array", "tag", "multi_tag", "section", "section", "property"])
        src = self.pick(src_ents, kind if rng.random() < 0.93 else None)
        if src is None:
            return False
        keep = rng.random() < 0.5
        name = rng.choice(NEW_NAMES) if rng.random() < 0.7 else ""
        if kind == "block":
            self.do(["copy_block", sf, src.path, name, keep])
            self.probe([], "data", "file")
        elif kind in ("data_array", "tag", "multi_tag"):
            blk = self.pick(dst_ents, "block" if rng.random() < 0.95 else None)
            if blk is None:
                return False
            self.do(["copy_into", blk.path, kind, sf, src.path, name, keep])
            cname = {"data_array": "data_arrays", "tag": "tags", "multi_tag": "multi_tags"}[kind]
            if blk.kind == "block":
                self.probe(blk.path, cname, "block")
        elif kind == "section":
            children = rng.random() < 0.6
            if rng.random() < 0.5:
                self.do(["copy_section", None, sf, src.path, children, keep, name])
                self.probe([], "metadata", "file")
            else:
                dsec = self.pick(dst_ents, "section" if rng.random() < 0.95 else None)
                if dsec is None:
                    return False
                self.do(["copy_section", dsec.path, sf, src.path, children, keep, name])
                if dsec.kind == "section":
                    self.probe(dsec.path, "sections", "section")
        else:
            dsec = self.pick(dst_ents, "section" if rng.random() < 0.95 else None)
            if dsec is None:
                return False
            self.do(["copy_property", dsec.path, sf, src.path, name, keep])
            if dsec.kind == "section":
                self.probe(dsec.path, "properties", "section")
        if rng.random() < 0.6:
            self.dump_both()
        return True


def run_history2(ctx, rng, steps, tag, copy_prob=0.4, reopen_prob=0.03):
    p0, p1 = ctx.tmpfile("store2-%s-0.nix" % tag), ctx.tmpfile("store2-%s-1.nix" % tag)
    impl = Impl2(p0, p1, literal_uuid_names=(LIT_UUID,))
    gen = Gen2(rng, impl, "mixed")
    try:
        for k in range(steps):
            if k > 6 and rng.random() < copy_prob:
                gen.copy_step()
            else:
                if rng.random() < 0.25:
                    gen.use(rng.choice([0, 1]))
                gen.step()
            if reopen_prob and rng.random() < reopen_prob:
                impl.reopen("a")
                gen.ops.append(["noop"])
                gen.outs.append({"ok": None})
        gen.dump_both()
    finally:
        impl.close()
        impl.remove()
    return gen.ops, gen.outs
