"""Seeded, adaptive generator of operation histories for the structural model.

The generator runs in lockstep with the real file: before each step it takes an inventory of
what exists (walking the public API), picks a mostly-valid operation (plus a malformed stream),
executes it on the implementation and records the op with its canonical output. The recorded
ops are then piped to the model driver and the two output streams are compared.
"""
import nixio

from .storeimpl import Impl, canon_ids, UUID_RE

LIT_UUID = "00000000-0000-0000-0000-00000000000a"
NAMES_PLAIN = ["a", "b", "z1", "A", "m", "zz", "data", "name with space", "é", "名前", "ß-ü", "..", "a.b",
               "x" * 300, " a", "a ", " b ", "b\t"]      # (surrounding whitespace is part of a name)
NAMES_UUIDISH = ["0f" * 16, LIT_UUID, "{00000000-0000-0000-0000-00000000000b}",
                 "urn:uuid:00000000-0000-0000-0000-00000000000c", "ABCDEFabcdef00112233445566778899"]
NAMES_BAD = ["", "a/b", "/"]
TYPES = ["t", "nix.test", "ü"]

CONTAINERS = {
    "file": ["data", "metadata"],
    "block": ["groups", "data_arrays", "tags", "multi_tags", "sources"],
    "group": ["data_arrays", "tags", "multi_tags", "sources"],
    "data_array": ["sources"],
    "tag": ["references", "features", "sources"],
    "multi_tag": ["references", "features", "sources"],
    "source": ["sources"],
    "section": ["sections", "properties"],
}
LINK_CONTS = {("group", "data_arrays"), ("group", "tags"), ("group", "multi_tags"), ("group", "sources"),
              ("data_array", "sources"), ("tag", "sources"), ("multi_tag", "sources"), ("tag", "references"),
              ("multi_tag", "references")}
INDEXED = LINK_CONTS | {("tag", "features"), ("multi_tag", "features")}
ITEM_KIND = {"data": "block", "metadata": "section", "groups": "group", "data_arrays": "data_array",
             "tags": "tag", "multi_tags": "multi_tag", "sources": "source", "sections": "section",
             "properties": "property", "features": "feature", "references": "data_array"}


def real_uuid(name):
    return isinstance(name, str) and bool(UUID_RE.match(name)) and name != LIT_UUID


def skey(name, ep):
    """key by name; a name that is a real (run-specific) uuid is passed symbolically"""
    return {"nameof": ep} if real_uuid(name) else {"s": name}


class Ent:
    def __init__(self, kind, path, name, block):
        self.kind, self.path, self.name, self.block = kind, path, name, block


def inventory(impl):
    """owned entities reachable through the public API, with paths (names for plain containers)"""
    f = impl.f
    ents = []

    def sel(i, e):
        return i if real_uuid(e.name) else e.name

    def sources(owner, path, block):
        for i, s in enumerate(owner.sources):
            p = path + ["sources", sel(i, s)]
            ents.append(Ent("source", p, s.name, block))
            sources(s, p, block)

    def sections(owner, path, cname):
        for i, s in enumerate(owner.sections):
            p = path + [cname, sel(i, s)]
            ents.append(Ent("section", p, s.name, None))
            for j, pr in enumerate(s.props):
                ents.append(Ent("property", p + ["properties", sel(j, pr)], pr.name, None))
            sections(s, p, "sections")

    for bi, b in enumerate(f.blocks):
        bp = ["data", sel(bi, b)]
        ents.append(Ent("block", bp, b.name, b.name))
        for cname, kind in (("groups", "group"), ("data_arrays", "data_array"), ("tags", "tag"),
                            ("multi_tags", "multi_tag")):
            for ei, e in enumerate(getattr(b, cname)):
                ents.append(Ent(kind, bp + [cname, sel(ei, e)], e.name, b.name))
                if kind in ("tag", "multi_tag"):
                    for i, _ in enumerate(e.features):
                        ents.append(Ent("feature", bp + [cname, sel(ei, e), "features", i], None, b.name))
        sources(b, bp, b.name)
    sections(f, [], "metadata")
    return ents


class Gen:
    def __init__(self, rng, impl, profile="mixed"):
        self.rng = rng
        self.impl = impl
        self.profile = profile
        self.ops = []
        self.outs = []

    # -- recording -------------------------------------------------------------------
    def do(self, op):
        out = self.impl.run(op)
        self.ops.append(op)
        self.outs.append(out)
        return out

    # -- choices ---------------------------------------------------------------------
    def name(self, existing=()):
        r = self.rng.random()
        existing = [x for x in existing if not real_uuid(x)]
        if existing and r < 0.12:
            return self.rng.choice(list(existing))
        if r < 0.17:
            return self.rng.choice(NAMES_BAD)
        if r < 0.35:
            return self.rng.choice(NAMES_UUIDISH)
        return self.rng.choice(NAMES_PLAIN)

    def typ(self):
        return "" if self.rng.random() < 0.04 else self.rng.choice(TYPES)

    def pick(self, ents, kind=None, block=None):
        c = [e for e in ents if (kind is None or e.kind == kind) and (block is None or e.block == block)]
        return self.rng.choice(c) if c else None

    def key_for(self, ent_path, name, position, n):
        """a key addressing one entry of a container in one of the four ways (or a bad one)"""
        r = self.rng.random()
        if r < 0.3 and name is not None:
            return skey(name, ent_path)
        if r < 0.55:
            return {"id": ent_path}
        if r < 0.8:
            return {"p": position if self.rng.random() < 0.5 else position - n}
        return {"o": ent_path}

    # -- query bursts -----------------------------------------------------------------
    def probe(self, owner_path, cname, owner_kind, names_pool=()):
        """query every access path of one container"""
        out = self.do(["list", owner_path, cname])
        self.do(["len", owner_path, cname])
        items = out.get("ok") or []
        n = len(items)
        indexed = (owner_kind, cname) in INDEXED
        for i in range(-n - 1, n + 1):
            self.do(["get", owner_path, cname, {"p": i}])
        for i, it in enumerate(items):
            sel = i if (indexed or real_uuid(it[0])) else it[0]
            ep = owner_path + [cname, sel]
            if it[0] is not None:
                self.do(["get", owner_path, cname, skey(it[0], ep)])
                self.do(["has", owner_path, cname, skey(it[0], ep)])
            self.do(["get", owner_path, cname, {"id": ep}])
            self.do(["has", owner_path, cname, {"id": ep}])
            self.do(["has", owner_path, cname, {"o": ep}])
        for nm in [x for x in names_pool if not real_uuid(x)][:3]:
            self.do(["has", owner_path, cname, {"s": nm}])
            self.do(["get", owner_path, cname, {"s": nm}])

    # -- one step ---------------------------------------------------------------------
    def step(self):
        rng = self.rng
        ents = inventory(self.impl)
        blocks = [e for e in ents if e.kind == "block"]
        r = rng.random()
        weights = {
            "mixed": [("create", 0.34), ("link", 0.2), ("role", 0.12), ("delete", 0.14), ("unlink", 0.06),
                      ("attr", 0.06), ("bad", 0.08)],
            "create_delete": [("create", 0.55), ("delete", 0.3), ("link", 0.05), ("bad", 0.1)],
            "links": [("create", 0.3), ("link", 0.3), ("role", 0.15), ("unlink", 0.1), ("delete", 0.1), ("bad", 0.05)],
        }[self.profile]
        acc = 0.0
        action = weights[-1][0]
        for a, w in weights:
            acc += w
            if r < acc:
                action = a
                break
        if not blocks or (action == "create" and rng.random() < 0.12):
            existing = [b.name for b in blocks]
            self.do(["create_block", self.name(existing), self.typ()])
            self.probe([], "data", "file", NAMES_UUIDISH)
            return
        if action == "create":
            self.create(ents)
        elif action == "link":
            self.link(ents)
        elif action == "role":
            self.role(ents)
        elif action == "delete":
            self.delete(ents)
        elif action == "unlink":
            self.unlink(ents)
        elif action == "attr":
            e = self.pick(ents)
            if e is not None:
                attr = rng.choice(["definition", "type", "label", "unit", "repository"])
                val = rng.choice([None, "", "x", "mV", "é"])
                self.do(["set_attr", e.path, attr, val])
        else:
            self.bad(ents)

    def siblings(self, ents, owner_path, cname):
        n = len(owner_path) + 2
        return [e.name for e in ents if len(e.path) == n and e.path[:n - 2] == owner_path and e.path[n - 2] == cname]

    def create(self, ents):
        rng = self.rng
        what = rng.choice(["section", "section", "group", "data_array", "data_array", "tag", "multi_tag", "source",
                           "source", "property", "feature"])
        if what == "section":
            parent = self.pick(ents, "section") if rng.random() < 0.6 else None
            pp = parent.path if parent else []
            cname = "sections" if parent else "metadata"
            sib = self.siblings(ents, pp, cname)
            name = self.name(sib)
            if rng.random() < 0.08 and ents:
                name = {"id": rng.choice(ents).path}      # a name that *is* another entity's id
            self.do(["create_section", pp, name, self.typ() or "t"])
            self.probe(pp, cname, "section" if parent else "file", NAMES_UUIDISH)
            return
        if what == "property":
            sec = self.pick(ents, "section")
            if sec is None:
                return
            sib = self.siblings(ents, sec.path, "properties")
            self.do(["create_property", sec.path, self.name(sib)])
            self.probe(sec.path, "properties", "section", NAMES_UUIDISH[:2])
            return
        if what == "feature":
            tg = self.pick(ents, rng.choice(["tag", "multi_tag"]))
            if tg is None:
                return
            da = self.pick(ents, "data_array", block=tg.block if rng.random() < 0.85 else None)
            lt = rng.choice(["tagged", "untagged", "indexed", "Tagged", "nonsense"] if rng.random() < 0.2
                            else ["tagged", "untagged", "indexed"])
            self.do(["create_feature", tg.path, da.path if da else None, lt])
            self.probe(tg.path, "features", tg.kind)
            return
        if what == "source" and rng.random() < 0.6:
            parent = self.pick(ents, "source")
        else:
            parent = None
        if parent is None:
            parent = self.pick(ents, "block")
        cname = {"group": "groups", "data_array": "data_arrays", "tag": "tags", "multi_tag": "multi_tags",
                 "source": "sources"}[what]
        sib = self.siblings(ents, parent.path, cname)
        extra = None
        if what == "multi_tag":
            da = self.pick(ents, "data_array", block=parent.block if rng.random() < 0.85 else None)
            extra = da.path if da else None
        name = self.name(sib)
        if rng.random() < 0.05 and ents:
            name = {"id": rng.choice(ents).path}
        self.do(["create", parent.path, what, name, self.typ(), extra])
        self.probe(parent.path, cname, parent.kind, NAMES_UUIDISH)

    def link(self, ents):
        rng = self.rng
        owner = self.pick(ents, rng.choice(["group", "group", "tag", "multi_tag", "data_array"]))
        if owner is None:
            return
        cname = rng.choice([c for c in CONTAINERS[owner.kind] if (owner.kind, c) in LINK_CONTS])
        kind = ITEM_KIND[cname]
        same = rng.random() < 0.8
        tgt = self.pick(ents, kind if rng.random() < 0.9 else None, block=owner.block if same else None)
        if tgt is None:
            return
        key = {"o": tgt.path} if rng.random() < 0.9 else {"id": tgt.path}
        self.do(["append", owner.path, cname, key])
        self.probe(owner.path, cname, owner.kind, [tgt.name] if tgt.name else [])

    def unlink(self, ents):
        rng = self.rng
        owner = self.pick(ents, rng.choice(["group", "tag", "multi_tag", "data_array"]))
        if owner is None:
            return
        cname = rng.choice([c for c in CONTAINERS[owner.kind] if (owner.kind, c) in LINK_CONTS])
        out = self.do(["list", owner.path, cname])
        items = out.get("ok") or []
        if not items:
            self.do(["del", owner.path, cname, {"p": 0}])
            return
        i = rng.randrange(len(items))
        key = self.key_for(owner.path + [cname, i], items[i][0], i, len(items))
        self.do(["del", owner.path, cname, key])
        self.probe(owner.path, cname, owner.kind, [items[i][0]] if items[i][0] else [])

    def role(self, ents):
        rng = self.rng
        r = rng.random()
        if r < 0.5:
            owner = self.pick(ents, rng.choice(["block", "group", "data_array", "tag", "multi_tag", "source"]))
            sec = self.pick(ents, "section" if rng.random() < 0.9 else None)
            if owner is None:
                return
            if rng.random() < 0.25:
                self.do(["set_role", owner.path, "metadata", None])
            elif sec is not None:
                self.do(["set_role", owner.path, "metadata", sec.path])
            self.do(["role", owner.path, "metadata"])
            self.do(["list", owner.path[:-2], owner.path[-2]] if len(owner.path) >= 2 else ["dump"])
        elif r < 0.75:
            mt = self.pick(ents, "multi_tag")
            if mt is None:
                return
            role = rng.choice(["positions", "extents"])
            same = rng.random() < 0.8
            da = self.pick(ents, "data_array" if rng.random() < 0.9 else None, block=mt.block if same else None)
            if rng.random() < 0.2:
                self.do(["set_role", mt.path, role, None])
            elif da is not None:
                self.do(["set_role", mt.path, role, da.path])
            self.do(["role", mt.path, role])
        elif r < 0.9:
            s1 = self.pick(ents, "section")
            s2 = self.pick(ents, "section")
            if s1 is None:
                return
            if rng.random() < 0.3:
                self.do(["set_role", s1.path, "link", None])
            else:
                self.do(["set_role", s1.path, "link", s2.path])
            self.do(["role", s1.path, "link"])
            self.probe(s1.path[:-2], s1.path[-2], "section" if len(s1.path) > 2 else "file")
        else:
            ft = self.pick(ents, "feature")
            if ft is None:
                return
            da = self.pick(ents, "data_array" if rng.random() < 0.9 else None,
                           block=ft.block if rng.random() < 0.8 else None)
            if da is not None:
                self.do(["set_role", ft.path, "data", da.path])
            self.do(["role", ft.path, "data"])

    def delete(self, ents):
        rng = self.rng
        e = self.pick(ents)
        if e is None:
            return
        owner_path, cname, sel = e.path[:-2], e.path[-2], e.path[-1]
        out = self.do(["list", owner_path, cname])
        items = out.get("ok") or []
        pos = sel if isinstance(sel, int) else next((i for i, it in enumerate(items) if it[0] == sel), 0)
        if isinstance(sel, int) and (not items or sel >= len(items)):
            return
        key = self.key_for(e.path, e.name, pos, len(items))
        self.do(["del", owner_path, cname, key])
        okind = "file" if not owner_path else None
        if okind is None:
            oe = [x for x in ents if x.path == owner_path]
            okind = oe[0].kind if oe else "block"
        self.probe(owner_path, cname, okind, [e.name] if e.name else [])
        if rng.random() < 0.5:
            self.do(["dump"])

    def bad(self, ents):
        rng = self.rng
        e = self.pick(ents)
        r = rng.random()
        if e is None:
            self.do(["create_block", rng.choice(NAMES_BAD), "t"])
            return
        owner_path, cname = e.path[:-2], e.path[-2]
        if r < 0.3:
            self.do(["get", owner_path, cname, {"p": rng.choice([-99, 99, 7, -7])}])
            self.do(["get", owner_path, cname, {"s": rng.choice(["nope", LIT_UUID, "0f" * 16])}])
        elif r < 0.5:
            self.do(["del", owner_path, cname, {"s": rng.choice(["nope", "0f" * 16])}])
            self.do(["del", owner_path, cname, {"p": rng.choice([-99, 99])}])
        elif r < 0.7:
            other = self.pick(ents)
            self.do(["del", owner_path, cname, {"o": other.path}])       # often the wrong kind / container
            self.do(["has", owner_path, cname, {"o": other.path}])
        elif r < 0.85:
            other = self.pick(ents)
            owner = self.pick(ents, rng.choice(["group", "tag", "multi_tag"]))
            if owner is not None:
                cn = rng.choice([c for c in CONTAINERS[owner.kind] if (owner.kind, c) in LINK_CONTS])
                self.do(["append", owner.path, cn, {"o": other.path}])
                self.do(["append", owner.path, cn, {"s": rng.choice(["nope", LIT_UUID])}])
                self.do(["list", owner.path, cn])
        else:
            other = self.pick(ents)
            self.do(["set_role", e.path, rng.choice(["metadata", "positions", "extents", "data", "link"]),
                     other.path if rng.random() < 0.8 else None])


def run_history(ctx, rng, steps, profile, tag, reopen_prob=0.0):
    """returns (ops, impl_outs, literal_names)"""
    path = ctx.tmpfile("store-%s.nix" % tag)
    impl = Impl(path, literal_uuid_names=(LIT_UUID,))
    gen = Gen(rng, impl, profile)
    try:
        for _ in range(steps):
            gen.step()
            if reopen_prob and rng.random() < reopen_prob:
                impl.reopen("a")
                gen.ops.append(["noop"])
                gen.outs.append({"ok": None})
        gen.do(["dump"])
    finally:
        impl.close()
        try:
            import os
            os.remove(path)
        except OSError:
            pass
    return gen.ops, gen.outs


def canon_dump(nodes):
    """HDF5-level dump with the order of an ENTITY's own child links (and the root's) normalised:
    which of an entity's container groups was created first is not observable through the API
    (a refused call may leave an empty container behind, which fixes that order). Entries inside
    container groups keep their (creation) order. Nodes are renumbered by DFS."""
    by_n = {nd["n"]: nd for nd in nodes}
    order = []
    seen = set()

    def visit(n):
        if n in seen or n not in by_n:
            return
        seen.add(n)
        order.append(n)
        nd = by_n[n]
        links = nd["links"]
        if n == 0 or "entity_id" in nd["attrs"]:
            links = sorted(links, key=lambda l: str(l[0]))
        nd["_links"] = links
        for _, t in links:
            visit(t)

    visit(0)
    num = {n: i for i, n in enumerate(order)}
    out = []
    for n in order:
        nd = by_n[n]
        out.append({"n": num[n], "kind": nd["kind"], "attrs": nd["attrs"],
                    "links": [[nm, num.get(t, -1)] for nm, t in nd["_links"]]})
    return out


def compare(ops, impl_outs, model_outs):
    """canonicalise both streams identically; returns list of (index, op, model, impl)"""
    mi, ii = {}, {}
    diffs = []
    for k, (op, m, i) in enumerate(zip(ops, model_outs, impl_outs)):
        if op[0] == "dump" and isinstance(m.get("ok"), list) and isinstance(i.get("ok"), list):
            m = {"ok": canon_dump(m["ok"])}
            i = {"ok": canon_dump(i["ok"])}
        cm = canon_ids(m, mi, (LIT_UUID,))
        ci = canon_ids(i, ii, (LIT_UUID,))
        if cm != ci:
            if "bad" in cm and "bad" in ci:
                continue            # the op addressed something that does not exist (on both sides)
            # names containing '/' make h5py resolve paths; only ok/refused is compared there
            if any(isinstance(a, str) and "/" in a for a in op) and ("err" in cm) and ("err" in ci):
                continue
            diffs.append((k, op, cm, ci))
    return diffs
