"""Canonical walk of a NIX file through the public nixio API.

`walk(nixfile)` returns a list of JSON-able records, one per entity, in container order (depth first):
file, blocks (their data arrays with dimensions, data frames, groups, tags and multi-tags with features,
sources recursively), then the metadata tree (sections with their properties, recursively).

* self-contained: needs only numpy + an open `nixio.File`; never writes to the file; never imports other
  parts of the harness;
* deterministic: everything that comes from a dict/set is sorted, container order is kept as returned by
  the API, numbers are rendered exactly (`float.hex`, ints as ints), array contents as a sha256 over
  dtype/shape/bytes (text arrays: over the JSON of the nested list);
* total: an accessor that raises is recorded as `{"!": "<ExceptionClass>"}` in place of the value, so a
  damaged file yields a *different* walk instead of an aborted one (`walk_or_error` also catches failures
  of the traversal itself);
* ids: kept verbatim by default (`rename_ids=True` renames them `#1, #2, …` by first occurrence, for
  comparisons across files).

Record schema: {"path": <addressing of DESIGN appendix A>, "kind": ..., <attributes>, <containers: ordered
child names>, <link lists: ordered target [id, name]>, <role links: target [id, name] or null>}.
`flatten(records)` turns a walk into an ordered list of (path, sha256-of-record) pairs; `diff(a, b)` lists
the paths whose records differ.
"""
import hashlib
import json

import numpy as np


def _exc(e):
    return {"!": type(e).__name__}


def num(x):
    """exact, JSON-able rendering of a scalar"""
    if x is None:
        return None
    if isinstance(x, (bool, np.bool_)):
        return bool(x)
    if isinstance(x, (int, np.integer)):
        return int(x)
    if isinstance(x, (float, np.floating)):
        return {"f": float(x).hex()}
    if isinstance(x, (complex, np.complexfloating)):
        return {"c": [float(x.real).hex(), float(x.imag).hex()]}
    if isinstance(x, bytes):
        try:
            return x.decode("utf-8")
        except UnicodeDecodeError:
            return {"b": x.hex()}
    if isinstance(x, str):
        return x
    if isinstance(x, np.ndarray):
        return [num(v) for v in x.tolist()]
    if isinstance(x, (list, tuple)):
        return [num(v) for v in x]
    if isinstance(x, dict):
        return {str(k): num(v) for k, v in sorted(x.items(), key=lambda kv: str(kv[0]))}
    if hasattr(x, "value") and hasattr(x, "name") and x.__class__.__module__.startswith("nixio"):
        return str(x.value)  # nixio enums
    return str(x)


def data_hash(arr):
    """sha256 over dtype, shape and content of an array-like (text/object arrays via JSON)"""
    a = np.asarray(arr)
    h = hashlib.sha256()
    if a.dtype.kind in "OUS" or a.dtype.names:
        h.update(b"json")
        h.update(json.dumps([str(a.dtype) if a.dtype.names else a.dtype.kind, list(a.shape), num(a.tolist())],
                            sort_keys=True, ensure_ascii=True).encode("ascii"))
    else:
        a = np.ascontiguousarray(a)
        h.update(a.dtype.str.encode("ascii"))
        h.update(repr(tuple(int(s) for s in a.shape)).encode("ascii"))
        h.update(a.tobytes())
    return h.hexdigest()


def vec(x, limit=32):
    """a vector rendered exactly; long ones as length + sha256 of the exact rendering"""
    v = num(x)
    if isinstance(v, list) and len(v) > limit:
        h = hashlib.sha256(json.dumps(v, sort_keys=True, ensure_ascii=True).encode("ascii")).hexdigest()
        return {"n": len(v), "sha256": h, "head": v[:4]}
    return v


def _get(obj, attr, conv=num):
    try:
        return conv(getattr(obj, attr))
    except Exception as e:  # recorded, not raised (a damaged file must give a different walk)
        return _exc(e)


def _call(fn, conv=num):
    try:
        return conv(fn())
    except Exception as e:
        return _exc(e)


def _ref(ent):
    """[id, name] of a linked entity (or null)"""
    if ent is None:
        return None
    return [_get(ent, "id"), _get(ent, "name")]


def _items(container):
    """the entities of a container in container order; a failing container yields an error marker"""
    try:
        return list(container), None
    except Exception as e:
        return [], _exc(e)


def _names(obj, attr):
    try:
        ents, err = _items(getattr(obj, attr))
    except Exception as e:
        return _exc(e)
    if err is not None:
        return err
    return [_get(e, "name") for e in ents]


def _links(obj, attr):
    try:
        ents, err = _items(getattr(obj, attr))
    except Exception as e:
        return _exc(e)
    if err is not None:
        return err
    return [_ref(e) for e in ents]


def _children(obj, attr):
    try:
        ents, err = _items(getattr(obj, attr))
    except Exception:
        return []
    return ents


def _role(obj, attr):
    try:
        return _ref(getattr(obj, attr))
    except Exception as e:
        return _exc(e)


def _entity(rec, ent):
    for a in ("id", "name", "type", "definition", "created_at", "updated_at"):
        rec[a] = _get(ent, a)
    return rec


def _storage(ent):
    """chunking / compression of the 'data' dataset (non-public accessor, guarded)"""
    try:
        ds = ent._h5group.group["data"]
        return {"compression": ds.compression, "opts": num(ds.compression_opts), "chunks": num(ds.chunks),
                "maxshape": num(ds.maxshape)}
    except Exception as e:
        return _exc(e)


# ------------------------------------------------------------------------------------------------
# per-kind records


def _dimension(path, i, dim):
    rec = {"path": "%s/dim#%d" % (path, i), "kind": "dimension"}
    rec["dimension_type"] = _get(dim, "dimension_type")
    rec["index"] = _get(dim, "index")
    kind = rec["dimension_type"]
    if kind == "set":
        rec["labels"] = _get(dim, "labels", conv=vec)
    elif kind == "sample":
        for a in ("label", "unit", "sampling_interval", "offset"):
            rec[a] = _get(dim, a)
    elif kind == "range":
        for a in ("label", "unit", "is_alias"):
            rec[a] = _get(dim, a)
        rec["ticks"] = _get(dim, "ticks", conv=vec)
        rec["has_link"] = _get(dim, "has_link")
    elif kind == "data_frame":
        for a in ("label", "unit", "column_idx"):
            rec[a] = _get(dim, a)
    else:
        for a in ("label", "unit"):
            rec[a] = _get(dim, a)
    def link():
        if not dim.has_link:
            return None
        dl = dim.dimension_link
        return {"target": _ref(dl.linked_data), "index": num(dl.index), "type": num(dl._data_object_type)}
    rec["link"] = _call(link, conv=lambda v: v)
    return rec


def _data_array(out, path, da):
    rec = _entity({"path": path, "kind": "data_array"}, da)
    rec["dtype"] = _get(da, "dtype", conv=lambda d: str(d))
    rec["shape"] = _get(da, "shape")
    rec["data_extent"] = _get(da, "data_extent")
    rec["data"] = _call(lambda: data_hash(da[:] if len(da.shape) else da[()]), conv=lambda v: v)
    for a in ("label", "unit", "expansion_origin", "polynom_coefficients"):
        rec[a] = _get(da, a)
    rec["storage"] = _storage(da)
    rec["sources"] = _links(da, "sources")
    rec["metadata"] = _role(da, "metadata")
    dims = _children(da, "dimensions")
    rec["n_dimensions"] = _call(lambda: len(da.dimensions))
    out.append(rec)
    for i, d in enumerate(dims, 1):
        out.append(_dimension(path, i, d))


def _data_frame(out, path, df):
    rec = _entity({"path": path, "kind": "data_frame"}, df)
    rec["column_names"] = _get(df, "column_names")
    rec["dtype"] = _get(df, "dtype", conv=lambda t: [str(x) for x in t])
    rec["units"] = _get(df, "units")
    rec["df_shape"] = _get(df, "df_shape")
    rec["shape"] = _get(df, "shape")
    rec["data"] = _call(lambda: data_hash(df[:]), conv=lambda v: v)
    rec["storage"] = _storage(df)
    rec["metadata"] = _role(df, "metadata")
    out.append(rec)


def _feature(out, path, i, feat):
    rec = {"path": "%s/f#%d" % (path, i), "kind": "feature"}
    for a in ("id", "link_type", "created_at", "updated_at"):
        rec[a] = _get(feat, a)
    rec["data"] = _role(feat, "data")
    out.append(rec)


def _tag_common(rec, tag):
    rec["units"] = _get(tag, "units")
    rec["references"] = _links(tag, "references")
    rec["sources"] = _links(tag, "sources")
    rec["metadata"] = _role(tag, "metadata")
    rec["n_features"] = _call(lambda: len(tag.features))


def _tag(out, path, tag):
    rec = _entity({"path": path, "kind": "tag"}, tag)
    rec["position"] = _get(tag, "position")
    rec["extent"] = _get(tag, "extent")
    _tag_common(rec, tag)
    out.append(rec)
    for i, f in enumerate(_children(tag, "features"), 1):
        _feature(out, path, i, f)


def _multi_tag(out, path, mt):
    rec = _entity({"path": path, "kind": "multi_tag"}, mt)
    rec["positions"] = _role(mt, "positions")
    rec["extents"] = _role(mt, "extents")
    _tag_common(rec, mt)
    out.append(rec)
    for i, f in enumerate(_children(mt, "features"), 1):
        _feature(out, path, i, f)


def _source(out, path, src):
    rec = _entity({"path": path, "kind": "source"}, src)
    rec["sources"] = _names(src, "sources")
    rec["metadata"] = _role(src, "metadata")
    out.append(rec)
    for s in _children(src, "sources"):
        _source(out, "%s/src:%s" % (path, _jname(s)), s)


def _group(out, path, grp):
    rec = _entity({"path": path, "kind": "group"}, grp)
    for a in ("data_arrays", "data_frames", "tags", "multi_tags", "sources"):
        rec[a] = _links(grp, a)
    rec["metadata"] = _role(grp, "metadata")
    out.append(rec)


def _property(out, path, prop):
    rec = {"path": path, "kind": "property"}
    for a in ("id", "name", "definition", "created_at", "updated_at", "unit", "uncertainty", "reference",
              "dependency", "dependency_value", "value_origin"):
        rec[a] = _get(prop, a)
    rec["type"] = _get(prop, "type")
    rec["data_type"] = _get(prop, "data_type", conv=lambda t: getattr(t, "__name__", str(t)))
    rec["odml_type"] = _get(prop, "odml_type")
    rec["values"] = _get(prop, "values", conv=lambda vs: [[type(v).__name__, num(v)] for v in vs])
    out.append(rec)


def _section(out, path, sec):
    rec = _entity({"path": path, "kind": "section"}, sec)
    for a in ("repository", "reference"):
        rec[a] = _get(sec, a)
    rec["link"] = _role(sec, "link")
    rec["props"] = _names(sec, "props")
    rec["sections"] = _names(sec, "sections")
    out.append(rec)
    for p in _children(sec, "props"):
        _property(out, "%s/p:%s" % (path, _jname(p)), p)
    for s in _children(sec, "sections"):
        _section(out, "%s/s:%s" % (path, _jname(s)), s)


def _jname(ent):
    try:
        return json.dumps(ent.name, ensure_ascii=True)
    except Exception as e:
        return "!%s" % type(e).__name__


def _block(out, blk):
    path = "b:%s" % _jname(blk)
    rec = _entity({"path": path, "kind": "block"}, blk)
    for a in ("data_arrays", "data_frames", "groups", "tags", "multi_tags", "sources"):
        rec[a] = _names(blk, a)
    rec["metadata"] = _role(blk, "metadata")
    out.append(rec)
    for da in _children(blk, "data_arrays"):
        _data_array(out, "%s/da:%s" % (path, _jname(da)), da)
    for df in _children(blk, "data_frames"):
        _data_frame(out, "%s/df:%s" % (path, _jname(df)), df)
    for g in _children(blk, "groups"):
        _group(out, "%s/g:%s" % (path, _jname(g)), g)
    for t in _children(blk, "tags"):
        _tag(out, "%s/t:%s" % (path, _jname(t)), t)
    for mt in _children(blk, "multi_tags"):
        _multi_tag(out, "%s/mt:%s" % (path, _jname(mt)), mt)
    for s in _children(blk, "sources"):
        _source(out, "%s/src:%s" % (path, _jname(s)), s)


def walk(nixfile, rename_ids=False):
    """the canonical walk of an open nixio.File (list of records, container order)"""
    out = []
    rec = {"path": "/", "kind": "file"}
    for a in ("format", "version", "id", "created_at", "updated_at"):
        rec[a] = _get(nixfile, a)
    rec["blocks"] = _names(nixfile, "blocks")
    rec["sections"] = _names(nixfile, "sections")
    out.append(rec)
    for b in _children(nixfile, "blocks"):
        _block(out, b)
    for s in _children(nixfile, "sections"):
        _section(out, "s:%s" % _jname(s), s)
    if rename_ids:
        out = rename(out)
    return out


def walk_or_error(nixfile, rename_ids=False):
    try:
        return walk(nixfile, rename_ids)
    except Exception as e:  # traversal itself failed
        return [{"path": "/", "kind": "unwalkable", "error": type(e).__name__}]


_UUID_LEN = 36


def _looks_like_id(s):
    return isinstance(s, str) and len(s) == _UUID_LEN and s.count("-") == 4


def rename(records):
    """ids renamed #1, #2, ... by first occurrence (deep)"""
    table = {}

    def go(x):
        if isinstance(x, dict):
            return {k: go(v) for k, v in x.items()}
        if isinstance(x, list):
            return [go(v) for v in x]
        if _looks_like_id(x):
            if x not in table:
                table[x] = "#%d" % (len(table) + 1)
            return table[x]
        return x
    return [go(r) for r in records]


def record_hash(rec):
    return hashlib.sha256(json.dumps(rec, sort_keys=True, ensure_ascii=True).encode("ascii")).hexdigest()[:20]


def flatten(records):
    """ordered (path, hash of the record) pairs"""
    return [[r["path"], record_hash(r)] for r in records]


def diff(a, b, limit=8):
    """paths whose records differ between two walks (first `limit`), with both records"""
    da = {r["path"]: r for r in a}
    db = {r["path"]: r for r in b}
    out = []
    order_a = [r["path"] for r in a]
    order_b = [r["path"] for r in b]
    for p in order_a + [p for p in order_b if p not in da]:
        ra, rb = da.get(p), db.get(p)
        if ra != rb:
            fields = None
            if ra is not None and rb is not None:
                fields = sorted(k for k in set(ra) | set(rb) if ra.get(k) != rb.get(k))
            out.append({"path": p, "fields": fields,
                        "a": None if ra is None else {k: ra[k] for k in (fields or list(ra))[:6]},
                        "b": None if rb is None else {k: rb[k] for k in (fields or list(rb))[:6]}})
            if len(out) >= limit:
                break
    if not out and order_a != order_b:
        out.append({"path": "<order>", "fields": None, "a": order_a[:20], "b": order_b[:20]})
    return out
