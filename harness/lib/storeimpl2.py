"""Two-file implementation runner for the copy protocol of lean/Driver/Store2.lean."""
import contextlib
import io
import os

import nixio

from .storeimpl import Impl, BadOp, err_name


class Impl2:
    def __init__(self, path0, path1, literal_uuid_names=()):
        self.files = [Impl(path0, literal_uuid_names), Impl(path1, literal_uuid_names)]
        self.cur = 0

    @property
    def impl(self):
        return self.files[self.cur]

    @property
    def f(self):
        return self.impl.f

    def close(self):
        for i in self.files:
            i.close()

    def remove(self):
        for i in self.files:
            try:
                os.remove(i.path)
            except OSError:
                pass

    def reopen(self, mode="a"):
        for i in self.files:
            i.reopen(mode)

    def run(self, op):
        kind = op[0]
        if kind == "use":
            self.cur = int(op[1])
            return {"ok": None}
        if not kind.startswith("copy_"):
            return self.impl.run(op)
        try:
            with contextlib.redirect_stdout(io.StringIO()):
                return {"ok": self._copy(op)}
        except BadOp as e:
            return {"bad": str(e)}
        except NameError:
            return {"err": "DuplicateName"}
        except Exception as e:  # noqa
            return {"err": err_name(e)}

    def _copy(self, op):
        kind = op[0]
        dest = self.impl
        if kind == "copy_block":
            _, sf, sp, name, keep = op
            src = self.files[sf].nav(sp)
            dest.f.create_block(name=name, copy_from=src, keep_copy_id=keep)
            return None
        if kind == "copy_into":
            _, dp, what, sf, sp, name, keep = op
            blk = dest.nav(dp)
            src = self.files[sf].nav(sp)
            if not isinstance(blk, nixio.Block):
                raise AttributeError("not a block")
            if what == "data_array":
                blk.create_data_array(name=name, copy_from=src, keep_copy_id=keep)
            elif what == "tag":
                blk.create_tag(name=name, copy_from=src, keep_copy_id=keep)
            elif what == "multi_tag":
                blk.create_multi_tag(name=name, copy_from=src, keep_copy_id=keep)
            else:
                raise AttributeError(what)
            return None
        if kind == "copy_section":
            _, dp, sf, sp, children, keep, name = op
            owner = dest.f if dp is None else dest.nav(dp)
            src = self.files[sf].nav(sp)
            if not hasattr(owner, "copy_section"):
                raise AttributeError("copy_section")
            owner.copy_section(src, children=children, keep_id=keep, name=name)
            return None
        if kind == "copy_property":
            _, dp, sf, sp, name, keep = op
            sec = dest.nav(dp)
            src = self.files[sf].nav(sp)
            if not isinstance(sec, nixio.Section):
                raise AttributeError("not a section")
            sec.create_property(name=name, copy_from=src, keep_copy_id=keep)
            return None
        raise BadOp("unknown copy op")
