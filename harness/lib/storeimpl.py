"""Executes the structural-model line protocol (lean/Driver/Store.lean) against real nixio.

Paths are lists: container names / role names (str) and item selectors (str = entity name found
by *iterating* the container and comparing `.name`, int = position). Addressing therefore does
not depend on the name/id dispatch that C03 puts under test.
"""
import contextlib
import io
import re

import h5py
import nixio
from nixio.exceptions import DuplicateName

ROLES = ("metadata", "positions", "extents", "data", "link")
UUID_RE = re.compile(r"^[0-9a-f]{8}-[0-9a-f]{4}-[0-9a-f]{4}-[0-9a-f]{4}-[0-9a-f]{12}$")
TRACKED = ("name", "type", "entity_id", "definition", "label", "unit", "link_type", "target_type",
           "repository", "reference")


def err_name(e):
    if isinstance(e, DuplicateName):
        return "DuplicateName"
    for cls, nm in ((IndexError, "IndexError"), (KeyError, "KeyError"), (NameError, "NameError"),
                    (AttributeError, "AttributeError"), (TypeError, "TypeError"), (ValueError, "ValueError"),
                    (RuntimeError, "RuntimeError")):
        if isinstance(e, cls):
            return nm
    return type(e).__name__


class BadOp(Exception):
    pass


class Impl:
    def __init__(self, path, literal_uuid_names=()):
        self.path = path
        self.f = nixio.File.open(path, nixio.FileMode.Overwrite)
        self.idmap = {}
        self.literal = set(literal_uuid_names)

    def close(self):
        try:
            self.f.close()
        except Exception:
            pass

    def reopen(self, mode="a"):
        self.f.close()
        self.f = nixio.File.open(self.path, nixio.FileMode.ReadOnly if mode == "r" else nixio.FileMode.ReadWrite)

    def cid(self, s):
        """ids are canonicalised after the run, by `canon_ids`, identically for model and implementation"""
        if isinstance(s, bytes):
            s = s.decode()
        return s

    # -- navigation -------------------------------------------------------------------
    def container(self, owner, cname):
        if isinstance(owner, nixio.File):
            if cname == "data":
                return owner.blocks
            if cname == "metadata":
                return owner.sections
            raise BadOp("no container %s on file" % cname)
        attr = "props" if cname == "properties" else cname
        if not hasattr(owner, attr):
            raise BadOp("no container %s on %s" % (cname, type(owner).__name__))
        return getattr(owner, attr)

    def nav(self, path):
        cur = self.f
        i = 0
        while i < len(path):
            seg = path[i]
            if not isinstance(cur, nixio.File) and seg in ROLES:
                cur = getattr(cur, seg)
                if cur is None:
                    raise BadOp("role %s not set" % seg)
                i += 1
                continue
            cont = self.container(cur, seg)
            if i + 1 >= len(path):
                raise BadOp("path ends in a container")
            sel = path[i + 1]
            if isinstance(sel, int):
                try:
                    cur = cont[sel]
                except (IndexError, KeyError):
                    raise BadOp("no item at position %d" % sel)
            else:
                found = None
                for e in cont:
                    if getattr(e, "name", None) == sel:
                        found = e
                        break
                if found is None:
                    raise BadOp("no item named %r" % sel)
                cur = found
            i += 2
        return cur

    def name_arg(self, a):
        if isinstance(a, dict):
            return self.nav(a["id"]).id
        return a

    def key_arg(self, k):
        if "s" in k:
            return k["s"]
        if "id" in k:
            return self.nav(k["id"]).id
        if "nameof" in k:
            return self.nav(k["nameof"]).name
        if "p" in k:
            return int(k["p"])
        if "o" in k:
            return self.nav(k["o"])
        raise BadOp("bad key")

    def ident(self, e):
        nm = getattr(e, "name", None) if not isinstance(e, nixio.Feature) else None
        return [self.cid(nm) if nm is not None else None, self.cid(e.id)]

    # -- ops --------------------------------------------------------------------------
    def run(self, op):
        try:
            with contextlib.redirect_stdout(io.StringIO()):
                return {"ok": self._run(op)}
        except BadOp as e:
            return {"bad": str(e)}
        except Exception as e:  # noqa: canonicalised by class
            return {"err": err_name(e)}

    def _run(self, op):
        f = self.f
        kind = op[0]
        if kind == "create_block":
            f.create_block(self.name_arg(op[1]), op[2])
            return None
        if kind == "create_section":
            owner = self.nav(op[1])
            owner.create_section(self.name_arg(op[2]), op[3])
            return None
        if kind == "create":
            owner = self.nav(op[1])
            what, name, typ, extra = op[2], self.name_arg(op[3]), op[4], op[5]
            if what == "group":
                owner.create_group(name, typ)
            elif what == "data_array":
                owner.create_data_array(name, typ, data=[1.0, 2.0])
            elif what == "tag":
                owner.create_tag(name, typ, [1.0])
            elif what == "source":
                owner.create_source(name, typ)
            elif what == "multi_tag":
                pos = self.nav(extra) if extra is not None else None
                owner.create_multi_tag(name, typ, positions=pos)
            else:
                raise BadOp("create what?")
            return None
        if kind == "create_property":
            owner = self.nav(op[1])
            owner.create_property(self.name_arg(op[2]), 0)
            return None
        if kind == "create_feature":
            owner = self.nav(op[1])
            data = self.nav(op[2]) if op[2] is not None else None
            owner.create_feature(data, op[3])
            return None
        if kind == "del":
            cont = self.container(self.nav(op[1]), op[2])
            del cont[self.key_arg(op[3])]
            return None
        if kind == "append":
            cont = self.container(self.nav(op[1]), op[2])
            cont.append(self.key_arg(op[3]))
            return None
        if kind == "set_role":
            owner = self.nav(op[1])
            role = op[2]
            if op[3] is None:
                if role == "metadata":
                    if not hasattr(type(owner), "metadata"):
                        raise AttributeError("no metadata")
                    del owner.metadata
                else:
                    if not hasattr(type(owner), role):
                        raise AttributeError(role)
                    setattr(owner, role, None)
            else:
                target = self.nav(op[3])
                if not hasattr(type(owner), role):
                    raise AttributeError(role)
                setattr(owner, role, target)
            return None
        if kind == "set_attr":
            owner = self.nav(op[1])
            if not hasattr(type(owner), op[2]) or isinstance(owner, nixio.File):
                raise AttributeError(op[2])
            setattr(owner, op[2], op[3])
            return None
        if kind == "len":
            return len(self.container(self.nav(op[1]), op[2]))
        if kind == "list":
            return [self.ident(e) for e in self.container(self.nav(op[1]), op[2])]
        if kind == "get":
            cont = self.container(self.nav(op[1]), op[2])
            return self.ident(cont[self.key_arg(op[3])])
        if kind == "has":
            cont = self.container(self.nav(op[1]), op[2])
            return bool(self.key_arg(op[3]) in cont)
        if kind == "role":
            owner = self.nav(op[1])
            try:
                t = getattr(owner, op[2])
            except RuntimeError:
                t = None
            return None if t is None else self.ident(t)
        if kind == "dump":
            return self.dump()
        if kind == "reset":
            raise BadOp("reset is handled by the harness")
        raise BadOp("unknown op %s" % kind)

    # -- HDF5-level dump --------------------------------------------------------------
    def dump(self):
        """same schema as Driver.Store.dumpFrom, read with h5py from the open file"""
        h5 = self.f._h5file
        h5.flush()
        seen = {}
        out = {}

        def addr(obj):
            info = h5py.h5o.get_info(obj.id)
            tok = getattr(info, "token", None)
            return bytes(tok) if tok is not None else info.addr

        def empty_cont(obj):
            return isinstance(obj, h5py.Group) and len(obj) == 0 and not [a for a in obj.attrs if a in TRACKED]

        def visit(obj):
            a = addr(obj)
            if a in seen:
                return seen[a]
            n = len(seen)
            seen[a] = n
            links = []
            if isinstance(obj, h5py.Group):
                names = []
                obj.id.links.iterate(lambda nm: names.append(nm), idx_type=h5py.h5.INDEX_CRT_ORDER,
                                     order=h5py.h5.ITER_INC)
                for nm in names:
                    nm = nm.decode() if isinstance(nm, bytes) else nm
                    child = obj[nm]
                    if empty_cont(child):
                        continue
                    links.append([self.cid(nm), visit(child)])
            attrs = {}
            for k in TRACKED:
                if k in obj.attrs and obj is not h5["/"]:
                    v = obj.attrs[k]
                    if isinstance(v, bytes):
                        v = v.decode()
                    attrs[k] = self.cid(str(v))
            out[n] = {"n": n, "kind": "group" if isinstance(obj, h5py.Group) else "dataset", "attrs": attrs,
                      "links": links}
            return n

        visit(h5["/"])
        return [out[k] for k in sorted(out)]


def canon_ids(x, idmap, literal=()):
    """rename ids by first occurrence: model ids look like 'id:N', real ones are uuid4 text;
    uuid-looking *names* chosen by the generator (`literal`) stay as they are. Lists in order,
    dict keys sorted, so both sides meet ids in the same order."""
    if isinstance(x, str):
        if (x.startswith("id:") or UUID_RE.match(x)) and x not in literal:
            if x not in idmap:
                idmap[x] = "#%d" % len(idmap)
            return idmap[x]
        return x
    if isinstance(x, list):
        return [canon_ids(v, idmap, literal) for v in x]
    if isinstance(x, dict):
        return {k: canon_ids(x[k], idmap, literal) for k in sorted(x)}
    return x
