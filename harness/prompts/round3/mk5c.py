import json, glob, os, sys
T = open('/verif/harness/prompts/round3/COMMON.txt').read()


SPEC = {
"C20": ("""Round-3 seeds C20-6 and C20-7 came in after your predecessors finished (and deletion is by object since /repo d24d4ca - see
reports/C20.md and DESIGN 0.8). C20-7 is only caught-nofail: `Block._copy_objects` (behind create_data_array /
create_data_frame / create_tag / create_multi_tag(copy_from=...)) builds the source path from `obj._h5group.name` (the
HDF5 LINK name) instead of `obj.name`: for handles from the block's own lists the two agree, for handles fetched THROUGH A
LINK the HDF5 name is the link name (the entity id for group members and tag references, the literal `positions` /
`extents` / `data` for multi-tag positions / extents and feature data): such a copy is refused with RuntimeError, or - when
the block holds another array that happens to be called `positions` / `data` - that OTHER array is copied silently.
Class: the SOURCE of a copy given as a handle of every provenance (returned by create_*, fetched by name / id / position,
through group member lists, tag.references, multi_tag.positions / extents, feature.data, metadata links, Section.link,
after reopen, kept across other operations) and the destination likewise: the copy must be complete and equal to the
source whatever handle was used. Your oracle only copies handles fetched from the owning containers. ALSO: the check takes
~1400 s against a broken tree (quick tier, boosted) - make the failing-input search stop at the first few distinct failures
and bound it to about 5 minutes in the quick tier (put the rest into thorough).""", """- Continue with what reports/C20.md lists as partial; C20-4's harm no longer exists under deletion by object (note it in the report)."""),
}
import subprocess
def status(pid):
    out = []
    for d in sorted(glob.glob('/verif/seeded/%s-*/' % pid)):
        m = json.load(open(d + 'meta.json'))
        sid = os.path.basename(d[:-1])
        v = m.get('verification', {})
        runs = [(p, ('MISSED' if c['exit'] == 0 else ('infra' if c['exit'] == 2 else 'timeout' if c['exit'] == 124 else ('caught-nofail' if any('no-failing-input-found' in l for l in c['lines']) else 'caught')))) for p, c in v.get('checks', {}).items()]
        runs += [(r['check'], r['result'] + ' (later run)') for r in m.get('later_runs', [])]
        out.append("  %s: %s\n      needs: %s\n      our check: %s" % (sid, (m.get('summary') or '')[:300].replace('\n', ' '), (m.get('needs_to_manifest') or '')[:300].replace('\n', ' '), ', '.join('%s %s' % r for r in runs)))
    return '\n'.join(out)
for pid in sys.argv[1:]:
    a, b = SPEC[pid]
    txt = T.replace('{SEEDSTATUS}', status(pid)).replace('{SPECIFIC_A}', a or 'All seeded changes are caught with a concrete input at the moment: re-run them once to confirm, then spend your time on task B.').replace('{SPECIFIC_B}', b).replace('{PID}', pid).replace('{pid}', pid.lower())
    open('/verif/harness/prompts/round3/%s-r5.txt' % pid, 'w').write(txt)
    print(pid, len(txt))
