import json, glob, os, sys
T = open('/verif/harness/prompts/round3/COMMON.txt').read()

SPEC = {
"C12": ("""New seeds C12-4 and C12-5 came in after your predecessor finished (see the status list). C12-5 is MISSED: the
pre-check of the tick-vector index (`Dimension._check_index`, used by link_data_array on range and set dimensions and by
append_range_dimension_using_self) was rewritten with numpy so that a well-formed 1-D numeric ndarray index passes; the
call is then refused later by the `DimensionLink.index` setter (InvalidAttrType) AFTER the existing link was removed and
the new link group built - a half-built link without index stays (has_link True, ticks unreadable), and
append_range_dimension_using_self leaves a broken extra dimension. Class: multi-argument mutators where ONE argument in an
unusual but well-formed spelling passes the first check and fails a later one. The spelling sweep
(harness/props/c12_sweep.py) varies the value of single-value mutators; extend it to the remaining arguments of
multi-argument calls: link_data_array / link_data_frame (index), append_range_dimension_using_self (index),
create_feature (link_type spellings), create_data_array (shape / dtype / unit / label spellings with valid data),
append_*_dimension keyword arguments, create_property (dtype / values_or_dtype), write_cell / write_column (position,
index, name spellings), get/put of DataFrame, copy functions (name spellings). Whatever is refused must leave the file
identical.""",
"""- Continue with what reports/C12.md lists as still having no theorem (DataSet.append, write_direct, __setitem__,
  data_extent, DataFrame writes, the other dimension setters and links, Property attribute setters, Section item
  assignment, copy_from, File-level deletes): add them to Generated/MutatorOrder / the writer model with their
  refused_unchanged theorems, in the order of how often users call them."""),
"C19": ("""New seeds C19-4 and C19-5 came in after your predecessor finished. C19-4 is MISSED: `Tag.create_new` saves
file.auto_update_timestamps, switches it off around `newentity.position = position`, and restores it after the existing
try/except instead of in a `finally`: when the position setter raises (create_tag("t","type",["not","a","position"]))
the half-built tag is removed and the exception re-raised, but the File's switch stays False, so from then on no setter
of any entity stamps updated_at although the user enabled automatic timestamps. Class: session state (the switch) changed
as a side effect of a call - in particular of a REFUSED call - and every later setter silently behaving as with the
switch off. The oracle must (a) interleave refused calls of every creating / mutating kind (bad position, duplicate name,
foreign array, wrong dtype ...) into its histories and keep requiring `updated_at == clock` for the listed setters
afterwards, and (b) read `file.auto_update_timestamps` after every call: only an assignment to it may change it. The
path-sensitive translator (harness/extract/setters.py) can also record every assignment to
`auto_update_timestamps` / `_auto_update_timestamps` outside File's own setter as a table with a theorem that there is
none.""",
"""- Continue with the items reports/C19.md lists as partial or outside the model."""),
"C14": ("""New seeds C14-4 and C14-5 came in after your predecessor finished. C14-5 is only caught-nofail: `created_at is None`
became `not created_at` in check_entity / check_feature, so an entity dated exactly at the epoch
(force_created_at(0), stored as 19700101T000000) gets a spurious "date is not set" on an otherwise consistent file. Class:
boundary VALUES of the fields the validator tests for presence - a present but falsy value (created_at 0, an id or name or
type that is a falsy-looking but non-empty string such as "0" or " ", a unit "" vs None, position [0.0], extent [0.0],
ticks [0.0], labels [""], sampling_interval 0 vs None, an empty-but-present positions array) must not be reported as
missing unless the catalogue entry says so. Put those boundary values into the well-formed generator (the oracle then
requires NO report for them) and into the injections where the catalogue does call them an inconsistency.""",
"""- Continue with the items reports/C14.md lists as partial; the missing-id finding stays open unless you see a small
  safe repair."""),
"C16": ("""New seeds C16-4 and C16-5 came in after your predecessor finished; both are only caught-nofail (the generated shape
theorems break, but the oracle finds no failing input). C16-4: `append_rows` got a fast path that hands a numpy RECORD
ARRAY straight to the dataset append; libhdf5 matches compound members BY NAME, so rows given as a structured array
whose field names differ from the column names (e.g. `dst.append_rows(src.read_rows(...))` between frames with a renamed
column) store 0 / '' in the unmatched columns - the old code converted positionally. C16-5: `create_data_frame(data=<structured
array>)` derives the schema by sorting dtype.fields by byte offset instead of taking the array's field order; for a
structured array whose field order differs from its memory layout (multi-field indexing `table[['stop','trial','ok']]`, a
dtype with explicit non-increasing offsets) columns come out in the wrong order with the wrong data. Class: rows / tables
handed over as numpy STRUCTURED arrays (record arrays, np.void rows, results of read_rows / read_columns of another frame,
multi-field views, explicit offsets, different field names, different field order, extra padding) instead of lists of
tuples - every write op and every creation variant must treat them positionally / by the documented rule and read back
what was written. Add those spellings to the correspondence and the oracle (the model decides what is stored: the
positional conversion of the repaired code).""",
"""- Continue with the items reports/C16.md lists as partial."""),
}
import subprocess
def status(pid):
    out = []
    for d in sorted(glob.glob('/verif/seeded/%s-*/' % pid)):
        m = json.load(open(d + 'meta.json'))
        sid = os.path.basename(d[:-1])
        v = m.get('verification', {})
        runs = [(p, ('MISSED' if c['exit'] == 0 else ('infra' if c['exit'] == 2 else 'timeout' if c['exit'] == 124 else ('caught-nofail' if any('no-failing-input-found' in l for l in c['lines']) else 'caught')))) for p, c in v.get('checks', {}).items()]
        runs += [(r['check'], r['result'] + ' (later run)') for r in m.get('later_runs', [])]
        out.append("  %s: %s\n      needs: %s\n      our check: %s" % (sid, (m.get('summary') or '')[:300].replace('\n', ' '), (m.get('needs_to_manifest') or '')[:300].replace('\n', ' '), ', '.join('%s %s' % r for r in runs)))
    return '\n'.join(out)
for pid in sys.argv[1:]:
    a, b = SPEC[pid]
    txt = T.replace('{SEEDSTATUS}', status(pid)).replace('{SPECIFIC_A}', a or 'All seeded changes are caught with a concrete input at the moment: re-run them once to confirm, then spend your time on task B.').replace('{SPECIFIC_B}', b).replace('{PID}', pid).replace('{pid}', pid.lower())
    open('/verif/harness/prompts/round3/%s-r4.txt' % pid, 'w').write(txt)
    print(pid, len(txt))
