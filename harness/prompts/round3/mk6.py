import json, glob, os, sys
T = open('/verif/harness/prompts/round3/COMMON.txt').read()


SPEC = {
"C05": ("""Round-4 seed C05-8 came in after your predecessors finished; it is only caught-nofail. `SourceLinkContainer._accept` (shared by
append / extend of DataArray / Tag / MultiTag / Group `.sources`) replaced the Python walk of the block's source tree by a
search for the HDF5 object below the block's `sources` group with `H5Group.find_children` (h5py visititems). visititems
follows EVERY hard link, including each source's `metadata` link into the section tree, so the test became "reachable below
the block's sources" instead of "is a Source of the block's source tree": a Section (wrong kind) that is the metadata of a
source of the block (or a subsection of it, or a section it links to) is accepted by source link lists and stays after
reopening. Class: entities of the WRONG KIND that are reachable from the structure a membership check walks - sections that
are metadata of the block's sources / arrays / tags, arrays that are feature data or positions of the block's tags,
dimension-linked arrays, properties - offered to every link list and role link: all must be refused and the list left
unchanged. Your oracle offers wrong kinds, but apparently not ones that are linked from the source tree.""",
"""- Only if time remains: what reports/C05.md lists as partial."""),
"C14": ("""Round-4 seed C14-8 came in after your predecessors finished; it is only caught-nofail. `check_data_array` now skips the
`RangeDimTicksMismatch` test when `dim.is_alias` is true ("an alias dimension uses the array's own data as ticks, so the
count must equal the data length"). Since format 1.5 `RangeDimension.is_alias` is true for a dimension linked to ANY
DataArray, and link_data_array checks only the rank of the index, never the length of the selected vector: an array whose
range dimension is linked to a vector of ANOTHER array of a different length (or a self-alias used as descriptor of a
dimension other than the one its vector runs along) has a tick-count mismatch that validate() no longer reports. Class:
dimensions whose ticks / labels come through a LINK (vector of another array via [-1] or [i,-1] into an n-d array, a
self-alias on another dimension, a data-frame column, a linked set dimension's labels) with a count that differs from / equals
the data extent along that dimension; the catalogue entries about tick / label counts, sortedness and units apply to them
too. Put linked dimensions into the well-formed generator and into the injections.""",
"""- Only if time remains: what reports/C14.md lists as partial."""),
"C20": ("""Round-4 seed C20-8 came in after your predecessors finished; it is MISSED. `LinkContainer._inst_item` (through which all link
lists hand out their members: Tag / MultiTag.references, a Group's lists, source links) now looks each linked member up BY
NAME in the block's own container and, when the entity found there has the same entity_id, hands out THAT entity instead of
the linked HDF5 object. In an ordinary file both are the same object. But `create_tag` / `create_multi_tag(copy_from=...)`
copies the referenced arrays along with the tag; when such a copy keeps its ids and sits in a block that holds arrays of
the same name and id (its own block under a new name, or an id-keeping copy of that block), the copy's references now
resolve to the ORIGINAL arrays: a change made through `copy.references[i]` (label, unit, definition, data) shows up in the
source tag's references and in the block's arrays, and vice versa - "links among the copied entities point to the copied,
not the original" and "no change made to the copy is visible in the source" are false, although right after copying the
copy still reads equal to the source. Class: independence of a copy must be tested THROUGH THE COPY'S LINKS (references,
positions, extents, feature data, group members, sources, metadata), by HDF5 object identity and by mutation + re-read of
the other side, for id-keeping copies into the same block / a block holding same-id same-name entities. The oracle's
mutations go through the owning containers, and apparently its identity checks accept the same id.""",
"""- Only if time remains: what reports/C20.md lists as partial."""),
}
import subprocess
def status(pid):
    out = []
    for d in sorted(glob.glob('/verif/seeded/%s-*/' % pid)):
        m = json.load(open(d + 'meta.json'))
        sid = os.path.basename(d[:-1])
        v = m.get('verification', {})
        runs = [(p, ('MISSED' if c['exit'] == 0 else ('infra' if c['exit'] == 2 else 'timeout' if c['exit'] == 124 else ('caught-nofail' if any('no-failing-input-found' in l for l in c['lines']) else 'caught')))) for p, c in v.get('checks', {}).items()]
        runs += [(r['check'], r['result'] + ' (later run)') for r in m.get('later_runs', [])]
        out.append("  %s: %s\n      needs: %s\n      our check: %s" % (sid, (m.get('summary') or '')[:300].replace('\n', ' '), (m.get('needs_to_manifest') or '')[:300].replace('\n', ' '), ', '.join('%s %s' % r for r in runs)))
    return '\n'.join(out)
for pid in sys.argv[1:]:
    a, b = SPEC[pid]
    txt = T.replace('{SEEDSTATUS}', status(pid)).replace('{SPECIFIC_A}', a or 'All seeded changes are caught with a concrete input at the moment: re-run them once to confirm, then spend your time on task B.').replace('{SPECIFIC_B}', b).replace('{PID}', pid).replace('{pid}', pid.lower())
    open('/verif/harness/prompts/round3/%s-r6.txt' % pid, 'w').write(txt)
    print(pid, len(txt))
