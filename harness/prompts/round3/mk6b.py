import json, glob, os, sys
T = open('/verif/harness/prompts/round3/COMMON.txt').read()



SPEC = {
"C17": ("""Three seeds are only caught-nofail (the FlushShape translator breaks, the kill oracle finds no concrete failing input):
C17-7 (r2): File.__init__ / close() go through a module-level registry so that two File objects opened on the same path
share one h5py handle with a user count; close() of a File that is NOT the last user returns without flushing: writes made
through it stay in the caches and a SIGKILL right after that close() loses them. Needs two File objects open on the same
path in the writer process, writes through one, close() of that one while the other is still open, kill.
C17-10 (r3): flush() returns immediately when self.mode == ReadOnly; when the file is already open ReadWrite in the same
process a second File.open(path, ReadOnly) shares the writable HDF5 file, and flush() on THAT handle used to flush
everything; now it skips H5Fflush and what was written (through either handle) is lost on SIGKILL. Needs two handles on one
path in the writer, the second ReadOnly, flush() called on that one.
C17-9 (r3): flush() wraps the h5py flush in try/except RuntimeError ("flush on a closed file is a no-op"); h5py raises the
same class when H5Fflush cannot write (RLIMIT_FSIZE = current size + 512 with SIGXFSZ ignored, disk full): flush()
returns normally although nothing reached the OS. Needs a write fault at the flush point: flush() returned => state on
disk, so a flush() that RETURNS under a fault must still leave the flushed state (HEAD raises instead, making no promise).
Class: the writer child uses ONE File object per path and a fault-free disk. Extend the child (harness/props/c17_child.py)
and the chain generator with (a) several File objects on the same path in one writer process (RW+RW, RW+RO, opened before /
after the writes), writes through either, flush() / close() through either, in every order, then kill; the promise
applies to whichever flush()/close() returned last; (b) a flush / close issued under a file-size limit
(resource.RLIMIT_FSIZE, signal.SIGXFSZ ignored): if the call returns normally, the reopened file must show the state at
that call; if it raises, nothing is claimed. Keep the quick tier under ~90 s.""", """- Only if time remains: what reports/C17.md lists as partial."""),
"C08": ("""Seed C08-4 (r2: RangeDimension.index_of rewritten with np.searchsorted - LessOrEqual returns the FIRST of several equal
ticks instead of the last, so with repeated ticks a region whose included end falls exactly on the repeated value loses the
other samples with the same coordinate: point tag / zero extent on the repeated tick, or position+extent equal to it under
Inclusive) was caught with a failing input in its first run and is only caught-nofail in the final regression run: C07's
DimShape translator now breaks first and your bounded search (90 s) no longer reaches a repeated-tick case. Make the class
deterministic: repeated ticks (pairs and triples, at the start, inside and at the end of the axis) with positions / region
ends exactly ON the repeated value, both stop rules, Tag and MultiTag, rank 1-2 - as fixed cases that run first (corpus /
ORACLE fixed list), and give the random generator a repeated-tick stratum. Then re-run ALL C08 seeds.""", """- Only if time remains: what reports/C08.md lists as partial."""),
}
import subprocess
def status(pid):
    out = []
    for d in sorted(glob.glob('/verif/seeded/%s-*/' % pid)):
        m = json.load(open(d + 'meta.json'))
        sid = os.path.basename(d[:-1])
        v = m.get('verification', {})
        runs = [(p, ('MISSED' if c['exit'] == 0 else ('infra' if c['exit'] == 2 else 'timeout' if c['exit'] == 124 else ('caught-nofail' if any('no-failing-input-found' in l for l in c['lines']) else 'caught')))) for p, c in v.get('checks', {}).items()]
        runs += [(r['check'], r['result'] + ' (later run)') for r in m.get('later_runs', [])]
        out.append("  %s: %s\n      needs: %s\n      our check: %s" % (sid, (m.get('summary') or '')[:300].replace('\n', ' '), (m.get('needs_to_manifest') or '')[:300].replace('\n', ' '), ', '.join('%s %s' % r for r in runs)))
    return '\n'.join(out)
for pid in sys.argv[1:]:
    a, b = SPEC[pid]
    txt = T.replace('{SEEDSTATUS}', status(pid)).replace('{SPECIFIC_A}', a or 'All seeded changes are caught with a concrete input at the moment: re-run them once to confirm, then spend your time on task B.').replace('{SPECIFIC_B}', b).replace('{PID}', pid).replace('{pid}', pid.lower())
    open('/verif/harness/prompts/round3/%s-r6.txt' % pid, 'w').write(txt)
    print(pid, len(txt))
