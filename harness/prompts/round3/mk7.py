import json, glob, os, sys
T = open('/verif/harness/prompts/round3/COMMON.txt').read()



SPEC = {
"C04": ("""Round-5 seed C04-9 is only caught-nofail (DeleteShape breaks, the oracle finds nothing). `Container._unlink_sole(item, below=())`, called
first in the three `__delitem__`s: if the entity belongs to this container and its HDF5 hard-link count is 1 it is unlinked
from its own container only and the file-wide delete_all is skipped; for sections and sources `below` is the DIRECT children
only (item.sections / item.sources) instead of the whole subtree, so links to members two or more levels down are never
looked for: `da.metadata`, `Section.link`, and `.sources` lists of arrays / tags / groups keep yielding a deleted section /
source (also after reopening) when the deleted root and its direct children have no other link but a DEEPER descendant is
the target of a metadata link / Section.link / sources entry. Class: subtree deletion where ONLY deep descendants (depth >= 2
below the deleted root, none at depth 0-1) are link targets, for sections and sources, by every key form. Add it as fixed
cases (run first) and as a generator stratum; the oracle rule (no list or link yields a deleted entity) is already there.""",
"""- nothing else: time is up after Task A."""),
"C13": ("""Round-5 seed C13-9 is only caught-nofail (FindShape breaks, the oracle finds nothing). `Source.parent_block` no longer walks the handle's
_parent chain; it looks the block up in the file: the first block (in File.blocks order) whose find_sources holds a source
WITH THIS ID. With two blocks whose sources share ids - what `File.create_block(name=..., copy_from=blk)` produces by
default (keep_copy_id=True) - parent_block of a source of the later block reports the earlier block, and parent_source and
all Source.referring_* (which start from parent_block) return the other block's source / links. Class: files with
id-keeping BLOCK copies (two blocks, same source ids, different links afterwards): parent_block / parent_source /
referring_* asked for sources of BOTH blocks through fresh, re-fetched, link-list and reopened handles. Your round-5
predecessor added supplied ids and imported sections; add id-keeping block copies (with diverging links afterwards) as a
history operation or at least as oracle scenes + fixed cases.""",
"""- nothing else: time is up after Task A."""),
}
import subprocess
def status(pid):
    out = []
    for d in sorted(glob.glob('/verif/seeded/%s-*/' % pid)):
        m = json.load(open(d + 'meta.json'))
        sid = os.path.basename(d[:-1])
        v = m.get('verification', {})
        runs = [(p, ('MISSED' if c['exit'] == 0 else ('infra' if c['exit'] == 2 else 'timeout' if c['exit'] == 124 else ('caught-nofail' if any('no-failing-input-found' in l for l in c['lines']) else 'caught')))) for p, c in v.get('checks', {}).items()]
        runs += [(r['check'], r['result'] + ' (later run)') for r in m.get('later_runs', [])]
        out.append("  %s: %s\n      needs: %s\n      our check: %s" % (sid, (m.get('summary') or '')[:300].replace('\n', ' '), (m.get('needs_to_manifest') or '')[:300].replace('\n', ' '), ', '.join('%s %s' % r for r in runs)))
    return '\n'.join(out)
for pid in sys.argv[1:]:
    a, b = SPEC[pid]
    txt = T.replace('{SEEDSTATUS}', status(pid)).replace('{SPECIFIC_A}', a or 'All seeded changes are caught with a concrete input at the moment: re-run them once to confirm, then spend your time on task B.').replace('{SPECIFIC_B}', b).replace('{PID}', pid).replace('{pid}', pid.lower())
    open('/verif/harness/prompts/round3/%s-r7.txt' % pid, 'w').write(txt)
    print(pid, len(txt))
