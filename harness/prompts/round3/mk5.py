import json, glob, os, sys
T = open('/verif/harness/prompts/round3/COMMON.txt').read()

SPEC = {
"C01": ("""Round-3 seeds C01-6 and C01-7 came in after your predecessor finished. C01-6 is only caught-nofail (the compiler tie
breaks, the oracle finds nothing): `create_data_array` translates Python's builtin types given as `dtype` through a new
table that maps `float` to the 32-bit DataType.Float (NumPy / h5py read `dtype=float` as float64, which is what HEAD
creates): values written are silently rounded to single precision, `da.dtype` is float32, also after reopen. Class: the
SPELLING of the dtype / shape / data arguments of create_data_array (and of append / write sources): builtin types
(bool, int, float, str), numpy scalar types (np.float64, np.int16 ...), np.dtype objects, type strings ('f8', '<i4',
'float64', 'int'), nixio.DataType members, dtype taken from the data vs given explicitly, data as nested lists / tuples
/ ranges / memoryviews / non-contiguous or byte-swapped or Fortran-ordered arrays / 0-d arrays. Each accepted spelling
must create exactly the element type NumPy means by it and read back the values written (bit for bit). Put those
spellings into the correspondence generator and the numpy-mirror oracle (the mirror decides the meaning with
np.dtype(spelling)).""", """- Continue with what reports/C01.md lists as partial or outside the model."""),
"C03": ("""Round-3 seeds C03-9 and C03-10 came in after your predecessor finished. C03-9 is MISSED: `Container.__contains__(entity)`
no longer compares the handle's HDF5 object with the member stored under the entity's name but compares
`posixpath.dirname(h5obj.name)` with the container group's path. h5py's `.name` is the path the object was OPENED through,
so for a handle obtained through a link (group.data_arrays[i], tag.references[i], array.sources[i],
multi_tag.positions, block.metadata tested against file.sections, feature.data) `handle in owning_container` is False
while iteration, indexing, c[name], c[id], `name in c`, `id in c` all show the entity. Class: membership / lookup /
deletion BY ENTITY OBJECT with handles of every provenance - returned by create_*, fetched from the owning container by
name / id / position / iteration, fetched through each kind of link list and role link, re-fetched after reopen, kept
across other operations. All views must agree for every provenance (the property says "membership tests describe the same
sequence"). Your oracle scene should obtain, for every entity, a handle through every path that leads to it and ask
`h in c`, `c[...]` by that handle's name/id, and `del c[h]` (deletion by object) through each.""",
"""- Continue with what reports/C03.md lists as partial (acceptance theorems take success as hypothesis; properties have no
  AcceptedAs packaging; createMultiTagAuto not in the proved histories; order_after_delete for subtree deletion)."""),
"C04": ("""Round-3 seeds C04-6 and C04-7 came in after your predecessor finished. C04-7 is only caught-nofail: the argument-resolution
preamble of the four `__delitem__` methods was moved into a new `Container._member()` which looks an entity OBJECT passed
in up again in the receiving container by key (by name for ordinary containers). Membership is thus decided by name
rather than identity: `del container[obj]` where obj is NOT a member of that container but the container holds a
namesake deletes the namesake (with its subtree and links) and the chosen object survives (e.g.
`del f.sections[nested_subject]` for /session/subject when a root `subject` exists; `del day2.data_arrays[day1_lfp]`);
without a namesake it raises KeyError and nothing is deleted. Class: deletion by object with an object that is not a
member (other block, other parent section/source, deleted meanwhile, same name / same id as a member): must be refused
and delete nothing; with a member it deletes exactly that member. Put such calls into the oracle and the
correspondence (the model's contDel by object key already says what must happen). NOTE deletion is by object since
/repo d24d4ca (see reports/C04.md).""", """- Continue with what reports/C04.md lists as not done."""),
"C05": ("""Round-3 seeds C05-6 and C05-7 came in after your predecessors finished. C05-6 is only caught-nofail: the
`RangeDimension.ticks` setter got `if np.array_equal(ticks, self.ticks): return` after validation; `self.ticks` of a
LINKED dimension reads through the link, so assigning exactly the values the link currently yields ("freezing":
`dim.ticks = dim.ticks`) returns before remove_link(): has_link / is_alias stay True, no ticks are stored, and ticks /
unit / label keep following the array - "setting explicit ticks replaces the link" is false. Class: an assignment whose
VALUE equals what the getter currently returns must still have its full effect (ticks on a linked dimension, labels on a
linked set dimension, unit / label equal to the linked object's, link_data_array to the array already linked with the same
/ another index, positions = the current positions ...). C05-7 is MISSED: `LinkContainer._accept` got a fast path - an
item of the list's item class whose `_parent` is the same Block Python object is accepted without the membership lookup:
a STALE handle of an array that was deleted from the block gets hard-linked into the list, and the stray copy of a
referenced array inside a copied tag (`blk.create_tag(copy_from=tag)`, then `tag2.references[0]`) is accepted too - the
list then holds an entity that is not the block's member (same name and id, different content; writes through the block
are not visible through the link). Class: link lists / role links offered handles that no longer (or never) stand for a
member of the block: handle kept across deletion (and re-creation under the same name), entities reachable only inside
a copied tag / multi tag / group, entities of a deleted block. All must be refused and the list left unchanged.""",
"""- Continue with what reports/C05.md lists as partial (ExclusiveInvariant over all histories)."""),
"C12": ("""Round-3 seeds C12-6 and C12-7 came in after your predecessors finished. C12-7 is only caught-nofail: the
`MultiTag.extents` setter was flattened to mirror the positions setter - type check, DROP the previous extents link, then
membership check and create_link: assigning a DataArray of another block is still refused with RuntimeError but the tag
has lost its extents. Class: setters of role links / link-valued attributes (extents, positions, feature.data, metadata,
Section.link, dimension links) called with a refusable value WHILE A PREVIOUS VALUE EXISTS - the previous link must
survive the refusal. The catalogue has `create_multi_tag:extents-foreign` but apparently no refused re-assignment on a
tag that already has extents. Review every role-link setter for that state x every refusal reason (foreign block, wrong
kind, deleted entity, stale handle, None where not allowed).""", """- Continue with what reports/C12.md lists as still without a theorem."""),
"C13": ("""Round-3 seeds C13-6 and C13-7 came in after your predecessor finished. C13-7 is MISSED: look-ups were extended to accept
uuid.UUID objects and any spelling of an id that is_uuid accepts (new util.canonical_id; H5Group.get_by_id compares the
canonicalised key with the stored id; has_by_id / get_by_id_or_name / Container.__contains__ follow suit), while
`create_section(..., oid=...)` stores `str(oid)` verbatim: for a section created with an UPPER-CASE (or braced / urn:)
id the child test inside Section.parent (`self.id in sect.sections`) canonicalises the key and finds no match against
the verbatim stored id, so `Section.parent` returns None for a nested section reached through a handle without cached
parent (after reopen, re-fetched, from find_sections, through a metadata link). Class: entities whose ids were SUPPLIED by
the caller (create_section(oid=...), create_property(oid=...), copies that keep ids) in every spelling uuid.UUID accepts
(upper case, braces, urn:uuid:, no hyphens) - parent / parent_source / parent_block / referring_* / find must be right for
them too. Your generators only use library-generated ids.""", """- Continue with what reports/C13.md lists as partial."""),
}
import subprocess
def status(pid):
    out = []
    for d in sorted(glob.glob('/verif/seeded/%s-*/' % pid)):
        m = json.load(open(d + 'meta.json'))
        sid = os.path.basename(d[:-1])
        v = m.get('verification', {})
        runs = [(p, ('MISSED' if c['exit'] == 0 else ('infra' if c['exit'] == 2 else 'timeout' if c['exit'] == 124 else ('caught-nofail' if any('no-failing-input-found' in l for l in c['lines']) else 'caught')))) for p, c in v.get('checks', {}).items()]
        runs += [(r['check'], r['result'] + ' (later run)') for r in m.get('later_runs', [])]
        out.append("  %s: %s\n      needs: %s\n      our check: %s" % (sid, (m.get('summary') or '')[:300].replace('\n', ' '), (m.get('needs_to_manifest') or '')[:300].replace('\n', ' '), ', '.join('%s %s' % r for r in runs)))
    return '\n'.join(out)
for pid in sys.argv[1:]:
    a, b = SPEC[pid]
    txt = T.replace('{SEEDSTATUS}', status(pid)).replace('{SPECIFIC_A}', a or 'All seeded changes are caught with a concrete input at the moment: re-run them once to confirm, then spend your time on task B.').replace('{SPECIFIC_B}', b).replace('{PID}', pid).replace('{pid}', pid.lower())
    open('/verif/harness/prompts/round3/%s-r5.txt' % pid, 'w').write(txt)
    print(pid, len(txt))
