import json, glob, os, sys
T = open('/verif/harness/prompts/round3/COMMON.txt').read()


SPEC = {
"C18": ("""Round-3 seeds C18-6 and C18-7 came in after your predecessor finished. C18-7 is only caught-nofail: `update_props` passes the old
unit through `nix.util.units.sanitizer` before writing it to the new dataset, so an old Property whose stored unit contains a
blank, the micro sign, Greek mu or the letters "mu" (`µV`, `μm`, `spikes / s`, `deg C`, `mumol/l`) reads differently after
the upgrade - "unit ... reads as before" is violated. Class: text fields that the upgrade copies (unit, definition, name,
type, value_origin, reference / filename / encoder / checksum extras, labels, dimension unit / label) with contents that
nixio's SETTERS would normalise or refuse (blanks, micro signs, non-ASCII, empty string vs missing, leading / trailing
white space, very long text): the upgrade must preserve them verbatim. Put such texts into the crafted old files and compare
exactly.""", """- Continue with what reports/C18.md lists as partial."""),
"C19": ("""Round-3 seeds C19-6 and C19-7 came in after your predecessors finished. C19-6 is only caught-nofail: `DataFrame.append_column`
writes the extended `units` attribute directly and then calls `self.force_updated_at()` WITHOUT the
`if self.file.auto_update_timestamps` guard: with the switch off, append_column on a frame that has units moves the frame's
updated_at. Class: with automatic timestamps DISABLED no operation other than an explicit force call changes any
timestamp - for EVERY public mutating method of EVERY kind (not only the listed attribute setters): data writes, appends,
DataFrame row / column / cell writes and append_column with and without units, dimension appends and setters, link list
operations, deletes, copies, create_* (the new entity's own stamps excepted), property values. Your switch-off histories
must run the whole mutator catalogue (the C11 check discovers mutators by introspection - reuse the idea) in states where
each branch of the mutator is taken (frame with / without units, array with / without dimensions ...) and compare all
stamps of all pre-existing entities before / after.""", """- Continue with what reports/C19.md lists as partial."""),
}
import subprocess
def status(pid):
    out = []
    for d in sorted(glob.glob('/verif/seeded/%s-*/' % pid)):
        m = json.load(open(d + 'meta.json'))
        sid = os.path.basename(d[:-1])
        v = m.get('verification', {})
        runs = [(p, ('MISSED' if c['exit'] == 0 else ('infra' if c['exit'] == 2 else 'timeout' if c['exit'] == 124 else ('caught-nofail' if any('no-failing-input-found' in l for l in c['lines']) else 'caught')))) for p, c in v.get('checks', {}).items()]
        runs += [(r['check'], r['result'] + ' (later run)') for r in m.get('later_runs', [])]
        out.append("  %s: %s\n      needs: %s\n      our check: %s" % (sid, (m.get('summary') or '')[:300].replace('\n', ' '), (m.get('needs_to_manifest') or '')[:300].replace('\n', ' '), ', '.join('%s %s' % r for r in runs)))
    return '\n'.join(out)
for pid in sys.argv[1:]:
    a, b = SPEC[pid]
    txt = T.replace('{SEEDSTATUS}', status(pid)).replace('{SPECIFIC_A}', a or 'All seeded changes are caught with a concrete input at the moment: re-run them once to confirm, then spend your time on task B.').replace('{SPECIFIC_B}', b).replace('{PID}', pid).replace('{pid}', pid.lower())
    open('/verif/harness/prompts/round3/%s-r5.txt' % pid, 'w').write(txt)
    print(pid, len(txt))
