import json, glob, os, sys
T = open('/verif/harness/prompts/round3/COMMON.txt').read()
SPEC = {
"C03": ("""For C03-6 note the class: name uniqueness is PER ENTITY KIND within one parent - the same name may exist as a data
array and as a data frame (or tag / multi tag / group / source) of one block, and arrays auto-created by create_multi_tag
(`<name>-positions`, `<name>-extents`) are ordinary arrays. Your generators must create entities of every kind (data frames
included) under names that collide with entities of OTHER kinds and with the SAME kind, and check both directions
(other-kind collision accepted, same-kind collision refused with DuplicateName and the first entity untouched: same id).""",
"""- `LegalNameAcceptedEverywhere` is packaged as a theorem only for create_block: prove it for every create function
  (sections at any depth, groups, arrays, frames, tags, multi tags, sources at any depth, properties).
- `IdStable` is only partial (frame lemmas missing): prove the full statement for every operation of Store/Step.
- Put data frames into the structural histories if they are not there, and the cross-kind name situations above.
- The name/id dispatch (`is_uuid`) model: pin it against CPython's uuid.UUID acceptance over a generated family of
  spellings (braces, urn:, hyphen positions, upper case, underscores, 0x, whitespace) in the correspondence."""),
"C05": ("""C05-2 (a re-link shortcut in Dimension.link_data_array that keeps the old HDF5 link when the new array carries the
same id, i.e. an id-keeping copy made with create_data_array(copy_from=...)) is noticed by the correspondence but the
oracle finds no failing input: the oracle scene never re-links a dimension to a same-id copy of the array it is linked
to. Class: two distinct objects with the same entity_id (id-keeping copies, same or other block) wherever the code
decides by id instead of by object - link lists, role links, dimension links, features. Put such pairs into the oracle
scene (the _copy_scenario there is a start) and into every action that assigns or appends a link, and check through the
link that the target is the object that was handed in (content differs between original and copy after a mutation).""",
"""- `ExclusiveInvariant` (ticks and link are mutually exclusive for all descriptors) is kept as a statement: lift it to
  arbitrary histories (it is preserved by each modelled operation already; create/append_*_dimension are missing).
- Model link_data_frame (a range/set dimension linked to a column of a data frame) next to link_data_array and state the
  linked_* theorems for it; the oracle should exercise it.
- The alias theorems quantify over paths of the graph model: add the role links of features and the `sources` lists of
  arrays / tags / multi tags if any is missing, and the metadata link of every kind that has one."""),
"C07": ("""C07-2: a per-object cache of (sampling_interval, offset) in SampledDimension used by index_of / position_at /
range_indices; da.dimensions[i] builds a new descriptor object per access, so the cache goes stale when the interval or
offset is changed through another descriptor object (or through the same one, depending on the implementation). Class:
any state kept on the descriptor object between calls. Your correspondence and oracle create one descriptor, configure
it once and query it; they must also (a) reconfigure dimensions between queries (offset, sampling_interval, ticks,
labels, unit) and (b) do so through a descriptor object other than the one that is queried afterwards, keeping the
queried one alive across the change; then compare with the order-theoretic oracle for the NEW configuration.""",
"""- Model range / set dimensions linked to a data frame column or array vector if index_of goes through them (ticks come
  from the link) and state range_index for linked ticks.
- `si <= 0` is outside the theorems: state exactly what the code does there (error? nonsense?) and cover it in the
  correspondence so a change there is noticed; if the code returns nonsense for a configuration the validator
  rejects, say so in the report rather than proving anything about it.
- A translator for the *decision shape* of index_of of the three kinds (which comparison / rounding call per IndexMode,
  the order of the guards) into Generated/, with the model's branch table proved equal to it, would turn a flipped
  comparison into a broken theorem instead of a correspondence miss; harness/extract/dims.py already reads tolerances.
- range_indices for RangeDimension with repeated ticks, empty ticks, single tick: full-strength theorems exist? extend."""),
"C10": ("""C10-3: a per-object cache of the values tuple in Property (cleared only by writes through the same object); the
library hands out a new Property object on every lookup, so a kept handle that has read once does not see writes made
through another handle, and extend_values through the stale handle computes its offset from the cached length and
corrupts the stored list. Class: state kept on the Property / Section object between calls. Your histories must keep
Property (and Section) objects alive across writes made through other objects of the same property (sec[key] = ...,
sec.props[name].values = ..., extend_values, delete_values) and then read AND extend through the kept one, comparing
with the model (the model has one value list per property, whatever handle is used).""",
"""- The three open known findings (uint64 scalar wrap, NUL text after resize, trailing NUL) - check whether any is a small
  safe repair now (README defect protocol); if repaired, move the model to the repaired code and prove the full theorem.
- Section dictionary view: `__iter__`, `keys`, `items`, `values`, `get`, `__contains__` for subsections vs properties with
  equal names - are all of them in the model and in a theorem? `Section.__setitem__` on an existing subsection name?
- Property `values` of every DataType incl. float32/int8 numpy inputs, nested lists, tuples, numpy 0-d arrays."""),
"C11": ("""C11-3: File.__init__ replaced the existence test by "try to open, create (truncating) on OSError": an EXISTING file
that HDF5 cannot open (truncated copy of a NIX file, a plain non-HDF5 file, an empty file) is silently replaced by an
empty NIX file in the default ReadWrite mode - the property says the default mode "keeps all existing content and
creates the file only if it is missing". The model/translator notices the change but the oracle never opens an existing
unreadable file. Class: what each mode does to an existing path in every condition it can be in (valid NIX, other
HDF5, not HDF5 at all, truncated, empty, a directory, read-only permissions): the bytes of an existing file may only
change in Overwrite mode (and through mutators in ReadWrite on a valid file). Add those path conditions to the oracle
(sha256 before/after, error vs success) and to the model's `Disk` if they fit.""",
"""- Discover mutators by introspection so that a new mutator is covered: is that in place for EVERY entity kind incl.
  dimensions, features, properties, data frames, link containers (append/extend/del), File-level (create_*, del, copy_section,
  force_*_at, flush)? A mutator that silently does nothing in a read-only session violates "every mutating call fails".
- The open-mode decision is proved for all version triples; tie `map_file_mode` and the h5py flags by translator if not yet.
- Reads in a read-only session equal reads in a writable session: which reads are compared? include tagged data, dimension
  conversions, data frame reads, find_*, validate()."""),
"C12": ("""C12-3: H5Group.write_data skips the float conversion for inputs that are already np.ndarray and resizes the dataset
first; an ndarray of an unsupported dtype (strings, objects) whose length differs from the stored vector is refused AFTER
the resize, so Tag.position / Tag.extent / DataArray.polynom_coefficients are truncated or zero-padded by a refused
assignment. Class: for every refusable call, every *spelling* of the offending argument (list, tuple, numpy array of every
dtype kind incl. 'U', 'S', 'O', bool, complex, 0-d, wrong rank, scalar, None, generator), in states where the target
already holds a value of a DIFFERENT length/shape than the offending one (so a premature resize is visible). Review your
fault-class table against that product and widen it.""",
"""- The writer model (Store/ApiW) covers create_*, feature roll-back, dimension appends, LinkContainer.extend: which public
  mutators are still outside (DataFrame writes, Property setters, Section item assignment, copy functions, File-level
  deletes, dimension setters ticks/labels/unit/label/offset/interval, data writes, data_extent)? Add them with their
  refused_unchanged theorems or name precisely, in the report and level_note, what is outside.
- A translator for the ORDER of validation vs first write per public mutator (is there any HDF5 write / create_link /
  resize statement before the last `raise`/validation call on a path?) would turn "a new write placed before a validation"
  into a broken obligation; even a conservative per-function fingerprint table proved equal to the modelled order helps."""),
"C14": ("""C14-1: tag_units_match_refs_units rewritten so that only the LAST reference decides - needs a tag / multi tag with two or
more references of which a non-last one has an unconvertible unit. C14-2: units.split lost its end anchor, so mol/m, Wb/W,
Sv/S (any prefixes) count as scalable and "unconvertible units" is no longer reported for them. Classes: (1) every
per-reference / per-dimension / per-object rule must be exercised with SEVERAL references, dimensions, objects of which
any subset (first, middle, last, several) carries the inconsistency; (2) unit rules must be exercised with unit pairs
drawn from the complete SI tables (harness/extract/units.py has them), in particular the prefix/base-unit homographs
(m vs mol, W vs Wb, S vs Sv, h, min, d, dB, Pa, cd, kat ...), equal and different prefixes, powers. The Lean validator
model should use the Units model (Pure/Units.lean: `scalable`, `isAtomic`, `isCompound`) rather than an abstract predicate,
so that the theorems speak about real unit strings.""",
"""- Two open known findings (missing id raises ValueError; missing positions link raises RuntimeError instead of being
  reported): check whether either is a small safe repair (README protocol) - e.g. the validator catching the
  construction error and reporting `no ID set` / `positions are not set`; if repaired, prove the full _complete theorems.
- Sections and properties in the validator (check_section / check_property: missing type/name, unit of a property
  without values ...) and file-level checks - are all catalogue entries with their complete_ theorem? Warnings are outside
  the property but the model could still cover them for the tie.
- `C14_sound`: WellFormed should be exactly the property text's conjunction; check it does not assume more."""),
"C16": ("""C16-3: a per-handle schema cache in DataFrame (column names / compound dtype cached on the Python object, cleared only
by that object's own append_column): a second live handle that read the schema before another handle appended a column
keeps reporting the old columns (column_names, dtype, columns, df_shape) and refuses writes to the new column. Class:
state kept on the DataFrame object between calls. Your histories must keep DataFrame objects alive across structural
changes made through another object of the same frame (block.data_frames[name] builds a new object each time) and then
read / write through the kept one; the model has one table per frame whatever handle is used.""",
"""- Only 4 property theorems for a property with many clauses: state separately, for every history, (a) each write op
  (append_rows, append_column, write_rows, write_column by index and by name, write_cell by position and by name+row)
  reads back through each read op (read_rows, read_columns by index / name, read_cell, iteration, `[...]`), (b) frame
  lemmas per op, (c) `units` / `columns` / `column_names` / `dtype` / `df_shape` / `row_count` consistency, (d) refused
  writes per refusal class (wrong length, unknown column, out-of-range row, duplicate column name, wrong cell type),
  (e) the stated exception "write_column stopped by a cell the column type refuses" - is that a genuine defect with a small
  repair (convert all cells first)? Follow the README defect protocol.
- Creation variants: all four (col_dict, col_names+col_dtypes, data as list of tuples / structured array / dict) with
  their derived schema as theorems; `create_data_frame(copy_from=...)`.
- Negative row indices, duplicate indices in write_rows, non-increasing index lists: what does the code do, what does the
  model say, is it in a theorem?"""),
"C18": ("""C18-2: the per-value uncertainties of an old property are collapsed into one attribute when they are merely CLOSE
(np.allclose) instead of identical, so distinct per-value extras are lost. Class: value-dependent decisions in the
conversion - your generated old-format files must contain per-value extras (uncertainty, reference, filename, encoder,
checksum) that are identical, distinct-but-close (relative 1e-6 .. 1e-9, absolute 1e-9), clearly distinct, zero, NaN,
empty text, for every value type and for 1, 2 and many values, and the content oracle must compare every extra of every
value exactly (after the upgrade each extra is retrievable: from the `uncertainty` attribute or the `<name>.<extra>`
property).""",
"""- The open known finding C18-extra-name-collision (a property `a.<extra>` already exists): small safe repair possible?
  (README protocol.) `C18_content` is partial under `Clean f`; with a repair it becomes full.
- Interruption model: between tasks and between individual conversions; is an interruption INSIDE one conversion (after the
  new dataset was written, before the old one was removed) recoverable? Model it, prove or exhibit the counterexample.
- Content preservation for arrays/blocks/dimensions/sections beyond properties: which parts of the old file are in the
  abstract state? Widen (alias range dimensions with unit/label/ticks, nested sections, property definition/unit/type)."""),
"C19": ("""C19-1 (per-handle cache of created_at / updated_at on Entity, refreshed only by that object's own force_* calls) and
C19-2 (MultiTag.extents = None returns before the auto-update tail, so removing the extents does not touch updated_at)
are noticed (theorem / translator / correspondence) but the oracle finds no concrete failing input. Classes: (1) the
oracle must keep entity objects alive, read their timestamps, then change / force the timestamp through ANOTHER object of
the same entity (container lookups build new objects) and read through the kept one; (2) for every setter of the
property's list the oracle must exercise every *kind of value* the setter accepts - in particular None / clearing
(extents = None, unit = None, definition = None, metadata removal, empty lists) - with the clock advanced, and require
updated_at == clock for that entity and unchanged for all others.""",
"""- The setter table is generated (Generated/Setters.lean): it records whether the force_updated_at idiom occurs in the
  body; C19-2 shows that it can occur yet be skipped by an early return on some path. Make the translator path-sensitive
  (every path through the setter that changes the file ends in the idiom; an early `return` / `raise` before it is
  recorded per path) and state the theorem over that.
- C19_roundtrip covers 1970-2100; force with non-integer / negative / huge values: what does the code do?
- Timestamps of File itself (force_created_at / force_updated_at on File, `created_at` of the header) and of dimensions /
  features / properties: all in the model?"""),
"C01": ("", """- Translate the *shape* of DataSet.append (rank check, per-axis shape check, offset, enlarge, resize, hyperslab write; the
  restore-on-failure of fix a578a3d) and of create_data_array's dtype/shape rules into Generated/ and prove the model's
  step function equal to it, so a reordering or a dropped check breaks `lake build`.
- DataArray._read_data's rank-0 rule (a single element comes back as shape (1,)), 0-d selections, Ellipsis, boolean and
  numpy-integer indices, negative indices on writes: which are in the model, which only in the correspondence?
- Conversion between element kinds on write (int data into a float array, float into int, bool into int, numbers into a
  text array) - what does the code/h5py do; model the accepted ones, refuse the refused ones, prove typedness.
- data_extent shrink then grow: fill values (theorem exists?); append after shrink; `len`, `size`, `shape`, `dtype`
  consistency theorem for every history."""),
"C04": ("", """- `frame_full` is kept as a def with a counterexample (same-id copies, open finding): prove frame_full under the explicit
  hypothesis `NoSharedIds` and show that hypothesis is an invariant of histories without id-keeping copies.
- subtree_complete carries fuel / forest hypotheses: discharge them for reachable graphs (WF gives acyclicity).
- Data frames, dimension links to a deleted array / frame, features of deleted tags, properties of deleted sections:
  all in `history_delete_exact`? Section.link, MultiTag.extents cleared?
- Translator for `delete_all` / Container.__delitem__ / SourceContainer / SectionContainer subtree-id collection shape."""),
"C06": ("", """- `get_slice` in DATA mode (positions in dimension units -> indices through the dimension descriptors, C07's functions):
  compose C07's range_indices with the window theorem.
- Writing through a view with broadcasting sources, scalar sources, wrong shapes (refused, nothing changes).
- Rank-0 arrays, the (1,)-rule on views, empty windows, zero-extent axes, step > extent, bool/np.integer indices.
- A translator for the shape of DataView.__init__ validity rule and _transform_coordinates (order of tests) into Generated/
  with the model's rule proved equal to it."""),
"C08": ("", """- Checks took ~700 s against broken trees: make sure the failing-input search is bounded (<= 2 min quick) and reports the
  first concrete failure early.
- `C08_axis_full` has a counterexample inherited from C07's tolerance band: state precisely the hypothesis under which the
  full statement holds and prove it is satisfied off the band.
- Multi-dimensional position arrays with fewer columns than the rank, extents None vs zeros, units None / empty / shorter
  than positions; feature data of rank > 1 for `indexed`; `tagged` features with different dimensionality than the reference.
- Tag.tagged_data / MultiTag.tagged_data by reference name vs index vs object; references order."""),
"C09": ("", """- A power-generic split theorem: for EVERY digit string (not only -3..3) `split (p ++ u ++ '^' :: sign ++ digits)` gives
  exactly that triple, by induction over the digit list (the regex shape \\^[+-]?[1-9]\\d* is generated).
- `split_compound` / `is_compound` for arbitrary-length `*`/`/` sequences: split_compound returns the atoms in order with
  inverted powers after `/` (invert_power theorem); round trip join/split.
- scalable is an equivalence on table atoms (reflexive, symmetric, transitive); scaling a->a = 1.
- Negative and zero powers, `^+2`; what does scaling do with power text "-1" (factor^-1)? Prove for all integer powers.
- is_si on whitespace / micro-sign spellings through sanitizer: `is_si (sanitizer s)` statements."""),
"C13": ("", """- find with filters (name / type filters as the code builds them), limit semantics from every root kind, results `each once`
  also when the same section is linked (Section.link) or sources are shared.
- parent / parent_block / referring_* through handles obtained via links (metadata, sources lists) and after moves
  (a section copied / a source subtree deleted and recreated under the same names).
- Source.referring_* for every kind (data arrays, tags, multi tags, groups), Section.referring_* for every kind incl.
  data frames and sources at depth; `referring_objects` = union; theorems quantify over all of them?
- A translator for the shape of find.py's loop (push-before-filter, level counter, `<=` comparison) into Generated/."""),
"C15": ("", """- C15_float_bound exists: can the bound be tightened / extended to degree n with explicit constant?
- Calibrated reads through every path: DataArray[...], get_slice (index and data mode), DataView, Tag.tagged_data,
  MultiTag.tagged_data, feature_data (tagged / indexed / untagged), DimensionLink.values (a range dimension linked to a
  calibrated array reports calibrated ticks?) - state which and prove commutation for each composition.
- Element type of the result for every stored dtype (float32 -> float64!), empty selections, 0-d, origin only, coefficients
  only, all-zero coefficients (constant polynomial 0), integer coefficients, NaN/inf raw values.
- Setting the calibration to invalid values (strings, nested lists) is refused and changes nothing (C12 overlap - state it)."""),
"C17": ("", """- The flush/close *shape* is generated (Generated/FlushShape.lean). Extend the protocol model: several flush points in one
  history, writes after a flush then kill (the state is the one at the LAST flush or later - never earlier, never corrupt?
  the property only promises the flushed state if no further write happened; say exactly what is checked), `with` blocks,
  exceptions inside `with`, close() twice, flush() after close() (refused).
- Kill points: after flush() returned but with unflushed later writes of each kind (create, delete, append, attribute).
- Files opened ReadWrite on existing content, Overwrite on existing content, several generations (chains) with deletions
  only between flushes (seed C17-5 class), big arrays crossing chunk boundaries, compressed data, data frames, metadata.
- make_fapl / libver / driver options are part of the tie (seed C17-4 class): extracted?"""),
"C20": ("", """- `independent_delete_full` is false because deletion is global by entity_id (open finding shared with C04): is there a small
  safe repair now (delete_all restricted to the links that lead to the deleted OBJECT rather than to any object with that
  id)? That would close C04's and C20's open findings at once - try it in a scratch worktree with the baseline suite and
  both checks; if it holds, make it a `fix:` commit (README protocol) and prove the full theorems.
- Copies of data frames, multi tags with features, tags with references to arrays that are / are not part of the copied
  subtree (links leaving the subtree: what does h5py's object copy do? model says? theorem?).
- Cross-file copies with metadata links; copy_section with children=False; property copies with new names.
- ids_fresh for properties (datasets) below sections (seed C20-1 class) is in a theorem?"""),
}
import subprocess
def status(pid):
    out = []
    for d in sorted(glob.glob('/verif/seeded/%s-*/' % pid)):
        m = json.load(open(d + 'meta.json'))
        sid = os.path.basename(d[:-1])
        v = m.get('verification', {})
        runs = [(p, ('MISSED' if c['exit'] == 0 else ('infra' if c['exit'] == 2 else 'timeout' if c['exit'] == 124 else ('caught-nofail' if any('no-failing-input-found' in l for l in c['lines']) else 'caught')))) for p, c in v.get('checks', {}).items()]
        runs += [(r['check'], r['result'] + ' (later run)') for r in m.get('later_runs', [])]
        out.append("  %s: %s\n      needs: %s\n      our check: %s" % (sid, (m.get('summary') or '')[:300].replace('\n', ' '), (m.get('needs_to_manifest') or '')[:300].replace('\n', ' '), ', '.join('%s %s' % r for r in runs)))
    return '\n'.join(out)
for pid in sys.argv[1:]:
    a, b = SPEC[pid]
    txt = T.replace('{SEEDSTATUS}', status(pid)).replace('{SPECIFIC_A}', a or 'All seeded changes are caught with a concrete input at the moment: re-run them once to confirm, then spend your time on task B.').replace('{SPECIFIC_B}', b).replace('{PID}', pid).replace('{pid}', pid.lower())
    open('/verif/harness/prompts/round3/%s.txt' % pid, 'w').write(txt)
    print(pid, len(txt))
