import sys
T=open('/verif/harness/AGENT_PROMPT.txt').read()
SPEC={
"C06":("""  lean/NixModel/Py/Slice.lean            (CPython slice.indices / range model)
  lean/NixModel/Pure/NdIndex.lean        (NumPy basic indexing on a shape)
  lean/NixModel/Pure/DataView.lean       (data_view.py: validity, expand, transform; DataArray.__getitem__/get_slice glue)
  lean/NixModel/Lemmas/C06*.lean         lean/NixModel/Props/C06.lean      lean/Driver/C06.lean
  harness/props/c06.py                   corpus/C06/*.json""",
"""SPECIFICS FOR C06
 - Anchors: nixio/data_view.py, nixio/data_set.py (__getitem__/__setitem__/_read_data/_write_data), nixio/data_array.py
   (get_slice, _read_data rank-0 rule), nixio/hdf5/h5dataset.py (read_data/write_data exception mapping).
 - Defect D14 (DESIGN section 6): get_slice with a negative start yields a *valid* view of other elements, start=-1,extent=2
   gives a negative shape, and surplus indices on a view are silently ignored. The property says such requests must be
   refused / invalid-and-empty and never yield other elements. These look like small safe repairs (negative window start
   => invalid view; more indices than the view's rank => IndexError) — apply the defect protocol.
 - The engineer on C08 (tagged data) will import Py/Slice.lean and Pure/DataView.lean (`mkView` validity + window), so
   keep those definitions self-contained and stable; C01 owns n-d array *content*; you only need index sets / selections.
 - The core theorem is C06_transform (per-axis from slice.indices lemmas, lifted over the tuple by induction) and
   C06_write_exact / C06_window; the oracle is NumPy on an in-memory copy; thorough tier enumerates all windows and
   index tuples for rank <= 2, extents <= 4 as DESIGN says.
"""),
"C07":("""  lean/NixModel/Pure/Dim.lean            (dimensions.py: index_of / range_indices / position_at / tick_at / axis for the 3 kinds)
  lean/NixModel/Generated/Tolerances.lean + harness/extract/dims.py   (np.isclose tolerances and IndexMode/SliceMode tables read from the source)
  lean/NixModel/Lemmas/C07*.lean         lean/NixModel/Props/C07.lean      lean/Driver/C07.lean
  harness/props/c07.py                   corpus/C07/*.json""",
"""SPECIFICS FOR C07
 - Anchor: nixio/dimensions.py (SampledDimension, RangeDimension, SetDimension: index_of, range_indices, position_at,
   tick_at, axis; IndexMode, SliceMode). Model over core `Rat` (DESIGN section 5); np.round is round-half-even.
 - Defects D4/D5 (DESIGN section 6). D5: `np.isclose(position, 0)` tests the raw instead of the scaled position (offset -5:
   index_of(0.0, Less) raises although samples precede it; and offset -5, position -5.0, Less returns -1 instead of
   IndexError) — a one-line repair. D4: the default isclose rtol=1e-5 makes the 'exact hit' band wider than a sample from
   index 5*10^4 on (index_of(100000.4, GEQ) == 100000). A maintainer-acceptable repair is explicit, much tighter
   tolerances in those isclose calls (the band must stay above float noise and below half a sample over any realistic
   index range) if the baseline dimension/tag/multi_tag tests stay green; the translator must read the tolerances
   actually passed (numpy defaults when absent) so theorems are stated with the generated values
   (`Separated` hypothesis + a `band_width` theorem saying up to which index the band is below half a sample).
 - RangeDimension.index_of / range_indices have no tolerance: prove them at full strength for every ascending tick list
   (repeats allowed), every position and mode, by induction over the tick list (the code uses np.where / searchsorted-
   like scans — model what it does).
 - Correspondence per DESIGN section 5: a dyadic/exact stream that must agree exactly and an arbitrary-double stream
   classified separated/marginal (marginal cases counted, never silently dropped).
 - The engineer on C08 will import Pure/Dim.lean; keep `sampledIndexOf`, `rangeIndexOf`, `setIndexOf` and the three
   `rangeIndices` cleanly exported.
"""),
"C11":("""  lean/NixModel/Pure/Version.lean        (file.py: can_write / can_read / header checks / open-mode decision; read-only session model)
  lean/NixModel/Generated/FormatConst.lean + harness/extract/fileconst.py   (FILE_FORMAT, HDF_FF_VERSION, mode letters, id threshold from file.py)
  lean/NixModel/Lemmas/C11*.lean         lean/NixModel/Props/C11.lean      lean/Driver/C11.lean
  harness/props/c11.py                   corpus/C11/*.json""",
"""SPECIFICS FOR C11
 - Anchor: nixio/file.py (can_write, can_read, File.__init__/_create_header/_check_header, FileMode, map_file_mode).
 - C11_decision must hold for ALL version triples (x,y,z : Nat), all format tags, id states and modes (case analysis +
   omega), with the library version read from Generated/FormatConst.lean so an edited constant re-checks the theorem.
 - The read-only half: a small session model (writable flag guarding every mutator; reads unaffected) with
   C11_readonly_frame, C11_overwrite_fresh, C11_readwrite_preserves; the correspondence is the substance there: files
   crafted with h5py over a version grid x 3 modes x {valid, invalid, missing id} x {nix, other tag}; and for read-only:
   every public mutating call of every entity kind on generated files must raise, sha256 of the file bytes before/after
   the session identical, reads equal to those of a writable session. Discover the mutators by introspection of the
   nixio classes (setters, create_*/append/extend/del/…) so a newly added mutator is covered too.
"""),
"C19":("""  lean/NixModel/Py/Civil.lean            (days <-> civil date, proleptic Gregorian)
  lean/NixModel/Pure/Time.lean           (util/util.py time_to_str / str_to_time)
  lean/NixModel/Pure/Stamps.lean         (timestamp state machine over entities: created_at / updated_at, auto-update switch, clock)
  lean/NixModel/Generated/Setters.lean + harness/extract/setters.py   (for every setter/mutator of every entity class: does its body contain the auto-update idiom, on which object)
  lean/NixModel/Lemmas/C19*.lean         lean/NixModel/Props/C19.lean      lean/Driver/C19.lean
  harness/props/c19.py                   corpus/C19/*.json""",
"""SPECIFICS FOR C19
 - Anchors: nixio/entity.py (created_at/updated_at/force_*), nixio/util/util.py (now_int, time_to_str, str_to_time),
   nixio/file.py (auto_update_timestamps), every entity module's setters.
 - Do not wait for the big structural file model: build a dedicated timestamp machine. State: list of entities
   (kind, created_at, updated_at) + auto flag + clock; ops: create, set <attr> on <entity>, force_created, force_updated,
   toggle auto, advance clock, reopen. Which setter touches whose updated_at comes from Generated/Setters.lean (the
   translator finds the `if self.file.auto_update_timestamps: self.force_updated_at()` idiom by AST in every property
   setter / mutator of every entity class), so a setter that loses the idiom breaks C19_auto_on_local at `lake build`.
 - C19_roundtrip for every whole second 0 <= t < 4102444800 (1970..2100): arithmetic by omega, the date part by
   `decide +kernel` over all 47 482 days (probe: 1 min 50 s, no axioms) lifted by t = 86400*d + s.
 - Defect D20: Property setters (definition, unit, values, extend_values, uncertainty, reference, ...) never touch
   updated_at while the inherited type setter does. The property's list of attributes includes unit/definition/reference;
   adding the idiom to the Property setters is a candidate repair if the baseline test_property / test_section tests stay
   green — apply the defect protocol.
 - Correspondence: controlled clock by monkey-patching nixio.util.util.now_int / nixio.util.now_int (check where it is
   imported), every setter of every kind, both switch settings and toggling, timestamps of ALL objects compared after
   each call, force round-trip incl. after reopen; thorough tier compares time_to_str/str_to_time with the model on every
   day 1970-2100 at sampled seconds.
"""),
"C13":("""  lean/NixModel/Pure/Tree.lean           (ownership forest of sections/sources with names + metadata/source links; find BFS; parent; referring lists)
  lean/NixModel/Lemmas/C13*.lean         lean/NixModel/Props/C13.lean      lean/Driver/C13.lean
  harness/props/c13.py                   corpus/C13/*.json""",
"""SPECIFICS FOR C13
 - Anchors: nixio/util/find.py, nixio/section.py (parent, find_sections, referring_*), nixio/source.py (parent_block,
   parent_source, _find_parent_recursive, find_sources, referring_*), nixio/block.py / nixio/file.py (find_sources /
   find_sections), nixio/container.py (__contains__ by name!).
 - Do not wait for the big structural file model: build a standalone forest model (nodes with key, name, type, children in
   creation order; metadata links and source links from blocks/groups/arrays/tags/multi-tags/sources). Histories are
   create / link / unlink / delete operations; theorems for every reachable state (or every well-formed forest).
 - Defect D8 (DESIGN section 6): parent lookups use name-based containment (wrong parent when names repeat and the handle
   is re-fetched), Section.referring_sources ignores nested sources, find_* from File/Block with limit=0 still returns
   the top level. Candidate repairs: containment by id, scanning the whole source tree, honouring the limit for the first
   level — apply the defect protocol (run test_section, test_source, test_block, test_file, test_container baseline tests).
   NB Container.__contains__ itself belongs to the engineer on C05 — do not change it; repair the parent/referring code.
 - C13_find_bfs: result = BFS enumeration of the ownership tree restricted to depth <= limit and the filter, each node
   once (well-founded because children are newer than parents / tree structure), unlimited => whole subtree.
"""),
"C15":("""  lean/NixModel/Pure/Poly.lean           (data_array.py _read_data calibration path; util.apply_polynomial)
  lean/NixModel/Lemmas/C15*.lean         lean/NixModel/Props/C15.lean      lean/Driver/C15.lean
  harness/props/c15.py                   corpus/C15/*.json""",
"""SPECIFICS FOR C15
 - Anchors: nixio/data_array.py (_read_data, polynom_coefficients, expansion_origin), nixio/util/util.py
   (apply_polynomial), nixio/data_view.py (_read_data through the array), tag/multi_tag tagged_data read paths.
 - Theorems over Rat: C15_formula (Horner = sum c_k (x-o)^k — Mathlib's Finset/List sum or your own list sum with
   induction), C15_commutes (calibrating a selection = selecting from the calibrated array, for every selection function:
   map/gather commute), C15_raw_untouched (no sequence of set/clear of the two attributes changes raw; model the
   attribute setters incl. their validation and None handling), C15_no_calibration_identity.
 - Correspondence: all numeric dtypes, coefficient lists 0-5 incl. zeros, origins None/0/non-zero, whole / sliced /
   single element / view / tag reads, set/clear sequences, raw dataset read with h5py; exact comparison on small-integer
   and dyadic inputs where float Horner is exact, stated bound otherwise (DESIGN section 5).
"""),
"C10":("""  lean/NixModel/Pure/PropVals.lean       (property.py value lists + datatype.py get_dtype chain + section.py dict-style access)
  lean/NixModel/Lemmas/C10*.lean         lean/NixModel/Props/C10.lean      lean/Driver/C10.lean
  harness/props/c10.py                   corpus/C10/*.json""",
"""SPECIFICS FOR C10
 - Anchors: nixio/property.py, nixio/section.py (create_property, __getitem__/__setitem__/__delitem__/__contains__/
   __len__/items/props), nixio/datatype.py, nixio/hdf5/h5dataset.py.
 - Values are Python-level values tagged with their runtime class (bool, int, float, str, np.bool_, np.int64, np.float64,
   bytes ...) and the isinstance chain of DataType.get_dtype is modelled exactly (bool is an int in Python!).
   Theorems for every history of create / assign / extend / clear / dict-style operations on one section:
   C10_read_last_stored, C10_extend_appends, C10_type_fixed, C10_refused_unchanged (TypeError => stored list unchanged),
   C10_dict_consistent.
 - Correspondence incl. clear-then-extend, extend after reopen, True into int properties and 1 into bool properties,
   empty / non-ASCII text, NaN (compare by bit pattern), int64 extremes, numpy arrays as input, optional attributes
   (unit, uncertainty, reference, dependency, dependency_value, value_origin, definition, odml_type).
"""),
"C01":("""  lean/NixModel/Pure/NdArray.lean        (n-d array content model: shape + get, resize, setRegion, gather, concat; data_set.py append; create_data_array dtype/shape rules; compression resolution)
  lean/NixModel/Generated/Compression.lean + harness/extract/compression.py   (Compression enum + resolution constants, optional)
  lean/NixModel/Lemmas/C01*.lean         lean/NixModel/Props/C01.lean      lean/Driver/C01.lean
  harness/props/c01.py                   corpus/C01/*.json""",
"""SPECIFICS FOR C01
 - Anchors: nixio/data_set.py (write_direct/read_direct/append/__setitem__/data_extent), nixio/hdf5/h5dataset.py,
   nixio/block.py create_data_array, nixio/data_array.py, nixio/file.py + nixio/compression.py (compression resolution).
 - Defect D15 (DESIGN section 6): DataSet.append(data, axis) with axis outside 0..rank-1 (incl. -1) and equal shapes neither
   appends nor refuses: it overwrites from offset 0. Validating `axis` (ValueError/IndexError) is a small safe repair —
   apply the defect protocol (baseline: test_data_array, test_data_view, test_dimensions, test_doc_examples).
 - Theorems: C01_append_concat (pointwise on every multi-index, every rank, every extent incl. 0), C01_history (fold of the
   reference semantics for any list of write/assign/append/resize steps; corollary last-write-wins), C01_dtype_shape_stable,
   C01_compression_transparent + C01_compression_table. Selections for region assignment: you may define a minimal
   rectangular-region model yourself (another engineer builds full NumPy indexing for C06; do not depend on their files).
 - Correspondence: ranks 1-4, extents 0-4, the 12 element types with extremes / NaN / inf / -0 / non-ASCII text, every
   file x block x array compression triple, reopen at random points; values compared by bit pattern; oracle = numpy mirror.
"""),
"C14":("""  lean/NixModel/Pure/Validator.lean      (validator.py check functions over an abstract description of what the API returns)
  lean/NixModel/Generated/ValidatorCatalogue.lean + harness/extract/validator.py   (message identifiers of ValidationError from validator.py)
  lean/NixModel/Lemmas/C14*.lean         lean/NixModel/Props/C14.lean      lean/Driver/C14.lean
  harness/props/c14.py                   corpus/C14/*.json""",
"""SPECIFICS FOR C14
 - Anchors: nixio/validator.py, nixio/cmd/validate.py, nixio/util/units.py (model exists: lean/NixModel/Pure/Units.lean —
   import it for is_si / is_atomic / scalable; do not edit it).
 - Model the check functions over a description of each object (shape, descriptors with ticks/labels/interval/unit, tag
   position/extent/units/references, entity fields) that the harness produces by walking the file through the public API;
   the description is the driver's input. C14_sound (WellFormed => no errors) and C14_complete_k per catalogue entry
   (msg_k in errors obj <-> Spec_k obj, Spec_k written from the catalogue text, evaluated on the whole file state since
   some entries are relational).
 - Defect D21: an entity without created_at makes validate() raise TypeError (str_to_time(None)) so "date is not set" can
   never be reported; returning None for a missing timestamp is the candidate repair (entity.py / util.py) — apply the
   defect protocol (baseline: test_validator and the *timestamps tests).
 - Correspondence: generated well-formed files (all kinds, ranks, descriptor mixes, unit choices) + every single and
   pairwise injection at every eligible object (attribute deletions done with h5py where the API forbids them); compare
   validate()['errors'] keyed by object. Warnings are outside the property.
"""),
"C18":("""  lean/NixModel/Pure/Upgrade.lean        (cmd/upgrade.py: collect tasks, per-object steps with re-checked preconditions, version bump last)
  lean/NixModel/Lemmas/C18*.lean         lean/NixModel/Props/C18.lean      lean/Driver/C18.lean
  harness/props/c18.py                   corpus/C18/*.json""",
"""SPECIFICS FOR C18
 - Anchors: nixio/cmd/upgrade.py, nixio/file.py (version check), nixio/property.py, nixio/dimensions.py.
 - Theorems: C18_bump_last, C18_resumable (for every old file and EVERY prefix of the flattened step sequence, re-running
   the upgrade gives the same result as an uninterrupted run up to fresh ids/timestamps, and the version is old in every
   interrupted state), C18_idempotent, C18_content.
 - Correspondence: old-format (1.1.x and older) files crafted with h5py (creation-order-tracked groups, compound property
   datasets of every value type, alias range dimensions, with/without id — a probe showed this works here); interruption
   by raising at the k-th h5py.File(...,"a")/step inside nixio.cmd.upgrade via monkey-patching (no repo change), for every
   k; thorough tier also kills a child process at those points; content compared before (old-layout readers) and after
   (normal API).
"""),
"C16":("""  lean/NixModel/Pure/Frame.lean          (data_frame.py + block.py create_data_frame schema derivation)
  lean/NixModel/Lemmas/C16*.lean         lean/NixModel/Props/C16.lean      lean/Driver/C16.lean
  harness/props/c16.py                   corpus/C16/*.json""",
"""SPECIFICS FOR C16
 - Anchors: nixio/data_frame.py, nixio/block.py (create_data_frame), nixio/hdf5/h5dataset.py.
 - D11 (np.string_ under numpy 2) is already repaired in /repo (commit "fix: np.string_ ..."). Remaining defects of DESIGN
   section 6: D18 write_column(index=0) refused because `not index` is true for 0; D19 after append_column the dataset is
   rebuilt contiguous so the next append_rows raises TypeError. Both look like small safe repairs (`is None` tests; rebuild
   chunked with unlimited maxshape as create_new does) — apply the defect protocol (baseline: test_data_frame and the
   data-frame tests in test_dimensions / test_doc_examples now pass; keep them passing). Look for further ones (negative
   row indices, write_rows bounds, duplicate column names on append_column, units length).
 - Theorems for every history: C16_read_what_written, C16_frame (a write changes only the addressed cells),
   C16_shape_consistent, C16_refused_unchanged.
"""),
"C17":("""  lean/NixModel/Pure/Flush.lean          (two-level disk/cache protocol model with nondeterministic write-back, flush, close, kill, reopen)
  lean/NixModel/Lemmas/C17*.lean         lean/NixModel/Props/C17.lean      lean/Driver/C17.lean
  harness/props/c17.py  harness/props/c17_child.py   corpus/C17/*.json""",
"""SPECIFICS FOR C17
 - Anchor: nixio/file.py (flush, close; H5Fflush scope; gc.collect; context manager __exit__).
 - The theorem (C17_flush_durable, for every history and every write-back behaviour) fixes the protocol: flush reaches
   global scope and makes disk := cache; close flushes before closing. The translator-style tie: an AST check of
   File.flush / File.close in file.py (calls h5py flush on the file object; close calls flush before h5file.close) rendered
   as Lean constants (e.g. Generated/FlushShape.lean via harness/extract/flush.py — yours too) that the theorem's
   hypotheses mention, so removing the flush call breaks the obligation at build time.
 - The correspondence carries the weight: a child process (harness/props/c17_child.py, run with /venv/bin/python) executes a
   seeded generated history (entities of all kinds, arrays grown by appends, compressed and uncompressed), records a
   canonical walk of the file through the public API, calls flush() or close(), writes the walk to a side file, then
   SIGKILLs itself; the parent reopens read-only and read-write and compares with the recorded walk. Quick: ~12-20 kills,
   thorough: 200+. Also a negative control in the oracle's self-test (same history killed WITHOUT flush must be detectably
   different/unreadable at least sometimes — record the rate in the evidence, do not fail on it).
 - Write a reusable canonical walk (`harness/lib/walk.py` is yours to create: blocks, groups, arrays with data hash and
   dimension descriptors, tags, multi-tags, features, sources, sections, properties, links, in container order) — other
   engineers may reuse it later, so keep it self-contained and deterministic.
"""),
}
pid=sys.argv[1]
files,spec=SPEC[pid]
print(T.replace("{PID}",pid).replace("{FILES}",files).replace("{SPECIFIC}",spec))
