"""./check <id> [--tier quick|thorough] [--replay <path>]

One check run (DESIGN.md 2.4):
 1. regenerate Generated/*.lean from /repo's working tree (translator tie),
 2. lake build of the property's theorem module + driver, forbidden-token grep, axiom audit
    (thorough: leanchecker),
 3. correspondence: corpus + generated cases, model driver vs real nixio,
 4. property oracle on the implementation (always; budget grows when 1-3 broke),
 5. known findings are replayed and printed; anything else that fails is a VIOLATION.
Exit 0 = held, 1 = violation, 2 = infrastructure problem.
"""
import argparse
import importlib
import json
import os
import sys
import time
import traceback

from .lib import core
from .lib.core import Ctx, InfraError
from .extract.leanfmt import ExtractError


def load(prop):
    return importlib.import_module("harness.props.%s" % prop.lower())


def run(prop, tier, seed):
    P = load(prop)
    ctx = Ctx(prop, tier, seed)
    broken = []          # obligations / ties that no longer check: (kind, detail)
    notes = []
    if ctx.changed_files:
        notes.append("anchored sources differ from the recorded baseline (%s): quick budgets x%d"
                     % (", ".join(ctx.changed_files), ctx.boost))
    try:
        # ---- 1. translator ---------------------------------------------------------------
        changed = []
        if hasattr(P, "extract"):
            try:
                files = P.extract(core.REPO)
                changed = core.write_generated(files)
                if changed:
                    notes.append("regenerated: " + ", ".join(changed))
            except ExtractError as e:
                broken.append(("translator", "source no longer matches the shape the translator reads: %s" % e))
            except (OSError, SyntaxError) as e:
                broken.append(("translator", "cannot read/parse the anchored source: %s" % e))

        # ---- 2. theorems -----------------------------------------------------------------
        theorems = list(P.THEOREMS)
        discharged = 0
        axioms = {}
        ok, out, fails = core.build([P.LEAN_MODULE])
        if not ok:
            names = sorted(set(core.theorem_at(f) for f in fails)) or ["<unknown>"]
            broken.append(("theorem", "lake build of %s failed at: %s" % (P.LEAN_MODULE, ", ".join(names))))
            notes.append(out[-3000:])
        else:
            hits = core.forbidden_hits([P.LEAN_MODULE, "Driver.%s" % prop])
            if hits:
                broken.append(("audit", "forbidden tokens in Lean sources: %s" % "; ".join(hits[:5])))
            aok, axioms, problems = core.audit(P.LEAN_MODULE, theorems)
            for pr in problems:
                broken.append(("audit", pr))
            discharged = len([t for t in theorems if t in axioms
                              and all(a in core.ALLOWED_AXIOMS for a in axioms[t])])
            if tier == "thorough" and not broken:
                lok, lout = core.leanchecker(getattr(P, "LEANCHECK_MODULES", [P.LEAN_MODULE]))
                if not lok:
                    broken.append(("leanchecker", lout[-800:]))
        dok, dout, dfails = core.build([core.driver_target(prop)])
        if not dok:
            broken.append(("driver", "model driver does not build: %s" % ", ".join(dfails)))

        # ---- 3. correspondence -----------------------------------------------------------
        corr = {"evaluations": 0, "distinct_nontrivial": 0, "disagreements": [], "samples": [],
                "rule": "", "distribution": {}}
        if dok:
            try:
                corr = P.correspondence(ctx)
            except InfraError:
                raise
            except Exception as e:
                # on the unchanged tree a crashing harness is an infrastructure problem (exit 2); on a tree whose
                # anchored sources differ from the baseline, or with a tie / theorem already broken, the correspondence
                # can no longer be established: that is a broken obligation, and the oracle goes looking
                if not (ctx.changed_files or broken):
                    raise
                broken.append(("correspondence", "the correspondence run aborted (%s: %s) - the harness no longer "
                               "understands the code under check" % (type(e).__name__, str(e)[:300])))
                notes.append(traceback.format_exc()[-1500:])
            for d in corr["disagreements"][:5]:
                broken.append(("correspondence", "model and implementation differ on %s: model=%s impl=%s"
                               % (json.dumps(d.case)[:300], json.dumps(d.model)[:200], json.dumps(d.impl)[:200])))

        # ---- 4. oracle on the implementation --------------------------------------------
        hints = [d.case for d in corr["disagreements"]]
        try:
            orc = P.oracle(ctx, bool(broken), hints)
        except InfraError:
            raise
        except Exception as e:
            if not (ctx.changed_files or broken):
                raise
            broken.append(("oracle", "the property oracle aborted (%s: %s)" % (type(e).__name__, str(e)[:300])))
            notes.append(traceback.format_exc()[-1500:])
            orc = {"evaluations": 0, "failures": []}
        failures = orc["failures"]

        # ---- 5. known findings -----------------------------------------------------------
        known = core.load_known(prop)
        open_known = [e for e in known if e.get("status") == "open"]
        new_failures = []
        for f in failures:
            if not any(P.matches_known(e, f) for e in open_known):
                new_failures.append(f)
        for e in open_known:
            still = P.reproduces(ctx, e) if hasattr(P, "reproduces") else True
            if still:
                print("KNOWN-FINDING: property=%s %s" % (prop, e["what"]))
            else:
                notes.append("known finding no longer reproduces: %s" % e["id"])

        wall = time.time() - ctx.t0
        violations = len(new_failures) + (1 if (broken and not new_failures) else 0)
        coverage = {
            "obligations": len(theorems),
            "discharged": discharged,
            "checker_cmd": "cd lean && lake build %s && lake env lean <#print axioms audit>%s" % (
                P.LEAN_MODULE, " && lake env leanchecker" if tier == "thorough" else ""),
            "trusted_base": core.TRUSTED_BASE_COMMON + list(getattr(P, "TRUSTED_EXTRA", [])),
            "theorems": {t: axioms.get(t) for t in theorems},
            "evaluations": corr["evaluations"] + orc.get("evaluations", 0),
            "traces_validated_against_impl": corr["evaluations"],
            "distinct_nontrivial": corr["distinct_nontrivial"],
            "rule": corr["rule"],
            "samples": corr["samples"][:8],
            "distribution": corr.get("distribution", {}),
            "disagreements": len(corr["disagreements"]),
            "oracle": {k: v for k, v in orc.items() if k != "failures"},
            "oracle_failures": len(failures),
            "known_findings_open": [e["id"] for e in open_known],
            "broken": [list(b) for b in broken],
            "regenerated": changed,
            "notes": notes[:10],
            "exhaustive": bool(corr.get("exhaustive", False)),
        }
        core.write_evidence(prop, tier, seed, "proof", coverage, list(getattr(P, "ASSUMPTIONS", [])), wall,
                            violations)

        if new_failures:
            f = new_failures[0]
            path = core.write_replay(prop, seed, {
                "kind": "failing-input", "failure": f.to_json(),
                "all_failures": [x.to_json() for x in new_failures[:20]],
                "broken": [list(b) for b in broken]})
            print("failing input: %s" % json.dumps(f.to_json(), ensure_ascii=True)[:600])
            print("VIOLATION property=%s replay=%s" % (prop, path))
            return 1
        if broken:
            path = core.write_replay(prop, seed, {
                "kind": "no-failing-input-found",
                "broken": [list(b) for b in broken],
                "disagreements": [d.to_json() for d in corr["disagreements"][:20]],
                "oracle_evaluations": orc.get("evaluations", 0)})
            for b in broken[:6]:
                print("no longer checks: [%s] %s" % (b[0], b[1][:400]))
            print("VIOLATION property=%s replay=%s no-failing-input-found" % (prop, path))
            return 1
        print("OK property=%s tier=%s seed=%d theorems=%d/%d correspondence=%d oracle=%d wall=%.1fs" % (
            prop, tier, seed, discharged, len(theorems), corr["evaluations"], orc.get("evaluations", 0), wall))
        return 0
    finally:
        ctx.cleanup()


def replay(prop, path):
    P = load(prop)
    obj = json.load(open(path if os.path.isabs(path) else os.path.join(core.VERIF, path)))
    ctx = Ctx(prop, "quick", int(obj.get("seed", 0)))
    try:
        if obj.get("kind") == "failing-input":
            f = P.replay_failure(ctx, obj["failure"])
            if f is not None:
                print("reproduced: %s" % json.dumps(f.to_json(), ensure_ascii=True)[:800])
                print("VIOLATION property=%s replay=%s" % (prop, path))
                return 1
            print("not reproduced on the current tree")
            return 0
        print("replay names obligations that no longer checked: %s" % json.dumps(obj.get("broken")))
        print("re-running the check")
        return run(prop, "quick", int(obj.get("seed", 0)))
    finally:
        ctx.cleanup()


def main(argv=None):
    ap = argparse.ArgumentParser()
    ap.add_argument("prop")
    ap.add_argument("--tier", default=os.environ.get("VERIF_TIER", "quick"), choices=["quick", "thorough"])
    ap.add_argument("--replay")
    a = ap.parse_args(argv)
    seed = int(os.environ.get("VERIF_SEED", "0") or 0)
    try:
        if a.replay:
            return replay(a.prop.upper(), a.replay)
        return run(a.prop.upper(), a.tier, seed)
    except InfraError as e:
        print("INFRA-ERROR: %s" % e, file=sys.stderr)
        return 2
    except Exception:
        traceback.print_exc()
        return 2


if __name__ == "__main__":
    sys.exit(main())
