"""python -m harness.kf add '<json object>' | list   — edit known_findings.json under a lock"""
import fcntl
import json
import os
import sys

VERIF = os.path.dirname(os.path.dirname(os.path.abspath(__file__)))
PATH = os.path.join(VERIF, "known_findings.json")


def main():
    cmd = sys.argv[1] if len(sys.argv) > 1 else "list"
    with open(PATH + ".lock", "w") as lk:
        fcntl.flock(lk, fcntl.LOCK_EX)
        data = json.load(open(PATH)) if os.path.exists(PATH) else []
        if cmd == "add":
            e = json.loads(sys.argv[2])
            for k in ("status", "property", "id", "what"):
                if k not in e:
                    sys.exit("missing key " + k)
            data = [x for x in data if x.get("id") != e["id"]] + [e]
            data.sort(key=lambda x: (x["property"], x["id"]))
            tmp = PATH + ".tmp"
            with open(tmp, "w") as f:
                json.dump(data, f, indent=1, ensure_ascii=True)
                f.write("\n")
            os.replace(tmp, PATH)
        for e in data:
            print(e["status"], e["property"], e["id"], "-", e["what"][:100])


if __name__ == "__main__":
    main()
