"""dev helper: copy histories (two files), print the first disagreements"""
import json, random, sys
from harness.lib import core, storegen, storegen2

def main():
    seed = int(sys.argv[1]) if len(sys.argv) > 1 else 0
    n = int(sys.argv[2]) if len(sys.argv) > 2 else 5
    steps = int(sys.argv[3]) if len(sys.argv) > 3 else 40
    ctx = core.Ctx("C20", "quick", seed)
    tot = 0
    for h in range(n):
        rng = random.Random(seed * 1000 + h)
        ops, outs = storegen2.run_history2(ctx, rng, steps, "dev%d" % h)
        model = core.run_driver("C20", [["reset"]] + ops)[1:]
        diffs = storegen.compare(ops, outs, model)
        tot += len(ops)
        errs = {}
        ncopy = len([o for o in ops if o[0].startswith("copy_")])
        okcopy = len([1 for o, r in zip(ops, outs) if o[0].startswith("copy_") and "ok" in r])
        for o in outs:
            if "err" in o: errs[o["err"]] = errs.get(o["err"], 0) + 1
        print("history", h, "ops", len(ops), "copies", ncopy, "ok", okcopy, "diffs", len(diffs), "errs", errs)
        for k, op, m, i in diffs[:2]:
            if op[0] == "dump" and "ok" in m and "ok" in i:
                mm, ii = m["ok"], i["ok"]
                for a, b in zip(mm, ii):
                    if a != b:
                        print("  #%d dump differs at node: model=%s impl=%s" % (k, json.dumps(a, ensure_ascii=False), json.dumps(b, ensure_ascii=False)))
                        break
                else:
                    print("  #%d dump lengths differ: %d vs %d" % (k, len(mm), len(ii)))
                prev = [json.dumps(o, ensure_ascii=False)[:200] for o in ops[max(0, k - 80):k] if o[0] not in ("get", "has", "len", "list", "role", "dump")]
                print("     recent mutators:", prev[-5:])
                continue
            print("  #%d %s\n     model=%s\n     impl =%s" % (k, json.dumps(op, ensure_ascii=False)[:300], json.dumps(m, ensure_ascii=False)[:1500], json.dumps(i, ensure_ascii=False)[:1500]))
            prev = [json.dumps(o, ensure_ascii=False)[:200] for o in ops[max(0, k - 80):k] if o[0] not in ("get", "has", "len", "list", "role", "dump")]
            print("     recent mutators:", prev[-5:])
    ctx.cleanup()
    print("total ops", tot)

main()
