"""Regenerate /verif/MANIFEST.json from the per-property modules (harness/props/cXX.py).
A property whose module is missing or not READY is listed under not_applicable with the reason."""
import importlib
import json
import os

VERIF = os.path.dirname(os.path.dirname(os.path.abspath(__file__)))
IDS = ["C%02d" % i for i in range(1, 21)]

BASELINE_OFF = ("cd /repo && env -u NIXPY_VERIF /venv/bin/python -m pytest -ra -q -p no:cacheprovider "
                "--timeout=900 --continue-on-collection-errors")


def main():
    checks = []
    na = []
    for pid in IDS:
        try:
            P = importlib.import_module("harness.props.%s" % pid.lower())
        except ModuleNotFoundError:
            na.append({"property_id": pid, "reason": "check not built yet in this round (model, theorems and "
                       "correspondence are planned in DESIGN.md section 7)"})
            continue
        if not getattr(P, "READY", False):
            na.append({"property_id": pid, "reason": getattr(P, "NOT_READY_REASON", "check under construction")})
            continue
        M = P.MANIFEST
        checks.append({
            "property_id": pid,
            "quick_cmd": "./check %s --tier quick" % pid,
            "thorough_cmd": "./check %s --tier thorough" % pid,
            "evidence_file": "evidence/%s.json" % pid,
            "replay_cmd_template": "./check %s --replay {path}" % pid,
            "engine": "lean4-model+correspondence",
            "level_claimed": {"category": "proof", "text": M["level_text"],
                              "design_ref": M.get("design_ref", "DESIGN.md section 7, %s" % pid)},
            "level_note": M["level_note"],
            "technique": M.get("technique", "Lean 4 theorems about a model of the code; model tied to the source by "
                               "regenerated tables and differential correspondence"),
        })
    man = {
        "version": 1,
        "setup_cmd": "cd lean && lake build",
        "hooks": {"guard": "NIXPY_VERIF", "enable": "no source hooks: the harness monkey-patches from outside; "
                  "checks export NIXPY_VERIF=1 for symmetry only",
                  "baseline_off_cmd": BASELINE_OFF, "source_commits": [], "add_only": True},
        "engines": [{"name": "lean4-model+correspondence", "path": "lean/ + harness/",
                     "serves_properties": [c["property_id"] for c in checks],
                     "kind_free_text": "Lean 4 model + kernel-checked theorems (lake build, #print axioms audit, "
                     "leanchecker in thorough tier); model tied to /repo by source->Lean table translators and by "
                     "differential execution of the compiled model driver against nixio; implementation-side "
                     "property oracles search for failing inputs"}],
        "checks": checks,
        "not_applicable": na,
        "notes": "All checks: ./check <id> --tier quick|thorough (VERIF_SEED honoured). Exit 0 held, 1 violation, "
                 "2 infrastructure. Known findings: known_findings.json. See DESIGN.md.",
    }
    with open(os.path.join(VERIF, "MANIFEST.json"), "w") as f:
        json.dump(man, f, indent=1)
    print("checks:", [c["property_id"] for c in checks])
    print("not_applicable:", [n["property_id"] for n in na])


if __name__ == "__main__":
    main()
