"""Translator: the copying functions of nixio  ->  NixModel/Generated/CopyOrder.lean                 (property C12)

    Block._copy_objects      (create_data_array / create_data_frame / create_tag / create_multi_tag with copy_from)
    File.create_block        (its `copy_from is not None` branch)
    Section.create_property  (its `copy_from is not None` branch)
    File.copy_section, Section.copy_section

each with `H5Group.copy` inlined, rendered statement by statement as lists of guards and writes over the vocabulary
of NixModel/Pure/CopyWrite.lean.  `Props/C12Copies.lean` evaluates the discipline `safe` of Pure/Guarded.lean on the
lists: a validation moved behind the HDF5 copy (the name text tested after the copy, the keep-id flag evaluated
after it) changes a list and breaks `copy_functions_safe`; a statement the table below does not know is an
ExtractError (broken tie).  Parsed with `ast`, never imported.
"""
import ast
import os

from .leanfmt import ExtractError

TARGET = "NixModel/Generated/CopyOrder.lean"
NAME_ERROR = ("raise NameError('Name already exist. Possible solution is to provide a new name when copying destination is "
              "the same as the source parent')")


def _u(n):
    return ast.unparse(n)


def _E(src):
    return ast.unparse(ast.parse(src).body[0])


def _parse(repo, rel):
    with open(os.path.join(repo, rel), encoding="utf-8") as fh:
        return ast.parse(fh.read())


def _method(tree, cls, name, rel):
    for c in tree.body:
        if isinstance(c, ast.ClassDef) and c.name == cls:
            for f in c.body:
                if isinstance(f, ast.FunctionDef) and f.name == name:
                    return f
    raise ExtractError("%s: %s.%s not found" % (rel, cls, name))


def _body(stmts):
    return [st for st in stmts if not (isinstance(st, ast.Expr) and isinstance(st.value, ast.Constant))]


def _fail(where, st):
    raise ExtractError("%s line %d: statement not modelled: %s" % (where, st.lineno, _u(st)[:100]))


def _only_assigns_src(st):
    """`if isinstance(obj._parent, Section): src = .. else: src = ..`: chooses the source path, no effect"""
    return isinstance(st, ast.If) and all(isinstance(x, ast.Assign) and _u(x.targets[0]) == "src" for x in st.body + st.orelse)


def _h5copy(fn, where):
    """H5Group.copy(source, dest, name, cls, shallow, keep_id) -> steps"""
    steps = []
    for st in _body(fn.body):
        s = _u(st)
        if s in (_E("grp = self.group"), _E("dest_grp = dest.group[cls]"), _E("grp = dest_grp[name]"), _E("return grp")):
            continue
        if s == _E("keep_id = bool(keep_id)"):
            steps.append(".guard .keepIdBool")
        elif s == _E("if isinstance(name, str):\n    name = str(name)\n    util.check_text_storable(name)"):
            steps.append(".guard .nameStorable")
        elif s == _E("dest.open_group(cls, create=True)"):
            steps.append(".write .openContainer")
        elif s == _E("grp.copy(source=source, dest=dest_grp, name=name, shallow=shallow)"):
            steps.append(".write .h5copy")
        elif s == _E("grp.attrs['name'] = name"):
            steps.append(".write .setName")
        elif isinstance(st, ast.If) and not st.orelse and _u(st.test) == _E("not keep_id"):
            inner = [_u(x) for x in st.body if not isinstance(x, ast.FunctionDef)]
            helper = [x for x in st.body if isinstance(x, ast.FunctionDef)]
            if inner != [_E("id_ = util.create_id()"), _E("grp.attrs.modify('entity_id', np.bytes_(id_))"),
                         _E("if isinstance(grp, h5py.Group):\n    grp.visititems(change_id)")] or len(helper) != 1 or \
                    _u(helper[0]) != _E("def change_id(_, igrp):\n    if 'entity_id' in igrp.attrs:\n        id_ = util.create_id()\n"
                                        "        igrp.attrs.modify('entity_id', np.bytes_(id_))"):
                raise ExtractError("%s: the id-regenerating branch changed" % where)
            steps.append(".write .freshIds")
        else:
            _fail(where, st)
    return steps


def _caller(stmts, copy, kind_cls, where):
    steps = []
    for st in _body(stmts):
        s = _u(st)
        if isinstance(st, ast.Assign) and _u(st.targets[0]) in ("src", "clsname") or _only_assigns_src(st):
            continue
        if isinstance(st, ast.If) and not st.orelse and len(st.body) == 1 and isinstance(st.body[0], ast.Raise) and \
                _u(st.test) in (_E("not isinstance(obj, %s)" % kind_cls), _E("not isinstance(copy_from, %s)" % kind_cls)):
            steps.append(".guard .objKind")
        elif s in (_E("if not name:\n    name = str(obj.name)"), _E("if not name:\n    name = str(copy_from.name)")):
            steps.append(".guard .nameTruth")
        elif isinstance(st, ast.Assign) and isinstance(st.value, ast.Call) and \
                _u(st.value) in (_E("self._h5group.open_group(clsname, True)"), _E("self._h5group.open_group('properties', True)"),
                                 _E("self._h5group.open_group('sections', True)")):
            steps.append(".write .openContainer")
        elif isinstance(st, ast.If) and not st.orelse and [_u(x) for x in st.body] == [_E(NAME_ERROR)] and \
                isinstance(st.test, ast.Compare) and _u(st.test.left) == "name" and isinstance(st.test.ops[0], ast.In):
            steps.append(".guard .nameFree")
        elif isinstance(st, ast.Expr) and isinstance(st.value, ast.Call) and (_u(st.value.func).endswith("._parent._h5group.copy") or _u(st.value.func) == "obj._h5group.copy"):
            kws = {k.arg: _u(k.value) for k in st.value.keywords}
            if st.value.args or set(kws) - {"source", "dest", "name", "cls", "shallow", "keep_id"} or \
                    kws.get("name") != "name" or kws.get("dest") != "self._h5group":
                _fail(where, st)
            if "shallow" in kws:
                if kws["shallow"] != "not children":
                    _fail(where, st)
                steps.append(".guard .childrenBool")          # `not children` is evaluated before the call
            steps += copy
        elif s == _E("if not children:\n    for prop in obj.props:\n        self.sections[name].create_property(copy_from=prop, "
                     "keep_copy_id=keep_id)"):
            steps.append(".write .copyProps")
        elif isinstance(st, ast.Return):
            break
        else:
            _fail(where, st)
    return steps


def _copy_branch(fn, where):
    for st in _body(fn.body):
        if isinstance(st, ast.If) and _u(st.test) == _E("copy_from is not None"):
            if not isinstance(st.body[-1], ast.Return):
                raise ExtractError("%s: the copy branch no longer ends in a return" % where)
            return st.body
    raise ExtractError("%s: no `if copy_from is not None` branch" % where)


def extract(repo):
    copy = _h5copy(_method(_parse(repo, "nixio/hdf5/h5group.py"), "H5Group", "copy", "nixio/hdf5/h5group.py"), "H5Group.copy")
    blk = _parse(repo, "nixio/block.py")
    fil = _parse(repo, "nixio/file.py")
    sec = _parse(repo, "nixio/section.py")
    fns = [
        ("blockCopyObjects", "Block._copy_objects",
         _caller(_method(blk, "Block", "_copy_objects", "nixio/block.py").body, copy, "NoKindTestHere", "Block._copy_objects")),
        ("fileCreateBlockCopy", "File.create_block(copy_from=...)",
         _caller(_copy_branch(_method(fil, "File", "create_block", "nixio/file.py"), "File.create_block"), copy, "Block",
                 "File.create_block")),
        ("sectionCreatePropertyCopy", "Section.create_property(copy_from=...)",
         _caller(_copy_branch(_method(sec, "Section", "create_property", "nixio/section.py"), "Section.create_property"), copy,
                 "Property", "Section.create_property")),
        ("fileCopySection", "File.copy_section",
         _caller(_method(fil, "File", "copy_section", "nixio/file.py").body, copy, "Section", "File.copy_section")),
        ("sectionCopySection", "Section.copy_section",
         _caller(_method(sec, "Section", "copy_section", "nixio/section.py").body, copy, "Section", "Section.copy_section")),
    ]
    # the four public callers of _copy_objects test the kind of the source first and call nothing else before it
    public = []
    for meth, cont, kind in (("create_data_array", "data_arrays", "DataArray"), ("create_data_frame", "data_frames", "DataFrame"),
                             ("create_tag", "tags", "Tag"), ("create_multi_tag", "multi_tags", "MultiTag")):
        br = _body(_copy_branch(_method(blk, "Block", meth, "nixio/block.py"), "Block." + meth))
        shape = [_u(x) for x in br]
        if len(br) != 3 or not (isinstance(br[0], ast.If) and _u(br[0].test) == _E("not isinstance(copy_from, %s)" % kind) and
                                isinstance(br[0].body[0], ast.Raise)) or \
                shape[1] != _E("objname = self._copy_objects(copy_from, '%s', keep_copy_id, name)" % cont) or \
                not isinstance(br[2], ast.Return):
            raise ExtractError("Block.%s: the copy branch is no longer kind test / _copy_objects / return: %s" % (meth, shape))
        public.append(("block" + "".join(w.capitalize() for w in meth.split("_")) + "Copy", "Block.%s(copy_from=...)" % meth,
                       [".guard .objKind"] + fns[0][2]))
    fns = fns + public

    def lst(xs):
        return "[" + ", ".join(xs) + "]"
    out = ["import NixModel.Pure.CopyWrite",
           "/-! GENERATED by harness/extract/copyorder.py from nixio/hdf5/h5group.py, block.py, file.py, section.py - do not edit -/",
           "namespace Nix.Generated.CopyOrder", "open Nix.Guarded Nix.CopyWrite", "",
           "/-- `H5Group.copy(source, dest, name, cls, shallow, keep_id)`: its statements in source order -/",
           "def h5GroupCopy : List CStep := %s" % lst(copy), ""]
    for lname, pyname, steps in fns:
        out += ["/-- `%s`, `H5Group.copy` inlined -/" % pyname, "def %s : List CStep := %s" % (lname, lst(steps)), ""]
    out += ["def all : List (String × List CStep) :=",
            "  [" + ", ".join('("%s", %s)' % (py, ln) for ln, py, _ in fns) + "]", "",
            "end Nix.Generated.CopyOrder", ""]
    return {TARGET: "\n".join(out)}
