"""Translator: every class of nixio/*.py  ->  NixModel/Generated/Setters.lean   (used by C19)

For every method / property setter of every class the table records, path by path, where the
auto-update idiom

    if self.file.auto_update_timestamps:
        self.force_updated_at()

(or the inline variant of feature.py: `time = util.now_int(); self._h5group.set_attr("updated_at",
util.time_to_str(time))`) runs: the *outcomes* of a member are all pairs (exit, touch) such that some
path through the body reaches that exit (`returns`: a `return` or the end of the body; `raises`: a
`raise` or a statement that may raise) after the idiom has run on `touch` (none / self / parent).  An
early `return` that skips the idiom, an idiom under a condition, a statement after the idiom that can
still refuse the call: each shows up as an outcome, and the theorems of C19 quantify over them.
Methods run through `self` (`self.delete_values()`, `self.x = v`) contribute their own outcomes
(summaries iterated to a fixpoint over Python's MRO).
The shapes of `force_created_at` / `force_updated_at` (canonical or not) and the bodies of the
`created_at` / `updated_at` getters are rendered as tables as well.  The method resolution order of
every class is rendered as well, so that the Lean model resolves `Tag.definition` to `Entity.definition`
exactly as Python does.  Parsed with `ast`, never imported.  Anything that mentions the time stamp
machinery in a shape that is not recognised raises ExtractError (a broken tie).
"""
import ast
import glob
import os

from .leanfmt import ExtractError, lean_str, lean_bool

SKIP_MODULES = {"__init__.py", "info.py", "validator.py"}
STAMP_WORDS = ("updated_at", "created_at", "force_updated_at", "force_created_at", "auto_update_timestamps",
               "now_int", "time_to_str")
# functions that legitimately mention the machinery outside the idiom
EXEMPT = {("File", "__init__"), ("File", "open"), ("File", "auto_update_timestamps")}
CREATORS = {"create_new", "__init__"}
FORCE = {"force_created_at": "created_at", "force_updated_at": "updated_at"}


def _is_self_attr_chain(node, chain):
    """node is self.<chain[0]>.<chain[1]>..."""
    for name in reversed(chain):
        if not (isinstance(node, ast.Attribute) and node.attr == name):
            return False
        node = node.value
    return isinstance(node, ast.Name) and node.id == "self"


def _is_auto_test(node):
    return (_is_self_attr_chain(node, ["file", "auto_update_timestamps"]) or
            _is_self_attr_chain(node, ["_file", "auto_update_timestamps"]) or
            _is_self_attr_chain(node, ["auto_update_timestamps"]) or
            _is_self_attr_chain(node, ["_auto_update_timestamps"]))


def _is_util_call(node, fname, nargs):
    return (isinstance(node, ast.Call) and isinstance(node.func, ast.Attribute) and node.func.attr == fname
            and isinstance(node.func.value, ast.Name) and node.func.value.id == "util"
            and len(node.args) == nargs and not node.keywords)


def _idiom_target(ifnode, where):
    """'self' | 'parent' for a recognised idiom `If`; ExtractError otherwise"""
    if ifnode.orelse:
        raise ExtractError("%s: auto-update test with an else branch" % where)
    body = ifnode.body
    if len(body) == 1 and isinstance(body[0], ast.Expr) and isinstance(body[0].value, ast.Call):
        c = body[0].value
        if (isinstance(c.func, ast.Attribute) and c.func.attr == "force_updated_at" and not c.args
                and not c.keywords):
            tgt = c.func.value
            if isinstance(tgt, ast.Name) and tgt.id == "self":
                return "self"
            if _is_self_attr_chain(tgt, ["_parent"]) or _is_self_attr_chain(tgt, ["parent"]):
                return "parent"
            raise ExtractError("%s: force_updated_at() on an object the translator does not know: %s"
                               % (where, ast.unparse(tgt)))
    if len(body) == 2 and isinstance(body[0], ast.Assign) and isinstance(body[1], ast.Expr):
        a, e = body
        if (len(a.targets) == 1 and isinstance(a.targets[0], ast.Name) and _is_util_call(a.value, "now_int", 0)):
            var = a.targets[0].id
            c = e.value
            if (isinstance(c, ast.Call) and isinstance(c.func, ast.Attribute) and c.func.attr == "set_attr"
                    and _is_self_attr_chain(c.func.value, ["_h5group"]) and len(c.args) == 2
                    and isinstance(c.args[0], ast.Constant) and c.args[0].value == "updated_at"
                    and _is_util_call(c.args[1], "time_to_str", 1)
                    and isinstance(c.args[1].args[0], ast.Name) and c.args[1].args[0].id == var):
                return "self"
    raise ExtractError("%s: auto-update test guards something other than the force_updated_at() idiom" % where)


def _mentions(node):
    """does the subtree mention the time stamp machinery"""
    for n in ast.walk(node):
        if isinstance(n, ast.Attribute) and n.attr in STAMP_WORDS:
            return True
        if isinstance(n, ast.Name) and n.id in STAMP_WORDS:
            return True
        if isinstance(n, ast.Constant) and n.value in ("updated_at", "created_at"):
            return True
    return False


def _strip_doc(body):
    if body and isinstance(body[0], ast.Expr) and isinstance(body[0].value, ast.Constant) \
            and isinstance(body[0].value.value, str):
        return body[1:]
    return body


def _force_canonical(fn, attr):
    """is the body of force_created_at / force_updated_at exactly

        if time is None: time = util.now_int()
        else: util.check_attr_type(time, int)
        <h5 object>.set_attr(attr, util.time_to_str(time))      (or  <h5 file>.attrs[attr] = util.time_to_str(time))

    with the signature (self, time=None)"""
    args = fn.args
    if [a.arg for a in args.args] != ["self", "time"] or len(args.defaults) != 1 \
            or not (isinstance(args.defaults[0], ast.Constant) and args.defaults[0].value is None) \
            or args.vararg or args.kwarg or args.kwonlyargs:
        return False
    body = _strip_doc(fn.body)
    if len(body) != 2 or not isinstance(body[0], ast.If):
        return False
    iff, wr = body
    t = iff.test
    if not (isinstance(t, ast.Compare) and isinstance(t.left, ast.Name) and t.left.id == "time"
            and len(t.ops) == 1 and isinstance(t.ops[0], ast.Is)
            and isinstance(t.comparators[0], ast.Constant) and t.comparators[0].value is None):
        return False
    if not (len(iff.body) == 1 and isinstance(iff.body[0], ast.Assign) and len(iff.body[0].targets) == 1
            and isinstance(iff.body[0].targets[0], ast.Name) and iff.body[0].targets[0].id == "time"
            and _is_util_call(iff.body[0].value, "now_int", 0)):
        return False
    ok_else = (len(iff.orelse) == 1 and isinstance(iff.orelse[0], ast.Expr)
               and _is_util_call(iff.orelse[0].value, "check_attr_type", 2)
               and isinstance(iff.orelse[0].value.args[0], ast.Name) and iff.orelse[0].value.args[0].id == "time"
               and isinstance(iff.orelse[0].value.args[1], ast.Name) and iff.orelse[0].value.args[1].id == "int")
    if not ok_else:
        return False

    def is_tts(v):
        return _is_util_call(v, "time_to_str", 1) and isinstance(v.args[0], ast.Name) and v.args[0].id == "time"
    good = False
    if isinstance(wr, ast.Expr) and isinstance(wr.value, ast.Call):
        c = wr.value
        good = (isinstance(c.func, ast.Attribute) and c.func.attr == "set_attr" and len(c.args) == 2
                and not c.keywords
                and isinstance(c.args[0], ast.Constant) and c.args[0].value == attr and is_tts(c.args[1]))
    elif isinstance(wr, ast.Assign) and len(wr.targets) == 1 and isinstance(wr.targets[0], ast.Subscript):
        sl = wr.targets[0].slice
        good = isinstance(sl, ast.Constant) and sl.value == attr and is_tts(wr.value)
    return good


def _walk_local(node):
    """ast.walk that does not descend into nested function / class definitions and lambdas"""
    todo = [node]
    while todo:
        n = todo.pop()
        yield n
        for ch in ast.iter_child_nodes(n):
            if not isinstance(ch, (ast.FunctionDef, ast.AsyncFunctionDef, ast.ClassDef, ast.Lambda)):
                todo.append(ch)


def _scan_machinery(cls, fn, body, idiom_nodes):
    """ExtractError when the time stamp machinery is used outside the recognised idiom"""
    where = "%s.%s" % (cls, fn.name)

    def scan(node):
        if id(node) in idiom_nodes:
            return
        if isinstance(node, (ast.Attribute, ast.Name, ast.Constant)):
            if _mentions(node) and not isinstance(node, ast.Attribute):
                raise ExtractError("%s: time stamp machinery used outside the recognised idiom" % where)
            if isinstance(node, ast.Attribute) and node.attr in STAMP_WORDS:
                raise ExtractError("%s: time stamp machinery used outside the recognised idiom (%s)"
                                   % (where, node.attr))
        for ch in ast.iter_child_nodes(node):
            scan(ch)

    if (cls, fn.name) not in EXEMPT and fn.name not in CREATORS and fn.name not in FORCE:
        for st in body:
            scan(st)


def _may_raise(node):
    """can evaluating this statement / expression raise: anything that calls, subscripts, deletes or computes"""
    if node is None:
        return False
    for n in _walk_local(node):
        if isinstance(n, (ast.Call, ast.Subscript, ast.Delete, ast.BinOp, ast.Assert)):
            return True
    return False


class _Flow:
    """Path-sensitive analysis of one method: which exits (`return` / falling off the end, `raise` / a statement that
    may raise) can be reached in which *touch state* (has the auto-update idiom run on this path, and on which
    object).  The result over-approximates the real paths (conditions are not interpreted, every statement that
    calls something is a possible raise point), so a statement "for every outcome ..." about it holds for the code.

    summaries: (name, is_setter) -> (touches on normal return, touches when it raises) of the methods reachable as
    `self.name(...)` / `self.name = ...` through the class's MRO."""

    def __init__(self, cls, fn, lookup):
        self.where = "%s.%s" % (cls, fn.name)
        self.lookup = lookup
        self.outcomes = set()
        self.idiom_nodes = set()
        self.raise_states = set()
        self.loop_exits = []

    def comb(self, s, t):
        if t == "none":
            return s
        if s != "none" and s != t:
            raise ExtractError("%s: the idiom acts on different objects on one path" % self.where)
        return t

    def effects(self, node, S):
        """calls / assignments through `self` that run another method of the object, then the raise point"""
        if node is None:
            return S
        callees = []
        for n in _walk_local(node):
            if isinstance(n, ast.Call) and isinstance(n.func, ast.Attribute) and isinstance(n.func.value, ast.Name) \
                    and n.func.value.id == "self":
                callees.append((n.func.attr, False))
            if isinstance(n, (ast.Assign, ast.AugAssign)):
                for t in (n.targets if isinstance(n, ast.Assign) else [n.target]):
                    if isinstance(t, ast.Attribute) and isinstance(t.value, ast.Name) and t.value.id == "self":
                        callees.append((t.attr, True))
        if _may_raise(node):
            for s in S:
                self.raise_at(s)
        for key in callees:
            summ = self.lookup(key)
            if summ is None:
                continue
            normal, raising = summ
            for s in S:
                for t in raising:
                    self.raise_at(self.comb(s, t))
            S = set(self.comb(s, t) for s in S for t in normal)
        return S

    def raise_at(self, s):
        self.outcomes.add(("raises", s))
        self.raise_states.add(s)

    def block(self, stmts, S):
        for st in stmts:
            if not S:
                break
            S = self.stmt(st, S)
        return S

    def stmt(self, st, S):
        if isinstance(st, ast.If) and _is_auto_test(st.test):
            tgt = _idiom_target(st, self.where)
            self.idiom_nodes.add(id(st))
            return set(self.comb(s, tgt) for s in S)
        if isinstance(st, (ast.FunctionDef, ast.AsyncFunctionDef, ast.ClassDef, ast.Pass, ast.Global, ast.Nonlocal,
                           ast.Import, ast.ImportFrom)):
            return S
        if isinstance(st, ast.Return):
            S = self.effects(st.value, S)
            for s in S:
                self.outcomes.add(("returns", s))
            return set()
        if isinstance(st, ast.Raise):
            S = self.effects(st.exc, S)
            for s in S:
                self.raise_at(s)
            return set()
        if isinstance(st, ast.If):
            S = self.effects(st.test, S)
            return self.block(st.body, set(S)) | self.block(st.orelse, set(S))
        if isinstance(st, (ast.For, ast.AsyncFor, ast.While)):
            S = self.effects(st.iter if not isinstance(st, ast.While) else st.test, S)
            out = set(S)
            self.loop_exits.append(set())
            for _ in range(5):
                nxt = self.block(st.body, set(out)) | self.loop_exits[-1]
                if nxt <= out:
                    break
                out |= nxt
            self.loop_exits.pop()
            return out | self.block(st.orelse, set(out))
        if isinstance(st, (ast.Break, ast.Continue)):
            if self.loop_exits:
                self.loop_exits[-1] |= S
            return set()
        if isinstance(st, ast.Try):
            before = set(self.raise_states)
            self.raise_states = set()
            body_out = self.block(st.body, set(S))
            caught = S | body_out | self.raise_states
            self.raise_states |= before
            h_out = set()
            for h in st.handlers:
                h_out |= self.block(h.body, set(caught))
            res = (self.block(st.orelse, set(body_out)) if st.orelse else body_out) | h_out
            if st.finalbody:
                res = self.block(st.finalbody, res | caught)
            return res
        if isinstance(st, (ast.With, ast.AsyncWith)):
            for it in st.items:
                S = self.effects(it.context_expr, S)
            return self.block(st.body, S)
        if isinstance(st, ast.Match):
            S = self.effects(st.subject, S)
            out = set(S)
            for c in st.cases:
                out |= self.block(c.body, set(S))
            return out
        # simple statements
        return self.effects(st, S)


GETTERS = {"created_at": "created", "updated_at": "updated"}


def _getter_body(fn):
    """the body of a `created_at` / `updated_at` getter: ("parsesStored", "created"|"updated") when it is exactly
    `return util.str_to_time(<the stored attribute>)` — no state in the Python object —, ("other",) otherwise"""
    body = _strip_doc(fn.body)
    if len(body) == 1 and isinstance(body[0], ast.Return) and _is_util_call(body[0].value, "str_to_time", 1):
        x = body[0].value.args[0]
        # self._h5group.get_attr("created_at")
        if (isinstance(x, ast.Call) and isinstance(x.func, ast.Attribute) and x.func.attr == "get_attr"
                and (_is_self_attr_chain(x.func.value, ["_h5group"]) or _is_self_attr_chain(x.func.value, ["_h5dataset"]))
                and len(x.args) == 1 and not x.keywords and isinstance(x.args[0], ast.Constant)
                and x.args[0].value in GETTERS):
            return ("parsesStored", GETTERS[x.args[0].value])
        # self._h5file.attrs["created_at"]
        if (isinstance(x, ast.Subscript) and _is_self_attr_chain(x.value, ["_h5file", "attrs"])
                and isinstance(x.slice, ast.Constant) and x.slice.value in GETTERS):
            return ("parsesStored", GETTERS[x.slice.value])
    return ("other",)


def _analyse_function(cls, fn, lookup):
    """-> sorted list of outcomes (exit, touch) of one method"""
    body = _strip_doc(fn.body)
    fl = _Flow(cls, fn, lookup)
    end = fl.block(body, {"none"})
    for s in end:
        fl.outcomes.add(("returns", s))
    _scan_machinery(cls, fn, body, fl.idiom_nodes)
    # an auto-update test anywhere the flow did not reach (dead code after a return) is still a use of the machinery
    for n in _walk_local(fn):
        if isinstance(n, ast.If) and _is_auto_test(n.test) and id(n) not in fl.idiom_nodes:
            raise ExtractError("%s.%s: unreachable auto-update idiom" % (cls, fn.name))
    order = {"returns": 0, "raises": 1, "none": 0, "self": 1, "parent": 2}
    return sorted(fl.outcomes, key=lambda o: (order[o[0]], order[o[1]]))


def _c3(name, bases, memo):
    if name in memo:
        return memo[name]
    seqs = [list(_c3(b, bases, memo)) for b in bases[name]] + [list(bases[name])]
    res = [name]
    while any(seqs):
        seqs = [s for s in seqs if s]
        for s in seqs:
            cand = s[0]
            if not any(cand in t[1:] for t in seqs):
                break
        else:
            raise ExtractError("inconsistent class hierarchy at %s" % name)
        res.append(cand)
        for s in seqs:
            if s and s[0] == cand:
                del s[0]
    memo[name] = res
    return res


def scan_repo(repo):
    """-> (classes: {name: [bases]}, order: [names], members: [(cls, name, kind, touch, last)])"""
    files = sorted(glob.glob(os.path.join(repo, "nixio", "*.py")))
    if not files:
        raise ExtractError("no nixio/*.py under %s" % repo)
    classes = {}
    order = []
    fns = {}
    for f in files:
        if os.path.basename(f) in SKIP_MODULES:
            continue
        tree = ast.parse(open(f, encoding="utf-8").read(), filename=f)
        for c in tree.body:
            if not isinstance(c, ast.ClassDef):
                continue
            bases = [b.id if isinstance(b, ast.Name) else ast.unparse(b) for b in c.bases]
            if "Enum" in bases:
                continue
            if c.name in classes:
                raise ExtractError("class %s defined twice" % c.name)
            classes[c.name] = bases
            order.append(c.name)
            fns[c.name] = [m for m in c.body if isinstance(m, ast.FunctionDef)]
    for need in ("Entity", "File", "Feature", "Property"):
        if need not in classes:
            raise ExtractError("class %s not found" % need)
    for c in classes:
        classes[c] = [b for b in classes[c] if b in classes]
    memo = {}
    mro = {c: _c3(c, classes, memo) for c in order}
    # summaries of the methods of every class, iterated to a fixpoint (a method may run another one through `self`)
    summ = {}      # (cls, name, is_setter) -> (frozenset normal touches, frozenset raising touches)
    getters = {}   # (cls, "created_at"|"updated_at") -> body shape
    forces = {}    # (cls, "force_created_at"|"force_updated_at") -> body is the canonical one

    def analyse_all():
        results = {}
        for c in order:
            def lookup(key, c=c):
                for c2 in mro[c]:
                    if (c2,) + key in summ:
                        return summ[(c2,) + key]
                return None
            for m in fns[c]:
                decs = [ast.unparse(d) for d in m.decorator_list]
                if "property" in decs:
                    if any(isinstance(n, ast.If) and _is_auto_test(n.test) for n in ast.walk(m)):
                        raise ExtractError("%s.%s: a getter contains the auto-update idiom" % (c, m.name))
                    if m.name in GETTERS:
                        getters[(c, m.name)] = _getter_body(m)
                    continue
                is_setter = any(d.endswith(".setter") for d in decs)
                if m.name in FORCE and not is_setter:
                    forces[(c, m.name)] = _force_canonical(m, FORCE[m.name])
                    kind = "forceCreated" if m.name == "force_created_at" else "forceUpdated"
                    results[(c, m.name, False)] = (kind, [])
                    continue
                outs = _analyse_function(c, m, lookup)
                if any(d.endswith(".deleter") for d in decs):
                    results[(c, m.name + "__deleter", False)] = ("method", outs)
                    continue
                if (c, m.name, is_setter) in results:
                    raise ExtractError("%s.%s defined twice" % (c, m.name))
                results[(c, m.name, is_setter)] = ("setter" if is_setter else "method", outs)
        return results

    results = {}
    for _round in range(6):
        results = analyse_all()
        new = {}
        for key, (kind, outs) in results.items():
            if kind in ("setter", "method"):
                new[key] = (frozenset(t for e, t in outs if e == "returns"),
                            frozenset(t for e, t in outs if e == "raises"))
        if new == summ:
            break
        summ = new
    else:
        raise ExtractError("the method summaries do not stabilise")
    members = []
    seen = set()
    for (c, n, s), (k, outs) in results.items():
        if (c, n) in seen:
            raise ExtractError("%s.%s defined twice" % (c, n))
        seen.add((c, n))
        members.append((c, n, k, outs))
    return classes, order, members, mro, getters, forces


def _mem_id(n):
    return "m_" + n


def extract(repo):
    classes, order, members, mro, getters, forces = scan_repo(repo)
    memnames = []
    for _, n, _, _ in members:
        if n not in memnames:
            memnames.append(n)
    for n in memnames + order:
        if not n.isidentifier() or not n.isascii():
            raise ExtractError("name %r cannot be rendered" % n)
    L = []
    L.append("/- GENERATED by harness/extract/setters.py from nixio/*.py — do not edit. -/")
    L.append("namespace Nix.Stamps.Gen")
    L.append("")
    L.append("/-- classes of nixio/*.py (enums and exceptions excluded) -/")
    L.append("inductive Cls where")
    for c in order:
        L.append("  | %s" % c)
    L.append("  deriving DecidableEq, Repr")
    L.append("")
    L.append("/-- names of methods and property setters (getters excluded) -/")
    L.append("inductive Mem where")
    for n in memnames:
        L.append("  | %s" % _mem_id(n))
    L.append("  deriving DecidableEq, Repr")
    L.append("")
    L.append("inductive MKind where | setter | method | forceCreated | forceUpdated")
    L.append("  deriving DecidableEq, Repr")
    L.append("/-- object on which the `if self.file.auto_update_timestamps: X.force_updated_at()` idiom acts -/")
    L.append("inductive Touch where | none | self | parent")
    L.append("  deriving DecidableEq, Repr")
    L.append("")
    L.append("/-- how a path through a method ends: `return` / falling off the end, or an exception (an explicit")
    L.append("`raise`, or a statement that calls, subscripts or deletes something and may therefore raise) -/")
    L.append("inductive Exit where | returns | raises")
    L.append("  deriving DecidableEq, Repr")
    L.append("/-- one way a call can end: the exit and whether the idiom ran on that path before it (with the switch on,")
    L.append("`touch` names the object whose `updated_at` has been written when the exit is reached).  The list of a")
    L.append("member over-approximates the paths of the source: conditions are not interpreted. -/")
    L.append("structure Outcome where")
    L.append("  exit : Exit")
    L.append("  touch : Touch")
    L.append("  deriving DecidableEq, Repr")
    L.append("")
    L.append("structure Member where")
    L.append("  cls : Cls")
    L.append("  mem : Mem")
    L.append("  kind : MKind")
    L.append("  /-- every (exit, touch state) some path through the body can reach -/")
    L.append("  outcomes : List Outcome")
    L.append("  deriving DecidableEq, Repr")
    L.append("")
    L.append("def members : List Member := [")
    rows = []
    for c, n, k, outs in members:
        rows.append("  ⟨.%s, .%s, .%s, [%s]⟩" % (c, _mem_id(n), k, ", ".join("⟨.%s, .%s⟩" % o for o in outs)))
    L.append(",\n".join(rows))
    L.append("]")
    L.append("")
    L.append("/-- the two time stamp attributes -/")
    L.append("inductive StampAttr where | created | updated")
    L.append("  deriving DecidableEq, Repr")
    L.append("/-- body of a `created_at` / `updated_at` getter: exactly `return util.str_to_time(<stored attribute a>)`")
    L.append("(the Python object keeps no copy), or anything else -/")
    L.append("inductive GetterBody where | parsesStored (a : StampAttr) | other")
    L.append("  deriving DecidableEq, Repr")
    L.append("structure StampGetter where")
    L.append("  cls : Cls")
    L.append("  attr : StampAttr")
    L.append("  body : GetterBody")
    L.append("  deriving DecidableEq, Repr")
    L.append("")
    L.append("def stampGetters : List StampGetter := [")
    grows = []
    for (c, n), b in getters.items():
        grows.append("  ⟨.%s, .%s, %s⟩" % (c, GETTERS[n], ".parsesStored .%s" % b[1] if b[0] == "parsesStored" else ".other"))
    L.append(",\n".join(grows))
    L.append("]")
    L.append("")
    L.append("/-- `force_created_at` / `force_updated_at` as defined by a class: `canonical` = the body is exactly")
    L.append("`if time is None: time = util.now_int() else: util.check_attr_type(time, int)` followed by the write of")
    L.append("`util.time_to_str(time)` to that attribute, signature `(self, time=None)` -/")
    L.append("structure ForceDef where")
    L.append("  cls : Cls")
    L.append("  attr : StampAttr")
    L.append("  canonical : Bool")
    L.append("  deriving DecidableEq, Repr")
    L.append("")
    L.append("def forceDefs : List ForceDef := [")
    L.append(",\n".join("  ⟨.%s, .%s, %s⟩" % (c, GETTERS[FORCE[n]], lean_bool(ok)) for (c, n), ok in forces.items()))
    L.append("]")
    L.append("")
    L.append("/-- Python's method resolution order (C3), restricted to the classes above -/")
    L.append("def mro : Cls → List Cls")
    for c in order:
        L.append("  | .%s => [%s]" % (c, ", ".join("." + x for x in mro[c])))
    L.append("")
    L.append("def Cls.ofString : String → Option Cls")
    for c in order:
        L.append("  | %s => some .%s" % (lean_str(c), c))
    L.append("  | _ => none")
    L.append("")
    L.append("def Mem.ofString : String → Option Mem")
    for n in memnames:
        L.append("  | %s => some .%s" % (lean_str(n), _mem_id(n)))
    L.append("  | _ => none")
    L.append("")
    L.append("end Nix.Stamps.Gen")
    return {"NixModel/Generated/Setters.lean": "\n".join(L) + "\n"}


if __name__ == "__main__":
    import sys
    for k, v in extract(sys.argv[1] if len(sys.argv) > 1 else "/repo").items():
        print("==", k)
        print(v)
