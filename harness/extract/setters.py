"""Translator: every class of nixio/*.py  ->  NixModel/Generated/Setters.lean   (used by C19)

For every method / property setter of every class the table records whether its body contains the
auto-update idiom

    if self.file.auto_update_timestamps:
        self.force_updated_at()

(or the inline variant of feature.py: `time = util.now_int(); self._h5group.set_attr("updated_at",
util.time_to_str(time))`), on which object it acts, and whether it is the last effectful statement.
The shapes of `force_created_at` / `force_updated_at` are verified.  The method resolution order of
every class is rendered as well, so that the Lean model resolves `Tag.definition` to `Entity.definition`
exactly as Python does.  Parsed with `ast`, never imported.  Anything that mentions the time stamp
machinery in a shape that is not recognised raises ExtractError (a broken tie).
"""
import ast
import glob
import os

from .leanfmt import ExtractError, lean_str, lean_bool

SKIP_MODULES = {"__init__.py", "info.py", "validator.py"}
STAMP_WORDS = ("updated_at", "created_at", "force_updated_at", "force_created_at", "auto_update_timestamps",
               "now_int", "time_to_str")
# functions that legitimately mention the machinery outside the idiom
EXEMPT = {("File", "__init__"), ("File", "open"), ("File", "auto_update_timestamps")}
CREATORS = {"create_new", "__init__"}
FORCE = {"force_created_at": "created_at", "force_updated_at": "updated_at"}


def _is_self_attr_chain(node, chain):
    """node is self.<chain[0]>.<chain[1]>..."""
    for name in reversed(chain):
        if not (isinstance(node, ast.Attribute) and node.attr == name):
            return False
        node = node.value
    return isinstance(node, ast.Name) and node.id == "self"


def _is_auto_test(node):
    return (_is_self_attr_chain(node, ["file", "auto_update_timestamps"]) or
            _is_self_attr_chain(node, ["_file", "auto_update_timestamps"]) or
            _is_self_attr_chain(node, ["auto_update_timestamps"]) or
            _is_self_attr_chain(node, ["_auto_update_timestamps"]))


def _is_util_call(node, fname, nargs):
    return (isinstance(node, ast.Call) and isinstance(node.func, ast.Attribute) and node.func.attr == fname
            and isinstance(node.func.value, ast.Name) and node.func.value.id == "util"
            and len(node.args) == nargs and not node.keywords)


def _idiom_target(ifnode, where):
    """'self' | 'parent' for a recognised idiom `If`; ExtractError otherwise"""
    if ifnode.orelse:
        raise ExtractError("%s: auto-update test with an else branch" % where)
    body = ifnode.body
    if len(body) == 1 and isinstance(body[0], ast.Expr) and isinstance(body[0].value, ast.Call):
        c = body[0].value
        if (isinstance(c.func, ast.Attribute) and c.func.attr == "force_updated_at" and not c.args
                and not c.keywords):
            tgt = c.func.value
            if isinstance(tgt, ast.Name) and tgt.id == "self":
                return "self"
            if _is_self_attr_chain(tgt, ["_parent"]) or _is_self_attr_chain(tgt, ["parent"]):
                return "parent"
            raise ExtractError("%s: force_updated_at() on an object the translator does not know: %s"
                               % (where, ast.unparse(tgt)))
    if len(body) == 2 and isinstance(body[0], ast.Assign) and isinstance(body[1], ast.Expr):
        a, e = body
        if (len(a.targets) == 1 and isinstance(a.targets[0], ast.Name) and _is_util_call(a.value, "now_int", 0)):
            var = a.targets[0].id
            c = e.value
            if (isinstance(c, ast.Call) and isinstance(c.func, ast.Attribute) and c.func.attr == "set_attr"
                    and _is_self_attr_chain(c.func.value, ["_h5group"]) and len(c.args) == 2
                    and isinstance(c.args[0], ast.Constant) and c.args[0].value == "updated_at"
                    and _is_util_call(c.args[1], "time_to_str", 1)
                    and isinstance(c.args[1].args[0], ast.Name) and c.args[1].args[0].id == var):
                return "self"
    raise ExtractError("%s: auto-update test guards something other than the force_updated_at() idiom" % where)


def _mentions(node):
    """does the subtree mention the time stamp machinery"""
    for n in ast.walk(node):
        if isinstance(n, ast.Attribute) and n.attr in STAMP_WORDS:
            return True
        if isinstance(n, ast.Name) and n.id in STAMP_WORDS:
            return True
        if isinstance(n, ast.Constant) and n.value in ("updated_at", "created_at"):
            return True
    return False


def _strip_doc(body):
    if body and isinstance(body[0], ast.Expr) and isinstance(body[0].value, ast.Constant) \
            and isinstance(body[0].value.value, str):
        return body[1:]
    return body


def _check_force_shape(cls, fn, attr):
    where = "%s.%s" % (cls, fn.name)
    args = fn.args
    if [a.arg for a in args.args] != ["self", "time"] or len(args.defaults) != 1 \
            or not (isinstance(args.defaults[0], ast.Constant) and args.defaults[0].value is None):
        raise ExtractError("%s: signature is not (self, time=None)" % where)
    body = _strip_doc(fn.body)
    if len(body) != 2 or not isinstance(body[0], ast.If):
        raise ExtractError("%s: body is not `if time is None: ... else: ...; <write>`" % where)
    iff, wr = body
    t = iff.test
    if not (isinstance(t, ast.Compare) and isinstance(t.left, ast.Name) and t.left.id == "time"
            and len(t.ops) == 1 and isinstance(t.ops[0], ast.Is)
            and isinstance(t.comparators[0], ast.Constant) and t.comparators[0].value is None):
        raise ExtractError("%s: first test is not `time is None`" % where)
    if not (len(iff.body) == 1 and isinstance(iff.body[0], ast.Assign)
            and isinstance(iff.body[0].targets[0], ast.Name) and iff.body[0].targets[0].id == "time"
            and _is_util_call(iff.body[0].value, "now_int", 0)):
        raise ExtractError("%s: default is not util.now_int()" % where)
    ok_else = (len(iff.orelse) == 1 and isinstance(iff.orelse[0], ast.Expr)
               and _is_util_call(iff.orelse[0].value, "check_attr_type", 2)
               and isinstance(iff.orelse[0].value.args[0], ast.Name) and iff.orelse[0].value.args[0].id == "time"
               and isinstance(iff.orelse[0].value.args[1], ast.Name) and iff.orelse[0].value.args[1].id == "int")
    if not ok_else:
        raise ExtractError("%s: explicit time is not checked with util.check_attr_type(time, int)" % where)

    def is_tts(v):
        return _is_util_call(v, "time_to_str", 1) and isinstance(v.args[0], ast.Name) and v.args[0].id == "time"
    good = False
    if isinstance(wr, ast.Expr) and isinstance(wr.value, ast.Call):
        c = wr.value
        good = (isinstance(c.func, ast.Attribute) and c.func.attr == "set_attr" and len(c.args) == 2
                and isinstance(c.args[0], ast.Constant) and c.args[0].value == attr and is_tts(c.args[1]))
    elif isinstance(wr, ast.Assign) and len(wr.targets) == 1 and isinstance(wr.targets[0], ast.Subscript):
        sl = wr.targets[0].slice
        good = isinstance(sl, ast.Constant) and sl.value == attr and is_tts(wr.value)
    if not good:
        raise ExtractError("%s: does not write util.time_to_str(time) to %r" % (where, attr))


def _analyse_function(cls, fn, selftouch):
    """-> (touch, last) for one method; `selftouch` = names of methods of the same class already known to touch
    self on every normal path (used for `self.m(); return` before an early return)"""
    where = "%s.%s" % (cls, fn.name)
    body = _strip_doc(fn.body)
    idioms = []           # (If node, target)

    class V(ast.NodeVisitor):
        def __init__(self):
            self.stack = []

        def generic_visit(self, node):
            self.stack.append(node)
            super().generic_visit(node)
            self.stack.pop()

        def visit_If(self, node):
            if _is_auto_test(node.test):
                idioms.append((node, _idiom_target(node, where), list(self.stack)))
                return  # do not descend
            self.generic_visit(node)

    v = V()
    for st in body:
        v.visit(st)

    # anything else that mentions the machinery?
    idiom_nodes = set(id(i[0]) for i in idioms)

    def scan(node):
        if id(node) in idiom_nodes:
            return
        if isinstance(node, (ast.Attribute, ast.Name, ast.Constant)):
            if _mentions(node) and not isinstance(node, ast.Attribute):
                raise ExtractError("%s: time stamp machinery used outside the recognised idiom" % where)
            if isinstance(node, ast.Attribute) and node.attr in STAMP_WORDS:
                raise ExtractError("%s: time stamp machinery used outside the recognised idiom (%s)"
                                   % (where, node.attr))
        for ch in ast.iter_child_nodes(node):
            scan(ch)

    if (cls, fn.name) not in EXEMPT and fn.name not in CREATORS and fn.name not in FORCE:
        for st in body:
            scan(st)

    if not idioms:
        return "none", False
    targets = set(t for _, t, _ in idioms)
    if len(targets) != 1:
        raise ExtractError("%s: idiom acts on different objects" % where)
    target = targets.pop()
    top = [i for i in idioms if not i[2]]
    if not top:
        raise ExtractError("%s: the idiom only occurs conditionally (nested in %s)"
                           % (where, type(idioms[0][2][-1]).__name__))
    # position of the last top-level idiom
    idx = max(k for k, st in enumerate(body) if any(st is i[0] for i in top))
    rest = body[idx + 1:]
    last = all(isinstance(st, ast.Return) and (st.value is None or isinstance(st.value, (ast.Name, ast.Constant)))
               for st in rest)
    # every early `return` before the idiom must itself be preceded by a touch
    def check_block(stmts):
        for k, st in enumerate(stmts):
            if isinstance(st, ast.Return):
                prev = stmts[k - 1] if k > 0 else None
                ok = False
                if prev is not None:
                    if isinstance(prev, ast.If) and id(prev) in idiom_nodes:
                        ok = True
                    elif (isinstance(prev, ast.Expr) and isinstance(prev.value, ast.Call)
                          and isinstance(prev.value.func, ast.Attribute)
                          and isinstance(prev.value.func.value, ast.Name) and prev.value.func.value.id == "self"
                          and selftouch is not None and prev.value.func.attr in selftouch
                          and target == "self"):
                        ok = True
                if not ok and selftouch is not None:
                    raise ExtractError("%s: a `return` before the idiom skips the time stamp update" % where)
            for fld in ("body", "orelse", "finalbody"):
                sub = getattr(st, fld, None)
                if isinstance(sub, list) and not (isinstance(st, ast.If) and id(st) in idiom_nodes) \
                        and not isinstance(st, (ast.FunctionDef, ast.ClassDef, ast.Lambda)):
                    check_block(sub)
            if isinstance(st, ast.Try):
                for h in st.handlers:
                    check_block(h.body)
    check_block(body[:idx])
    return target, last


def _c3(name, bases, memo):
    if name in memo:
        return memo[name]
    seqs = [list(_c3(b, bases, memo)) for b in bases[name]] + [list(bases[name])]
    res = [name]
    while any(seqs):
        seqs = [s for s in seqs if s]
        for s in seqs:
            cand = s[0]
            if not any(cand in t[1:] for t in seqs):
                break
        else:
            raise ExtractError("inconsistent class hierarchy at %s" % name)
        res.append(cand)
        for s in seqs:
            if s and s[0] == cand:
                del s[0]
    memo[name] = res
    return res


def scan_repo(repo):
    """-> (classes: {name: [bases]}, order: [names], members: [(cls, name, kind, touch, last)])"""
    files = sorted(glob.glob(os.path.join(repo, "nixio", "*.py")))
    if not files:
        raise ExtractError("no nixio/*.py under %s" % repo)
    classes = {}
    order = []
    fns = {}
    for f in files:
        if os.path.basename(f) in SKIP_MODULES:
            continue
        tree = ast.parse(open(f, encoding="utf-8").read(), filename=f)
        for c in tree.body:
            if not isinstance(c, ast.ClassDef):
                continue
            bases = [b.id if isinstance(b, ast.Name) else ast.unparse(b) for b in c.bases]
            if "Enum" in bases:
                continue
            if c.name in classes:
                raise ExtractError("class %s defined twice" % c.name)
            classes[c.name] = bases
            order.append(c.name)
            fns[c.name] = [m for m in c.body if isinstance(m, ast.FunctionDef)]
    for need in ("Entity", "File", "Feature", "Property"):
        if need not in classes:
            raise ExtractError("class %s not found" % need)
    for c in classes:
        classes[c] = [b for b in classes[c] if b in classes]
    members = []
    for c in order:
        # two passes so that `self.m(); return` can refer to methods defined later in the class
        selftouch = None      # first pass: lenient (collect the candidates), then strict
        results = {}
        for _round in range(2):
            results = {}
            for m in fns[c]:
                decs = [ast.unparse(d) for d in m.decorator_list]
                if "property" in decs:
                    if any(isinstance(n, ast.If) and _is_auto_test(n.test) for n in ast.walk(m)):
                        raise ExtractError("%s.%s: a getter contains the auto-update idiom" % (c, m.name))
                    continue
                is_setter = any(d.endswith(".setter") for d in decs)
                if m.name in FORCE and not is_setter:
                    _check_force_shape(c, m, FORCE[m.name])
                    kind = "forceCreated" if m.name == "force_created_at" else "forceUpdated"
                    results[(m.name, is_setter)] = (kind, "none", False)
                    continue
                touch, last = _analyse_function(c, m, selftouch)
                if any(d.endswith(".deleter") for d in decs):
                    results[(m.name + "__deleter", False)] = ("method", touch, last)
                    continue
                results[(m.name, is_setter)] = ("setter" if is_setter else "method", touch, last)
            new = set(n for (n, s), (k, t, l) in results.items() if t == "self" and not s)
            selftouch = new
        seen = set()
        for (n, s), (k, t, l) in results.items():
            if n in seen:
                raise ExtractError("%s.%s defined twice" % (c, n))
            seen.add(n)
            members.append((c, n, k, t, l))
    memo = {}
    mro = {c: _c3(c, classes, memo) for c in order}
    return classes, order, members, mro


def _mem_id(n):
    return "m_" + n


def extract(repo):
    classes, order, members, mro = scan_repo(repo)
    memnames = []
    for _, n, _, _, _ in members:
        if n not in memnames:
            memnames.append(n)
    for n in memnames + order:
        if not n.isidentifier() or not n.isascii():
            raise ExtractError("name %r cannot be rendered" % n)
    L = []
    L.append("/- GENERATED by harness/extract/setters.py from nixio/*.py — do not edit. -/")
    L.append("namespace Nix.Stamps.Gen")
    L.append("")
    L.append("/-- classes of nixio/*.py (enums and exceptions excluded) -/")
    L.append("inductive Cls where")
    for c in order:
        L.append("  | %s" % c)
    L.append("  deriving DecidableEq, Repr")
    L.append("")
    L.append("/-- names of methods and property setters (getters excluded) -/")
    L.append("inductive Mem where")
    for n in memnames:
        L.append("  | %s" % _mem_id(n))
    L.append("  deriving DecidableEq, Repr")
    L.append("")
    L.append("inductive MKind where | setter | method | forceCreated | forceUpdated")
    L.append("  deriving DecidableEq, Repr")
    L.append("/-- object on which the `if self.file.auto_update_timestamps: X.force_updated_at()` idiom acts -/")
    L.append("inductive Touch where | none | self | parent")
    L.append("  deriving DecidableEq, Repr")
    L.append("")
    L.append("structure Member where")
    L.append("  cls : Cls")
    L.append("  mem : Mem")
    L.append("  kind : MKind")
    L.append("  touch : Touch")
    L.append("  /-- the idiom is the last effectful statement (nothing after it can refuse the call) -/")
    L.append("  last : Bool")
    L.append("  deriving DecidableEq, Repr")
    L.append("")
    L.append("def members : List Member := [")
    rows = []
    for c, n, k, t, l in members:
        rows.append("  ⟨.%s, .%s, .%s, .%s, %s⟩" % (c, _mem_id(n), k, t, lean_bool(l)))
    L.append(",\n".join(rows))
    L.append("]")
    L.append("")
    L.append("/-- Python's method resolution order (C3), restricted to the classes above -/")
    L.append("def mro : Cls → List Cls")
    for c in order:
        L.append("  | .%s => [%s]" % (c, ", ".join("." + x for x in mro[c])))
    L.append("")
    L.append("def Cls.ofString : String → Option Cls")
    for c in order:
        L.append("  | %s => some .%s" % (lean_str(c), c))
    L.append("  | _ => none")
    L.append("")
    L.append("def Mem.ofString : String → Option Mem")
    for n in memnames:
        L.append("  | %s => some .%s" % (lean_str(n), _mem_id(n)))
    L.append("  | _ => none")
    L.append("")
    L.append("end Nix.Stamps.Gen")
    return {"NixModel/Generated/Setters.lean": "\n".join(L) + "\n"}


if __name__ == "__main__":
    import sys
    for k, v in extract(sys.argv[1] if len(sys.argv) > 1 else "/repo").items():
        print("==", k)
        print(v)
