"""Translator: every class of nixio/*.py  ->  NixModel/Generated/Setters.lean   (used by C19)

For every method / property setter of every class the table records, path by path, where the
auto-update idiom

    if self.file.auto_update_timestamps:
        self.force_updated_at()

(or the inline variant of feature.py: `time = util.now_int(); self._h5group.set_attr("updated_at",
util.time_to_str(time))`) runs: the *outcomes* of a member are all pairs (exit, touch) such that some
path through the body reaches that exit (`returns`: a `return` or the end of the body; `raises`: a
`raise` or a statement that may raise) after the idiom has run on `touch` (none / self / parent).  An
early `return` that skips the idiom, an idiom under a condition, a statement after the idiom that can
still refuse the call: each shows up as an outcome, and the theorems of C19 quantify over them.
Methods run through `self` (`self.delete_values()`, `self.x = v`) contribute their own outcomes
(summaries iterated to a fixpoint over Python's MRO).
The shapes of `force_created_at` / `force_updated_at` (canonical or not) and the bodies of the
`created_at` / `updated_at` getters are rendered as tables as well.  The method resolution order of
every class is rendered as well, so that the Lean model resolves `Tag.definition` to `Entity.definition`
exactly as Python does.  Parsed with `ast`, never imported.  Anything that mentions the time stamp
machinery in a shape that is not recognised raises ExtractError (a broken tie).
"""
import ast
import glob
import os

from .leanfmt import ExtractError, lean_str, lean_bool

SKIP_MODULES = {"__init__.py", "info.py", "validator.py"}
STAMP_WORDS = ("updated_at", "created_at", "force_updated_at", "force_created_at", "auto_update_timestamps",
               "now_int", "time_to_str")
# functions that legitimately mention the machinery outside the idiom
EXEMPT = {("File", "__init__"), ("File", "open"), ("File", "auto_update_timestamps")}
CREATORS = {"create_new"}
SWITCH_NAMES = ("auto_update_timestamps", "_auto_update_timestamps")
FORCE = {"force_created_at": "created_at", "force_updated_at": "updated_at"}


def _is_self_attr_chain(node, chain):
    """node is self.<chain[0]>.<chain[1]>..."""
    for name in reversed(chain):
        if not (isinstance(node, ast.Attribute) and node.attr == name):
            return False
        node = node.value
    return isinstance(node, ast.Name) and node.id == "self"


def _is_auto_test(node):
    return (_is_self_attr_chain(node, ["file", "auto_update_timestamps"]) or
            _is_self_attr_chain(node, ["_file", "auto_update_timestamps"]) or
            _is_self_attr_chain(node, ["auto_update_timestamps"]) or
            _is_self_attr_chain(node, ["_auto_update_timestamps"]))


def _is_util_call(node, fname, nargs):
    return (isinstance(node, ast.Call) and isinstance(node.func, ast.Attribute) and node.func.attr == fname
            and isinstance(node.func.value, ast.Name) and node.func.value.id == "util"
            and len(node.args) == nargs and not node.keywords)


def _linked_var(fn, name):
    """is `name` a local bound exactly once in the function, by `name = self._linked_group()` (the HDF5 group of the
    data object a DimensionLink points to)"""
    if fn is None:
        return False
    binds = []
    for n in _walk_local(fn):
        if isinstance(n, ast.Name) and n.id == name and isinstance(n.ctx, (ast.Store, ast.Del)):
            binds.append(n)
    if len(binds) != 1:
        return False
    for n in _walk_local(fn):
        if (isinstance(n, ast.Assign) and len(n.targets) == 1 and n.targets[0] is binds[0]
                and isinstance(n.value, ast.Call) and not n.value.args and not n.value.keywords
                and _is_self_attr_chain(n.value.func, ["_linked_group"])):
            return True
    return False


def _idiom_target(ifnode, where, fn=None):
    """'self' | 'parent' | 'linked' for a recognised idiom `If`; ExtractError otherwise"""
    if ifnode.orelse:
        raise ExtractError("%s: auto-update test with an else branch" % where)
    body = ifnode.body
    if len(body) == 1 and isinstance(body[0], ast.Expr) and isinstance(body[0].value, ast.Call):
        c = body[0].value
        if (isinstance(c.func, ast.Attribute) and c.func.attr == "force_updated_at" and not c.args
                and not c.keywords):
            tgt = c.func.value
            if isinstance(tgt, ast.Name) and tgt.id == "self":
                return "self"
            if _is_self_attr_chain(tgt, ["_parent"]) or _is_self_attr_chain(tgt, ["parent"]):
                return "parent"
            raise ExtractError("%s: force_updated_at() on an object the translator does not know: %s"
                               % (where, ast.unparse(tgt)))
    if len(body) == 2 and isinstance(body[0], ast.Assign) and isinstance(body[1], ast.Expr):
        a, e = body
        if (len(a.targets) == 1 and isinstance(a.targets[0], ast.Name) and _is_util_call(a.value, "now_int", 0)):
            var = a.targets[0].id
            c = e.value
            if (isinstance(c, ast.Call) and isinstance(c.func, ast.Attribute) and c.func.attr == "set_attr"
                    and len(c.args) == 2 and not c.keywords
                    and isinstance(c.args[0], ast.Constant) and c.args[0].value == "updated_at"
                    and _is_util_call(c.args[1], "time_to_str", 1)
                    and isinstance(c.args[1].args[0], ast.Name) and c.args[1].args[0].id == var):
                if _is_self_attr_chain(c.func.value, ["_h5group"]):
                    return "self"
                # DimensionLink: the data object the link points to (`lobj = self._linked_group()`)
                if isinstance(c.func.value, ast.Name) and _linked_var(fn, c.func.value.id):
                    return "linked"
    raise ExtractError("%s: auto-update test guards something other than the force_updated_at() idiom" % where)


def _is_unguarded_force(st):
    """the statement `self.force_updated_at()` (no argument: the clock) standing by itself - NOT under the test of the
    switch: the object's updated_at is written whatever the switch says"""
    if not (isinstance(st, ast.Expr) and isinstance(st.value, ast.Call)):
        return False
    c = st.value
    return (isinstance(c.func, ast.Attribute) and c.func.attr == "force_updated_at" and not c.args and not c.keywords
            and isinstance(c.func.value, ast.Name) and c.func.value.id == "self")


def _mentions(node):
    """does the subtree mention the time stamp machinery"""
    for n in ast.walk(node):
        if isinstance(n, ast.Attribute) and n.attr in STAMP_WORDS:
            return True
        if isinstance(n, ast.Name) and n.id in STAMP_WORDS:
            return True
        if isinstance(n, ast.Constant) and n.value in ("updated_at", "created_at"):
            return True
    return False


def _strip_doc(body):
    if body and isinstance(body[0], ast.Expr) and isinstance(body[0].value, ast.Constant) \
            and isinstance(body[0].value.value, str):
        return body[1:]
    return body


def _force_canonical(fn, attr):
    """is the body of force_created_at / force_updated_at exactly

        if time is None: time = util.now_int()
        else: util.check_attr_type(time, int)
        <h5 object>.set_attr(attr, util.time_to_str(time))      (or  <h5 file>.attrs[attr] = util.time_to_str(time))

    with the signature (self, time=None)"""
    args = fn.args
    if [a.arg for a in args.args] != ["self", "time"] or len(args.defaults) != 1 \
            or not (isinstance(args.defaults[0], ast.Constant) and args.defaults[0].value is None) \
            or args.vararg or args.kwarg or args.kwonlyargs:
        return False
    body = _strip_doc(fn.body)
    if len(body) != 2 or not isinstance(body[0], ast.If):
        return False
    iff, wr = body
    t = iff.test
    if not (isinstance(t, ast.Compare) and isinstance(t.left, ast.Name) and t.left.id == "time"
            and len(t.ops) == 1 and isinstance(t.ops[0], ast.Is)
            and isinstance(t.comparators[0], ast.Constant) and t.comparators[0].value is None):
        return False
    if not (len(iff.body) == 1 and isinstance(iff.body[0], ast.Assign) and len(iff.body[0].targets) == 1
            and isinstance(iff.body[0].targets[0], ast.Name) and iff.body[0].targets[0].id == "time"
            and _is_util_call(iff.body[0].value, "now_int", 0)):
        return False
    ok_else = (len(iff.orelse) == 1 and isinstance(iff.orelse[0], ast.Expr)
               and _is_util_call(iff.orelse[0].value, "check_attr_type", 2)
               and isinstance(iff.orelse[0].value.args[0], ast.Name) and iff.orelse[0].value.args[0].id == "time"
               and isinstance(iff.orelse[0].value.args[1], ast.Name) and iff.orelse[0].value.args[1].id == "int")
    if not ok_else:
        return False

    def is_tts(v):
        return _is_util_call(v, "time_to_str", 1) and isinstance(v.args[0], ast.Name) and v.args[0].id == "time"
    good = False
    if isinstance(wr, ast.Expr) and isinstance(wr.value, ast.Call):
        c = wr.value
        good = (isinstance(c.func, ast.Attribute) and c.func.attr == "set_attr" and len(c.args) == 2
                and not c.keywords
                and isinstance(c.args[0], ast.Constant) and c.args[0].value == attr and is_tts(c.args[1]))
    elif isinstance(wr, ast.Assign) and len(wr.targets) == 1 and isinstance(wr.targets[0], ast.Subscript):
        sl = wr.targets[0].slice
        good = isinstance(sl, ast.Constant) and sl.value == attr and is_tts(wr.value)
    return good


def _walk_local(node):
    """ast.walk that does not descend into nested function / class definitions and lambdas"""
    todo = [node]
    while todo:
        n = todo.pop()
        yield n
        for ch in ast.iter_child_nodes(n):
            if not isinstance(ch, (ast.FunctionDef, ast.AsyncFunctionDef, ast.ClassDef, ast.Lambda)):
                todo.append(ch)


def _scan_machinery(cls, fn, body, idiom_nodes):
    """ExtractError when the time stamp machinery is used outside the recognised idiom"""
    where = "%s.%s" % (cls, fn.name)

    def scan(node):
        if id(node) in idiom_nodes:
            return
        if isinstance(node, (ast.Attribute, ast.Name, ast.Constant)):
            if _mentions(node) and not isinstance(node, ast.Attribute):
                raise ExtractError("%s: time stamp machinery used outside the recognised idiom" % where)
            if isinstance(node, ast.Attribute) and node.attr in STAMP_WORDS:
                raise ExtractError("%s: time stamp machinery used outside the recognised idiom (%s)"
                                   % (where, node.attr))
        for ch in ast.iter_child_nodes(node):
            scan(ch)

    if (cls, fn.name) not in EXEMPT and fn.name not in CREATORS and fn.name not in FORCE:
        for st in body:
            scan(st)


def _may_raise(node):
    """can evaluating this statement / expression raise: anything that calls, subscripts, deletes or computes"""
    if node is None:
        return False
    for n in _walk_local(node):
        if isinstance(n, (ast.Call, ast.Subscript, ast.Delete, ast.BinOp, ast.Assert)):
            return True
    return False


class _Flow:
    """Path-sensitive analysis of one method: which exits (`return` / falling off the end, `raise` / a statement that
    may raise) can be reached in which *touch state* (has the auto-update idiom run on this path, and on which
    object).  The result over-approximates the real paths (conditions are not interpreted, every statement that
    calls something is a possible raise point), so a statement "for every outcome ..." about it holds for the code.

    summaries: (name, is_setter) -> (touches on normal return, touches when it raises) of the methods reachable as
    `self.name(...)` / `self.name = ...` through the class's MRO."""

    def __init__(self, cls, fn, lookup):
        self.where = "%s.%s" % (cls, fn.name)
        # (File.__init__, the create_new class methods and the force methods themselves use the machinery in their
        # own ways: rendered separately, see scan_creation / _force_canonical)
        self.plain = (cls, fn.name) not in EXEMPT and fn.name not in CREATORS and fn.name not in FORCE
        self.fn = fn
        self.lookup = lookup
        self.outcomes = set()
        self.idiom_nodes = set()
        self.raise_states = set()
        self.loop_exits = []

    def comb(self, s, t):
        """touch state s, then t (`always`: this object's updated_at written outside the test of the switch - it
        absorbs `self`, which writes the same attribute only when the switch is on)"""
        if t == "none":
            return s
        if s == "none":
            return t
        if set((s, t)) <= set(("self", "always")):
            return "always" if "always" in (s, t) else "self"
        if s != t:
            raise ExtractError("%s: the idiom acts on different objects on one path" % self.where)
        return t

    def effects(self, node, S):
        """calls / assignments through `self` that run another method of the object, then the raise point"""
        if node is None:
            return S
        callees = []
        for n in _walk_local(node):
            if isinstance(n, ast.Call) and isinstance(n.func, ast.Attribute) and isinstance(n.func.value, ast.Name) \
                    and n.func.value.id == "self":
                callees.append((n.func.attr, False))
            if isinstance(n, (ast.Assign, ast.AugAssign)):
                for t in (n.targets if isinstance(n, ast.Assign) else [n.target]):
                    if isinstance(t, ast.Attribute) and isinstance(t.value, ast.Name) and t.value.id == "self":
                        callees.append((t.attr, True))
        if _may_raise(node):
            for s in S:
                self.raise_at(s)
        for key in callees:
            summ = self.lookup(key)
            if summ is None:
                continue
            normal, raising = summ
            for s in S:
                for t in raising:
                    self.raise_at(self.comb(s, t))
            S = set(self.comb(s, t) for s in S for t in normal)
        return S

    def raise_at(self, s):
        self.outcomes.add(("raises", s))
        self.raise_states.add(s)

    def block(self, stmts, S):
        for st in stmts:
            if not S:
                break
            S = self.stmt(st, S)
        return S

    def stmt(self, st, S):
        if isinstance(st, ast.If) and _is_auto_test(st.test):
            tgt = _idiom_target(st, self.where, self.fn)
            self.idiom_nodes.add(id(st))
            return set(self.comb(s, tgt) for s in S)
        if isinstance(st, (ast.FunctionDef, ast.AsyncFunctionDef, ast.ClassDef, ast.Pass, ast.Global, ast.Nonlocal,
                           ast.Import, ast.ImportFrom)):
            return S
        if self.plain and _is_unguarded_force(st):
            # `self.force_updated_at()` not under the switch test: recorded as the touch state `always`
            self.idiom_nodes.add(id(st))
            return set(self.comb(s, "always") for s in S)
        if isinstance(st, ast.Return):
            S = self.effects(st.value, S)
            for s in S:
                self.outcomes.add(("returns", s))
            return set()
        if isinstance(st, ast.Raise):
            S = self.effects(st.exc, S)
            for s in S:
                self.raise_at(s)
            return set()
        if isinstance(st, ast.If):
            S = self.effects(st.test, S)
            return self.block(st.body, set(S)) | self.block(st.orelse, set(S))
        if isinstance(st, (ast.For, ast.AsyncFor, ast.While)):
            S = self.effects(st.iter if not isinstance(st, ast.While) else st.test, S)
            out = set(S)
            self.loop_exits.append(set())
            for _ in range(5):
                nxt = self.block(st.body, set(out)) | self.loop_exits[-1]
                if nxt <= out:
                    break
                out |= nxt
            self.loop_exits.pop()
            return out | self.block(st.orelse, set(out))
        if isinstance(st, (ast.Break, ast.Continue)):
            if self.loop_exits:
                self.loop_exits[-1] |= S
            return set()
        if isinstance(st, ast.Try):
            before = set(self.raise_states)
            self.raise_states = set()
            body_out = self.block(st.body, set(S))
            caught = S | body_out | self.raise_states
            self.raise_states |= before
            h_out = set()
            for h in st.handlers:
                h_out |= self.block(h.body, set(caught))
            res = (self.block(st.orelse, set(body_out)) if st.orelse else body_out) | h_out
            if st.finalbody:
                res = self.block(st.finalbody, res | caught)
            return res
        if isinstance(st, (ast.With, ast.AsyncWith)):
            for it in st.items:
                S = self.effects(it.context_expr, S)
            return self.block(st.body, S)
        if isinstance(st, ast.Match):
            S = self.effects(st.subject, S)
            out = set(S)
            for c in st.cases:
                out |= self.block(c.body, set(S))
            return out
        # simple statements
        return self.effects(st, S)


def _foreign_names(fn):
    """-> (names invoked on objects OTHER than self: `x.name = ...` / `x.name(...)` with x anything but the bare
    `self`, names invoked through self: `self.name = ...` / `self.name(...)`)"""
    own, through_self = set(), set()

    def is_self(x):
        return isinstance(x, ast.Name) and x.id == "self"
    for node in _walk_local(fn):
        if isinstance(node, (ast.Assign, ast.AugAssign)):
            for t in (node.targets if isinstance(node, ast.Assign) else [node.target]):
                for t2 in (t.elts if isinstance(t, (ast.Tuple, ast.List)) else [t]):
                    if isinstance(t2, ast.Attribute):
                        (through_self if is_self(t2.value) else own).add(t2.attr)
        if isinstance(node, ast.Call) and isinstance(node.func, ast.Attribute):
            (through_self if is_self(node.func.value) else own).add(node.func.attr)
        if isinstance(node, ast.Call) and isinstance(node.func, ast.Name) and node.func.id == "setattr" \
                and len(node.args) >= 2:
            # setattr(x, "name", v): by name when it is a literal, otherwise any name
            a = node.args[1]
            own.add(a.value if isinstance(a, ast.Constant) and isinstance(a.value, str) else "*")
    return own, through_self


GETTERS = {"created_at": "created", "updated_at": "updated"}


def _getter_body(fn):
    """the body of a `created_at` / `updated_at` getter: ("parsesStored", "created"|"updated") when it is exactly
    `return util.str_to_time(<the stored attribute>)` — no state in the Python object —, ("other",) otherwise"""
    body = _strip_doc(fn.body)
    if len(body) == 1 and isinstance(body[0], ast.Return) and _is_util_call(body[0].value, "str_to_time", 1):
        x = body[0].value.args[0]
        # self._h5group.get_attr("created_at")
        if (isinstance(x, ast.Call) and isinstance(x.func, ast.Attribute) and x.func.attr == "get_attr"
                and (_is_self_attr_chain(x.func.value, ["_h5group"]) or _is_self_attr_chain(x.func.value, ["_h5dataset"]))
                and len(x.args) == 1 and not x.keywords and isinstance(x.args[0], ast.Constant)
                and x.args[0].value in GETTERS):
            return ("parsesStored", GETTERS[x.args[0].value])
        # self._h5file.attrs["created_at"]
        if (isinstance(x, ast.Subscript) and _is_self_attr_chain(x.value, ["_h5file", "attrs"])
                and isinstance(x.slice, ast.Constant) and x.slice.value in GETTERS):
            return ("parsesStored", GETTERS[x.slice.value])
    return ("other",)


def _analyse_function(cls, fn, lookup):
    """-> sorted list of outcomes (exit, touch) of one method"""
    body = _strip_doc(fn.body)
    fl = _Flow(cls, fn, lookup)
    end = fl.block(body, {"none"})
    for s in end:
        fl.outcomes.add(("returns", s))
    _scan_machinery(cls, fn, body, fl.idiom_nodes)
    # an auto-update test anywhere the flow did not reach (dead code after a return) is still a use of the machinery
    for n in _walk_local(fn):
        if isinstance(n, ast.If) and _is_auto_test(n.test) and id(n) not in fl.idiom_nodes:
            raise ExtractError("%s.%s: unreachable auto-update idiom" % (cls, fn.name))
    order = {"returns": 0, "raises": 1, "none": 0, "self": 1, "parent": 2, "linked": 3, "always": 4}
    return sorted(fl.outcomes, key=lambda o: (order[o[0]], order[o[1]]))


def _c3(name, bases, memo):
    if name in memo:
        return memo[name]
    seqs = [list(_c3(b, bases, memo)) for b in bases[name]] + [list(bases[name])]
    res = [name]
    while any(seqs):
        seqs = [s for s in seqs if s]
        for s in seqs:
            cand = s[0]
            if not any(cand in t[1:] for t in seqs):
                break
        else:
            raise ExtractError("inconsistent class hierarchy at %s" % name)
        res.append(cand)
        for s in seqs:
            if s and s[0] == cand:
                del s[0]
    memo[name] = res
    return res


# ---------------------------------------------------------------------------------------------------------------
# the switch: every place of nixio/**/*.py that reads or writes `auto_update_timestamps` / `_auto_update_timestamps`


def _fn_params(fn):
    a = fn.args
    return [x.arg for x in a.posonlyargs + a.args + a.kwonlyargs] + ([a.vararg.arg] if a.vararg else []) + \
        ([a.kwarg.arg] if a.kwarg else [])


def _stores_to(fn, name):
    """is the local name (re)bound anywhere in the function body"""
    for n in ast.walk(fn):
        if isinstance(n, ast.Name) and n.id == name and isinstance(n.ctx, (ast.Store, ast.Del)):
            return True
    return False


def _walk_fn(node):
    """ast.walk over the body and the argument defaults of a function (not its decorators) that does not descend
    into nested function / class definitions (lambdas are part of the function)"""
    todo = list(node.body) + [node.args]
    while todo:
        n = todo.pop()
        yield n
        for ch in ast.iter_child_nodes(n):
            if not isinstance(ch, (ast.FunctionDef, ast.AsyncFunctionDef, ast.ClassDef)):
                todo.append(ch)


def _switch_uses_of_function(cls, fn, decs):
    """-> [(use, detail)] for one function; `use` is one of initFromParam, setterFromParam, getterReturns, idiomTest,
    openPasses, strayRead, strayWrite"""
    uses = []
    body = _strip_doc(fn.body)
    claimed = set()
    is_setter = any(d.endswith(".setter") for d in decs)
    is_getter = "property" in decs
    params = _fn_params(fn)

    def self_switch(node, store):
        return (isinstance(node, ast.Attribute) and node.attr == "_auto_update_timestamps"
                and isinstance(node.value, ast.Name) and node.value.id == "self"
                and isinstance(node.ctx, ast.Store if store else ast.Load))

    def param(node):
        return (isinstance(node, ast.Name) and isinstance(node.ctx, ast.Load) and node.id in params
                and not _stores_to(fn, node.id))
    # File.__init__: `self._auto_update_timestamps = <parameter auto_update_timestamps>` as a statement of the body
    # itself (not under a condition), the parameter never re-bound
    if cls == "File" and fn.name == "__init__":
        for st in body:
            if (isinstance(st, ast.Assign) and len(st.targets) == 1 and self_switch(st.targets[0], True)
                    and param(st.value) and st.value.id == "auto_update_timestamps"):
                uses.append(("initFromParam", ast.unparse(st)))
                claimed |= {id(st.targets[0]), id(st.value)}
    # the property File.auto_update_timestamps: getter `return self._auto_update_timestamps`, setter
    # `self._auto_update_timestamps = <its parameter>`, each the whole body
    if cls == "File" and fn.name == "auto_update_timestamps" and len(body) == 1:
        st = body[0]
        if is_getter and isinstance(st, ast.Return) and self_switch(st.value, False):
            uses.append(("getterReturns", ast.unparse(st)))
            claimed.add(id(st.value))
        if (is_setter and isinstance(st, ast.Assign) and len(st.targets) == 1 and self_switch(st.targets[0], True)
                and param(st.value) and len(params) == 2 and st.value.id == params[1]):
            uses.append(("setterFromParam", ast.unparse(st)))
            claimed |= {id(st.targets[0]), id(st.value)}
    # File.open hands its parameter to the constructor
    if cls == "File" and fn.name == "open":
        for n in _walk_fn(fn):
            if isinstance(n, ast.Call) and isinstance(n.func, ast.Name) and n.func.id == "cls":
                for a in n.args:
                    if param(a) and a.id == "auto_update_timestamps":
                        uses.append(("openPasses", ast.unparse(n)))
                        claimed.add(id(a))
    # the idiom's test
    for n in _walk_fn(fn):
        if isinstance(n, ast.If) and _is_auto_test(n.test) and not n.orelse:
            try:
                _idiom_target(n, "%s.%s" % (cls, fn.name), fn)
            except ExtractError:
                continue
            uses.append(("idiomTest", ast.unparse(n.test)))
            claimed.add(id(n.test))
    # everything else that names the switch
    for n in _walk_fn(fn):
        if id(n) in claimed:
            continue
        if isinstance(n, ast.Attribute) and n.attr in SWITCH_NAMES:
            store = isinstance(n.ctx, (ast.Store, ast.Del))
            uses.append(("strayWrite" if store else "strayRead", ast.unparse(n)))
        elif isinstance(n, ast.Name) and n.id in SWITCH_NAMES:
            if isinstance(n.ctx, (ast.Store, ast.Del)):
                uses.append(("strayWrite", "local name %s re-bound" % n.id))
            elif not (n.id in params):
                uses.append(("strayRead", n.id))
            else:
                uses.append(("strayRead", "parameter %s used" % n.id))
        elif isinstance(n, ast.Constant) and n.value in SWITCH_NAMES:
            # setattr(x, "auto_update_timestamps", v), x.__dict__["_auto_update_timestamps"] = v, getattr(...)
            uses.append(("strayWrite", "the name as a string: dynamic access"))
    return uses


def scan_switch(repo):
    """-> [(module, cls, function, use, detail)] over nixio/**/*.py without the test suite"""
    out = []
    files = sorted(glob.glob(os.path.join(repo, "nixio", "**", "*.py"), recursive=True))
    for f in files:
        rel = os.path.relpath(f, os.path.join(repo, "nixio"))
        if rel.split(os.sep)[0] == "test":
            continue
        tree = ast.parse(open(f, encoding="utf-8").read(), filename=f)

        def named(n):
            return ((isinstance(n, ast.Attribute) and n.attr in SWITCH_NAMES) or
                    (isinstance(n, ast.Name) and n.id in SWITCH_NAMES) or
                    (isinstance(n, ast.Constant) and n.value in SWITCH_NAMES))

        def function(fn, cls):
            decs = [ast.unparse(d) for d in fn.decorator_list]
            for use, detail in _switch_uses_of_function(cls, fn, decs):
                out.append((rel, cls or "", fn.name, use, detail))
            nested(fn, cls)

        def nested(node, cls):
            for ch in ast.iter_child_nodes(node):
                if isinstance(ch, (ast.FunctionDef, ast.AsyncFunctionDef)):
                    function(ch, cls)
                elif isinstance(ch, ast.ClassDef):
                    outside(ch, ch.name)
                else:
                    nested(ch, cls)

        def outside(node, cls):
            """module level and class level code"""
            for ch in ast.iter_child_nodes(node):
                if isinstance(ch, ast.ClassDef):
                    outside(ch, ch.name)
                elif isinstance(ch, (ast.FunctionDef, ast.AsyncFunctionDef)):
                    function(ch, cls)
                else:
                    if named(ch):
                        out.append((rel, cls or "", "module_or_class_level", "strayWrite", ast.unparse(ch)))
                    outside(ch, cls)
        outside(tree, None)
    return out


# ---------------------------------------------------------------------------------------------------------------
# every place of nixio/**/*.py (tests excluded) that names the time stamp machinery


STAMP_ATTRS = ("updated_at", "created_at")


def scan_stamp_sites(repo):
    """-> sorted [(file, scope, kind, count)].  Every AST node naming one of STAMP_WORDS (attribute, bare name, the
    attribute names as string constants, names in import statements) is classified by where it stands:

      member      in a method of a class of nixio/*.py that the member table analyses (the flow analysis, the
                  creator / force / getter / File.__init__ renderings account for every such mention or fail)
      definition  inside util/util.py's own `now_int` / `time_to_str` / `str_to_time` (+ a docstring mention)
      export      import statement / `__all__` entry of util/__init__.py
      read        a *load* of `x.created_at` / `x.updated_at` (validator, the explore tool): reads a getter
      tool        nixio/cmd/upgrade.py: the file format converter writes the stamps of objects it creates with h5py
      stray       anything else: module level code and plain functions of nixio/*.py, the HDF5 layer nixio/hdf5/**,
                  other helper modules, stores outside the classes
    """
    rows = {}
    root = os.path.join(repo, "nixio")
    for f in sorted(glob.glob(os.path.join(root, "**", "*.py"), recursive=True)):
        rel = os.path.relpath(f, root).replace(os.sep, "/")
        if rel.split("/")[0] == "test":
            continue
        tree = ast.parse(open(f, encoding="utf-8").read(), filename=f)
        top = "/" not in rel
        analysed = top and rel not in SKIP_MODULES

        def hit(n):
            if isinstance(n, ast.Attribute) and n.attr in STAMP_WORDS:
                return "load" if isinstance(n.ctx, ast.Load) and n.attr in STAMP_ATTRS else "other"
            if isinstance(n, ast.Name) and n.id in STAMP_WORDS:
                return "other"
            if isinstance(n, ast.Constant) and n.value in STAMP_WORDS:
                return "other"
            if isinstance(n, ast.alias) and n.name in STAMP_WORDS:
                return "import"
            if isinstance(n, (ast.FunctionDef, ast.AsyncFunctionDef)) and n.name in STAMP_WORDS:
                return "def"
            return None

        def classify(n, cls, fn, how):
            if analysed and cls is not None and (fn is not None or how == "def"):
                return "member"
            if rel == "util/util.py" and (how == "def" or fn in ("now_int", "time_to_str", "str_to_time")):
                return "definition"
            if rel == "util/__init__.py" and (how == "import" or (cls is None and fn is None)):
                return "export"
            if rel == "cmd/upgrade.py":
                return "tool"
            if how == "load":
                return "read"
            return "stray"

        def walk(node, cls, fn):
            for ch in ast.iter_child_nodes(node):
                c2, f2 = cls, fn
                how = hit(ch)
                if how is not None:
                    scope = "%s.%s" % (cls, fn) if cls and fn else (fn or cls or "<module>")
                    key = (rel, scope, classify(ch, cls, fn, how))
                    rows[key] = rows.get(key, 0) + 1
                if isinstance(ch, ast.ClassDef):
                    c2, f2 = ch.name, None
                elif isinstance(ch, (ast.FunctionDef, ast.AsyncFunctionDef)):
                    f2 = fn or ch.name          # nested functions belong to the enclosing one
                walk(ch, c2, f2)
        walk(tree, None, None)
    return sorted((a, b, c, n) for (a, b, c), n in rows.items())


# ---------------------------------------------------------------------------------------------------------------
# creation: what a class's `create_new` and the `create_*` factories do to the time stamps of the NEW entity


def _is_now_text(v):
    """util.time_to_str(util.now_int())"""
    return _is_util_call(v, "time_to_str", 1) and _is_util_call(v.args[0], "now_int", 0)


def _names_switch(node):
    for n in ast.walk(node):
        if isinstance(n, ast.Attribute) and n.attr in SWITCH_NAMES:
            return True
        if isinstance(n, ast.Name) and n.id in SWITCH_NAMES:
            return True
        if isinstance(n, ast.Constant) and n.value in SWITCH_NAMES:
            return True
    return False


def _creation_steps(where, fn, classes, start):
    """the steps a creating function performs on the entity it creates, in program order along the normal path.

    start(stmt) -> (variable, step) when the statement binds the new entity.  Steps (rendered as `CStep`):
      ("super",) ("construct",) ("createNew", C)   how the new entity comes into being
      ("force", attr)          var.force_<attr>_at()                                        (no argument: the clock)
      ("writeNow", attr)       var._h5group.set_attr("<attr>_at", util.time_to_str(util.now_int()))
      ("assign", m, cond)      var.<m> = value       (runs the setter m of the new entity's class)
      ("call", m, cond)        var.<m>(...)          (runs the method m)
      ("switchUse",)           a statement that names the switch
      ("unknown",)             any other statement that names the time stamp machinery, a stamp written under a
                               condition, a `return` before the end once the entity exists
    Statements that do neither (HDF5 plumbing, argument checks, the rollback handlers) are left out."""
    steps = []
    state = {"var": None}

    def simple(st, cond, last):
        var = state["var"]
        if var is None:
            got = start(st)
            if got is not None:
                state["var"], step = got
                steps.append(step)
                return
            if _names_switch(st):
                steps.append(("switchUse",))
            elif _mentions(st):
                steps.append(("unknown",))
            return
        if _names_switch(st):
            steps.append(("switchUse",))
            return
        if isinstance(st, ast.Return):
            if not last:
                steps.append(("unknown",))
            elif st.value is not None and _mentions(st.value):
                steps.append(("unknown",))
            return
        if isinstance(st, ast.Expr) and isinstance(st.value, ast.Call) and isinstance(st.value.func, ast.Attribute):
            c = st.value
            tgt = c.func.value
            if isinstance(tgt, ast.Name) and tgt.id == var:
                if c.func.attr in FORCE:
                    if c.args or c.keywords or cond:
                        steps.append(("unknown",))
                    else:
                        steps.append(("force", GETTERS[FORCE[c.func.attr]]))
                    return
                if not any(_mentions(a) for a in list(c.args) + [k.value for k in c.keywords]):
                    steps.append(("call", c.func.attr, cond))
                    return
            if (c.func.attr == "set_attr" and isinstance(tgt, ast.Attribute) and tgt.attr in ("_h5group", "_h5dataset")
                    and isinstance(tgt.value, ast.Name) and tgt.value.id == var and len(c.args) == 2
                    and not c.keywords and isinstance(c.args[0], ast.Constant) and c.args[0].value in GETTERS):
                if _is_now_text(c.args[1]) and not cond:
                    steps.append(("writeNow", GETTERS[c.args[0].value]))
                else:
                    steps.append(("unknown",))
                return
        if isinstance(st, (ast.Assign, ast.AugAssign)):
            tgts = st.targets if isinstance(st, ast.Assign) else [st.target]
            if len(tgts) == 1 and isinstance(tgts[0], ast.Attribute) and isinstance(tgts[0].value, ast.Name) \
                    and tgts[0].value.id == var and not _mentions(st.value):
                if tgts[0].attr in STAMP_WORDS:
                    steps.append(("unknown",))
                else:
                    steps.append(("assign", tgts[0].attr, cond))
                return
            for t in tgts:
                for n in ast.walk(t):
                    if isinstance(n, ast.Name) and n.id == var and isinstance(n.ctx, ast.Store):
                        steps.append(("unknown",))        # the variable is re-bound
                        return
        if _mentions(st):
            steps.append(("unknown",))

    def block(stmts, cond, top):
        for k, st in enumerate(stmts):
            last = top and k == len(stmts) - 1
            if isinstance(st, ast.Try):
                block(st.body, cond, False)
                for h in st.handlers:
                    for x in h.body:
                        if _names_switch(x):
                            steps.append(("switchUse",))
                        elif _mentions(x):
                            steps.append(("unknown",))
                block(st.orelse, cond, False)
                block(st.finalbody, cond, False)
            elif isinstance(st, ast.If):
                if _names_switch(st.test):
                    steps.append(("switchUse",))
                elif _mentions(st.test):
                    steps.append(("unknown",))
                block(st.body, True, False)
                block(st.orelse, True, False)
            elif isinstance(st, (ast.For, ast.AsyncFor, ast.While)):
                block(st.body, True, False)
                block(st.orelse, True, False)
            elif isinstance(st, (ast.With, ast.AsyncWith)):
                for it in st.items:
                    if _names_switch(it.context_expr):
                        steps.append(("switchUse",))
                block(st.body, cond, False)
            elif isinstance(st, (ast.FunctionDef, ast.AsyncFunctionDef, ast.ClassDef)):
                if _names_switch(st):
                    steps.append(("switchUse",))
                elif _mentions(st):
                    steps.append(("unknown",))
            else:
                simple(st, cond, last)

    block(_strip_doc(fn.body), False, True)
    if state["var"] is None:
        return None
    return steps


def _creator_start(cls):
    def start(st):
        if isinstance(st, ast.Assign) and len(st.targets) == 1 and isinstance(st.targets[0], ast.Name) \
                and isinstance(st.value, ast.Call):
            f = st.value.func
            # super(C, cls).create_new(...)  /  super().create_new(...)
            if isinstance(f, ast.Attribute) and f.attr == "create_new" and isinstance(f.value, ast.Call) \
                    and isinstance(f.value.func, ast.Name) and f.value.func.id == "super":
                a = f.value.args
                if not a or (len(a) == 2 and isinstance(a[0], ast.Name) and a[0].id == cls
                             and isinstance(a[1], ast.Name) and a[1].id == "cls"):
                    return st.targets[0].id, ("super",)
            if isinstance(f, ast.Name) and f.id == "cls":
                return st.targets[0].id, ("construct",)
        return None
    return start


def _factory_start(classes):
    def start(st):
        if isinstance(st, ast.Assign) and len(st.targets) == 1 and isinstance(st.targets[0], ast.Name) \
                and isinstance(st.value, ast.Call):
            f = st.value.func
            if isinstance(f, ast.Attribute) and f.attr == "create_new" and isinstance(f.value, ast.Name) \
                    and f.value.id in classes:
                return st.targets[0].id, ("createNew", f.value.id)
        return None
    return start


def _file_init_steps(repo):
    """what `File.__init__` does to the switch and to the file's own time stamps, statement by statement of its
    body: ("switchFromParam",) | ("forceIfMissing", attr) = `if "<attr>_at" not in self._h5file.attrs:
    self.force_<attr>_at()` | ("force", attr) = the call unconditionally | ("unknown",) = any other statement that
    names the machinery"""
    tree = ast.parse(open(os.path.join(repo, "nixio", "file.py"), encoding="utf-8").read())
    init = None
    for c in tree.body:
        if isinstance(c, ast.ClassDef) and c.name == "File":
            for m in c.body:
                if isinstance(m, ast.FunctionDef) and m.name == "__init__":
                    init = m
    if init is None:
        raise ExtractError("File.__init__ not found")
    steps = []

    def force_call(st):
        if (isinstance(st, ast.Expr) and isinstance(st.value, ast.Call) and isinstance(st.value.func, ast.Attribute)
                and st.value.func.attr in FORCE and isinstance(st.value.func.value, ast.Name)
                and st.value.func.value.id == "self" and not st.value.args and not st.value.keywords):
            return GETTERS[FORCE[st.value.func.attr]]
        return None
    for st in _strip_doc(init.body):
        if (isinstance(st, ast.Assign) and len(st.targets) == 1 and isinstance(st.targets[0], ast.Attribute)
                and st.targets[0].attr == "_auto_update_timestamps" and isinstance(st.targets[0].value, ast.Name)
                and st.targets[0].value.id == "self" and isinstance(st.value, ast.Name)
                and st.value.id == "auto_update_timestamps" and not _stores_to(init, "auto_update_timestamps")):
            steps.append(("switchFromParam",))
            continue
        a = force_call(st)
        if a is not None:
            steps.append(("force", a))
            continue
        if isinstance(st, ast.If) and not st.orelse and len(st.body) == 1 and force_call(st.body[0]) is not None:
            t = st.test
            a = force_call(st.body[0])
            if (isinstance(t, ast.Compare) and len(t.ops) == 1 and isinstance(t.ops[0], ast.NotIn)
                    and isinstance(t.left, ast.Constant) and t.left.value == FORCE["force_%s_at" % a]
                    and _is_self_attr_chain(t.comparators[0], ["_h5file", "attrs"])):
                steps.append(("forceIfMissing", a))
                continue
        if _mentions(st):
            steps.append(("unknown",))
    return steps


def scan_creation(repo, classes, fns):
    """-> (creators: {cls: steps}, factories: [(owner cls, method, created cls, steps)])"""
    creators = {}
    factories = []
    for c, lst in fns.items():
        for m in lst:
            decs = [ast.unparse(d) for d in m.decorator_list]
            if m.name == "create_new" and "classmethod" in decs:
                steps = _creation_steps("%s.create_new" % c, m, classes, _creator_start(c))
                if steps is not None:
                    creators[c] = steps
                elif _mentions(m):
                    raise ExtractError("%s.create_new mentions the time stamp machinery but creates nothing the "
                                       "translator recognises" % c)
            elif m.name.startswith("create_") and not decs:
                steps = _creation_steps("%s.%s" % (c, m.name), m, classes, _factory_start(classes))
                if steps is not None:
                    made = [s for s in steps if s[0] == "createNew"]
                    factories.append((c, m.name, made[0][1], steps))
    return creators, factories


def scan_repo(repo):
    """-> (classes: {name: [bases]}, order: [names], members: [(cls, name, kind, touch, last)])"""
    files = sorted(glob.glob(os.path.join(repo, "nixio", "*.py")))
    if not files:
        raise ExtractError("no nixio/*.py under %s" % repo)
    classes = {}
    order = []
    fns = {}
    for f in files:
        if os.path.basename(f) in SKIP_MODULES:
            continue
        tree = ast.parse(open(f, encoding="utf-8").read(), filename=f)
        for c in tree.body:
            if not isinstance(c, ast.ClassDef):
                continue
            bases = [b.id if isinstance(b, ast.Name) else ast.unparse(b) for b in c.bases]
            if "Enum" in bases:
                continue
            if c.name in classes:
                raise ExtractError("class %s defined twice" % c.name)
            classes[c.name] = bases
            order.append(c.name)
            fns[c.name] = [m for m in c.body if isinstance(m, ast.FunctionDef)]
    for need in ("Entity", "File", "Feature", "Property"):
        if need not in classes:
            raise ExtractError("class %s not found" % need)
    for c in classes:
        classes[c] = [b for b in classes[c] if b in classes]
    memo = {}
    mro = {c: _c3(c, classes, memo) for c in order}
    # summaries of the methods of every class, iterated to a fixpoint (a method may run another one through `self`)
    summ = {}      # (cls, name, is_setter) -> (frozenset normal touches, frozenset raising touches)
    getters = {}   # (cls, "created_at"|"updated_at") -> body shape
    forces = {}    # (cls, "force_created_at"|"force_updated_at") -> body is the canonical one

    def analyse_all():
        results = {}
        for c in order:
            def lookup(key, c=c):
                for c2 in mro[c]:
                    if (c2,) + key in summ:
                        return summ[(c2,) + key]
                return None
            for m in fns[c]:
                decs = [ast.unparse(d) for d in m.decorator_list]
                if "property" in decs:
                    if any(isinstance(n, ast.If) and _is_auto_test(n.test) for n in ast.walk(m)):
                        raise ExtractError("%s.%s: a getter contains the auto-update idiom" % (c, m.name))
                    if m.name in GETTERS:
                        getters[(c, m.name)] = _getter_body(m)
                    continue
                is_setter = any(d.endswith(".setter") for d in decs)
                if m.name in FORCE and not is_setter:
                    forces[(c, m.name)] = _force_canonical(m, FORCE[m.name])
                    kind = "forceCreated" if m.name == "force_created_at" else "forceUpdated"
                    results[(c, m.name, False)] = (kind, [])
                    continue
                outs = _analyse_function(c, m, lookup)
                if any(d.endswith(".deleter") for d in decs):
                    results[(c, m.name + "__deleter", False)] = ("method", outs)
                    continue
                if (c, m.name, is_setter) in results:
                    raise ExtractError("%s.%s defined twice" % (c, m.name))
                results[(c, m.name, is_setter)] = ("setter" if is_setter else "method", outs)
        return results

    results = {}
    for _round in range(6):
        results = analyse_all()
        new = {}
        for key, (kind, outs) in results.items():
            if kind in ("setter", "method"):
                new[key] = (frozenset(t for e, t in outs if e == "returns"),
                            frozenset(t for e, t in outs if e == "raises"))
        if new == summ:
            break
        summ = new
    else:
        raise ExtractError("the method summaries do not stabilise")
    members = []
    seen = set()
    for (c, n, s), (k, outs) in results.items():
        if (c, n) in seen:
            raise ExtractError("%s.%s defined twice" % (c, n))
        seen.add((c, n))
        members.append((c, n, k, outs))
    # members that hand work to a stamping member of ANOTHER object (`prop.values = data`, `self.dimension_link.unit
    # = unit`, `newentity.position = position`): the names, among those that stamp in some class, invoked on anything
    # but the bare `self` - directly or in a method run through self (closure over the MRO)
    stamping = set(n for _, n, k, outs in members if any(t != "none" for _, t in outs))
    raw = {}
    for c in order:
        for m in fns[c]:
            decs = [ast.unparse(d) for d in m.decorator_list]
            if "property" in decs:
                continue
            key = (c, m.name + "__deleter" if any(d.endswith(".deleter") for d in decs) else m.name)
            own, thru = _foreign_names(m)
            if "*" in own:
                own = set(stamping)
            raw[key] = (own & stamping, thru)
    foreign = {k: set(v[0]) for k, v in raw.items()}
    for _round in range(10):
        changed = False
        for (c, n), (_, thru) in raw.items():
            for callee in thru:
                for c2 in mro[c]:
                    hit = [k for k in ((c2, callee), (c2, callee + "__deleter")) if k in raw]
                    if hit:
                        for k in hit:
                            if not foreign[k] <= foreign[(c, n)]:
                                foreign[(c, n)] |= foreign[k]
                                changed = True
                        break
        if not changed:
            break
    scan_repo.foreign = {k: sorted(v) for k, v in foreign.items()}
    scan_repo.creation = scan_creation(repo, classes, fns)
    return classes, order, members, mro, getters, forces


def _mem_id(n):
    return "m_" + n


def extract(repo):
    classes, order, members, mro, getters, forces = scan_repo(repo)
    memnames = []
    for _, n, _, _ in members:
        if n not in memnames:
            memnames.append(n)
    for n in memnames + order:
        if not n.isidentifier() or not n.isascii():
            raise ExtractError("name %r cannot be rendered" % n)
    L = []
    L.append("/- GENERATED by harness/extract/setters.py from nixio/*.py — do not edit. -/")
    L.append("namespace Nix.Stamps.Gen")
    L.append("")
    L.append("/-- classes of nixio/*.py (enums and exceptions excluded) -/")
    L.append("inductive Cls where")
    for c in order:
        L.append("  | %s" % c)
    L.append("  deriving DecidableEq, Repr")
    L.append("")
    L.append("/-- names of methods and property setters (getters excluded) -/")
    L.append("inductive Mem where")
    for n in memnames:
        L.append("  | %s" % _mem_id(n))
    L.append("  deriving DecidableEq, Repr")
    L.append("")
    L.append("inductive MKind where | setter | method | forceCreated | forceUpdated")
    L.append("  deriving DecidableEq, Repr")
    L.append("/-- object on which the `if self.file.auto_update_timestamps: X.force_updated_at()` idiom acts (`linked`: the")
    L.append("data object a `DimensionLink` points to, whose `label` / `unit` the link's setters write); `always`: the path")
    L.append("runs `self.force_updated_at()` OUTSIDE the test of the switch - this object's `updated_at` is written")
    L.append("whatever the switch says -/")
    L.append("inductive Touch where | none | self | parent | linked | always")
    L.append("  deriving DecidableEq, Repr")
    L.append("")
    L.append("/-- how a path through a method ends: `return` / falling off the end, or an exception (an explicit")
    L.append("`raise`, or a statement that calls, subscripts or deletes something and may therefore raise) -/")
    L.append("inductive Exit where | returns | raises")
    L.append("  deriving DecidableEq, Repr")
    L.append("/-- one way a call can end: the exit and whether the idiom ran on that path before it (with the switch on,")
    L.append("`touch` names the object whose `updated_at` has been written when the exit is reached).  The list of a")
    L.append("member over-approximates the paths of the source: conditions are not interpreted. -/")
    L.append("structure Outcome where")
    L.append("  exit : Exit")
    L.append("  touch : Touch")
    L.append("  deriving DecidableEq, Repr")
    L.append("")
    L.append("structure Member where")
    L.append("  cls : Cls")
    L.append("  mem : Mem")
    L.append("  kind : MKind")
    L.append("  /-- every (exit, touch state) some path through the body can reach -/")
    L.append("  outcomes : List Outcome")
    L.append("  /-- names of members that stamp in some class and that the body invokes on an object OTHER than the bare")
    L.append("  `self` (`x.name = ...`, `x.name(...)`, directly or in a method run through `self`): through them a call")
    L.append("  may stamp another object, as that object's own entry says.  By name: the class of `x` is not known. -/")
    L.append("  foreign : List Mem")
    L.append("  deriving DecidableEq, Repr")
    L.append("")
    L.append("def members : List Member := [")
    rows = []
    for c, n, k, outs in members:
        rows.append("  ⟨.%s, .%s, .%s, [%s], [%s]⟩" % (c, _mem_id(n), k, ", ".join("⟨.%s, .%s⟩" % o for o in outs),
                                                     ", ".join("." + _mem_id(x) for x in scan_repo.foreign.get((c, n), []))))
    L.append(",\n".join(rows))
    L.append("]")
    L.append("")
    L.append("/-- the two time stamp attributes -/")
    L.append("inductive StampAttr where | created | updated")
    L.append("  deriving DecidableEq, Repr")
    L.append("/-- body of a `created_at` / `updated_at` getter: exactly `return util.str_to_time(<stored attribute a>)`")
    L.append("(the Python object keeps no copy), or anything else -/")
    L.append("inductive GetterBody where | parsesStored (a : StampAttr) | other")
    L.append("  deriving DecidableEq, Repr")
    L.append("structure StampGetter where")
    L.append("  cls : Cls")
    L.append("  attr : StampAttr")
    L.append("  body : GetterBody")
    L.append("  deriving DecidableEq, Repr")
    L.append("")
    L.append("def stampGetters : List StampGetter := [")
    grows = []
    for (c, n), b in getters.items():
        grows.append("  ⟨.%s, .%s, %s⟩" % (c, GETTERS[n], ".parsesStored .%s" % b[1] if b[0] == "parsesStored" else ".other"))
    L.append(",\n".join(grows))
    L.append("]")
    L.append("")
    L.append("/-- `force_created_at` / `force_updated_at` as defined by a class: `canonical` = the body is exactly")
    L.append("`if time is None: time = util.now_int() else: util.check_attr_type(time, int)` followed by the write of")
    L.append("`util.time_to_str(time)` to that attribute, signature `(self, time=None)` -/")
    L.append("structure ForceDef where")
    L.append("  cls : Cls")
    L.append("  attr : StampAttr")
    L.append("  canonical : Bool")
    L.append("  deriving DecidableEq, Repr")
    L.append("")
    L.append("def forceDefs : List ForceDef := [")
    L.append(",\n".join("  ⟨.%s, .%s, %s⟩" % (c, GETTERS[FORCE[n]], lean_bool(ok)) for (c, n), ok in forces.items()))
    L.append("]")
    L.append("")
    L.append("/-- Python's method resolution order (C3), restricted to the classes above -/")
    L.append("def mro : Cls → List Cls")
    for c in order:
        L.append("  | .%s => [%s]" % (c, ", ".join("." + x for x in mro[c])))
    L.append("")
    L.append("def Cls.ofString : String → Option Cls")
    for c in order:
        L.append("  | %s => some .%s" % (lean_str(c), c))
    L.append("  | _ => none")
    L.append("")
    L.append("def Mem.ofString : String → Option Mem")
    for n in memnames:
        L.append("  | %s => some .%s" % (lean_str(n), _mem_id(n)))
    L.append("  | _ => none")
    L.append("")
    L.append("end Nix.Stamps.Gen")
    return {"NixModel/Generated/Setters.lean": "\n".join(L) + "\n",
            "NixModel/Generated/Creation.lean": _render_creation(repo, order, members, memnames)}


def _render_creation(repo, order, members, memnames):
    """Generated/Creation.lean: every use of the auto-update switch in nixio/**/*.py, and what the `create_new`
    class methods and the `create_*` factories do to the time stamps of the entity they create"""
    uses = scan_switch(repo)
    creators, factories = scan_repo.creation
    setters = set(n for _, n, k, _ in members if k == "setter")
    methods = set(n for _, n, k, _ in members if k == "method")

    def step(st):
        k = st[0]
        if k in ("super", "construct", "switchUse", "unknown"):
            return "." + k
        if k == "createNew":
            return "(.createNew .%s)" % st[1]
        if k in ("force", "writeNow"):
            return "(.%s .%s)" % (k, st[1])
        if k == "assign":
            if st[1] in setters:
                return "(.assign .%s %s)" % (_mem_id(st[1]), lean_bool(st[2]))
            return None                                   # a plain attribute of the Python object
        if k == "call":
            if st[1] in methods:
                return "(.call .%s %s)" % (_mem_id(st[1]), lean_bool(st[2]))
            return ".unknown"
        raise ExtractError("unknown creation step %r" % (st,))

    def steps(lst):
        return "[%s]" % ", ".join(x for x in (step(s) for s in lst) if x is not None)
    L = []
    L.append("/- GENERATED by harness/extract/setters.py from nixio/**/*.py — do not edit. -/")
    L.append("import NixModel.Generated.Setters")
    L.append("namespace Nix.Stamps.Gen")
    L.append("")
    L.append("/-- one place that names the switch `auto_update_timestamps` / `_auto_update_timestamps`:")
    L.append("`initFromParam`: `self._auto_update_timestamps = auto_update_timestamps` as an unconditional statement of")
    L.append("`File.__init__` (the parameter never re-bound); `setterFromParam` / `getterReturns`: the whole body of the")
    L.append("property's setter (`self._auto_update_timestamps = <its parameter>`) / getter; `idiomTest`: the test of the")
    L.append("recognised idiom `if self.file.auto_update_timestamps: self.force_updated_at()`; `openPasses`: `File.open`")
    L.append("hands its parameter to the constructor; `strayRead` / `strayWrite`: anything else (an assignment from")
    L.append("another function, a saved copy, dynamic access by name, ...) -/")
    L.append("inductive SwitchUse where")
    L.append("  | initFromParam | setterFromParam | getterReturns | idiomTest | openPasses | strayRead | strayWrite")
    L.append("  deriving DecidableEq, Repr")
    L.append("structure SwitchUseAt where")
    L.append("  file : String")
    L.append("  cls : String")
    L.append("  fn : String")
    L.append("  use : SwitchUse")
    L.append("  deriving Repr")
    L.append("")
    L.append("def switchUses : List SwitchUseAt := [")
    L.append(",\n".join("  ⟨%s, %s, %s, .%s⟩" % (lean_str(f), lean_str(c), lean_str(fn), u) for f, c, fn, u, _ in uses))
    L.append("]")
    L.append("")
    L.append("/-- where a mention of the time stamp machinery (`created_at`, `updated_at`, `force_*_at`, `now_int`,")
    L.append("`time_to_str`, the switch) stands: `member` = in a method of a class the member table analyses; `definition` =")
    L.append("util/util.py's own `now_int` / `time_to_str` / `str_to_time`; `export` = util/__init__.py's import list;")
    L.append("`read` = a load of `x.created_at` / `x.updated_at` elsewhere (validator, explore tool); `tool` = the file format")
    L.append("converter nixio/cmd/upgrade.py; `stray` = anything else (module level code or plain functions of nixio/*.py,")
    L.append("the HDF5 layer, helper modules) -/")
    L.append("inductive SiteKind where | member | definition | export | read | tool | stray")
    L.append("  deriving DecidableEq, Repr")
    L.append("structure StampSite where")
    L.append("  file : String")
    L.append("  scope : String")
    L.append("  kind : SiteKind")
    L.append("  mentions : Nat")
    L.append("  deriving Repr")
    L.append("")
    L.append("/-- every place of nixio/**/*.py (tests excluded) that names the machinery, grouped by file and scope -/")
    L.append("def stampSites : List StampSite := [")
    L.append(",\n".join("  ⟨%s, %s, .%s, %d⟩" % (lean_str(a), lean_str(b), c, n) for a, b, c, n in scan_stamp_sites(repo)))
    L.append("]")
    L.append("")
    L.append("/-- what a creating function does to the entity it creates, in program order along the normal path:")
    L.append("`super` = `v = super(C, cls).create_new(...)`, `construct` = `v = cls(...)`, `createNew C` = `v = C.create_new(...)`;")
    L.append("`force a` = `v.force_<a>_at()` (no argument: the clock), `writeNow a` = the attribute written with")
    L.append("`util.time_to_str(util.now_int())`; `assign m cond` = `v.m = ...` (the setter runs), `call m cond` = `v.m(...)`,")
    L.append("`cond` when under a condition; `switchUse` = a statement naming the switch; `unknown` = any other statement")
    L.append("naming the time stamp machinery, a stamp written under a condition or with an argument, an early `return` -/")
    L.append("inductive CStep where")
    L.append("  | super | construct | createNew (c : Cls)")
    L.append("  | force (a : StampAttr) | writeNow (a : StampAttr)")
    L.append("  | assign (m : Mem) (cond : Bool) | call (m : Mem) (cond : Bool)")
    L.append("  | switchUse | unknown")
    L.append("  deriving DecidableEq, Repr")
    L.append("")
    L.append("/-- `create_new` as defined by a class -/")
    L.append("structure Creator where")
    L.append("  cls : Cls")
    L.append("  steps : List CStep")
    L.append("  deriving DecidableEq, Repr")
    L.append("")
    L.append("def creators : List Creator := [")
    L.append(",\n".join("  ⟨.%s, %s⟩" % (c, steps(creators[c])) for c in order if c in creators))
    L.append("]")
    L.append("")
    L.append("/-- a `create_*` method: `owner.mem(...)` makes an object of class `creates` -/")
    L.append("structure Factory where")
    L.append("  owner : Cls")
    L.append("  mem : Mem")
    L.append("  creates : Cls")
    L.append("  steps : List CStep")
    L.append("  deriving DecidableEq, Repr")
    L.append("")
    L.append("def factories : List Factory := [")
    L.append(",\n".join("  ⟨.%s, .%s, .%s, %s⟩" % (o, _mem_id(m), c, steps(st)) for o, m, c, st in factories))
    L.append("]")
    L.append("")
    L.append("/-- a statement of `File.__init__` that concerns the switch or the file's own time stamps:")
    L.append("`switchFromParam` = `self._auto_update_timestamps = auto_update_timestamps`; `forceIfMissing a` =")
    L.append("`if \"<a>_at\" not in self._h5file.attrs: self.force_<a>_at()`; `force a` = that call unconditionally;")
    L.append("`unknown` = any other statement that names the machinery -/")
    L.append("inductive FStep where")
    L.append("  | switchFromParam | forceIfMissing (a : StampAttr) | force (a : StampAttr) | unknown")
    L.append("  deriving DecidableEq, Repr")
    L.append("")
    L.append("def fileInit : List FStep := [%s]" % ", ".join(
        "." + st[0] if len(st) == 1 else "(.%s .%s)" % st for st in _file_init_steps(repo)))
    L.append("")
    L.append("end Nix.Stamps.Gen")
    return "\n".join(L) + "\n"


if __name__ == "__main__":
    import sys
    for k, v in extract(sys.argv[1] if len(sys.argv) > 1 else "/repo").items():
        print("==", k)
        print(v)
