"""Translator: nixio/util/units.py (invert_power, split_compound)  ->  NixModel/Generated/UnitsCompound.lean

Parses the source with `ast` (never imports it) and renders
 * invert_power(): the text appended when there is no power, the `if power[0] == c: power = <const> + power[k:]`
   branches in source order, the else branch, and the text joined in front of the new power;
 * split_compound(): whether the atom pattern ends in the separator lookahead `(?= *(\\*|/|$))`, the
   `suffix.replace(old, new)` clean-up of the remainder, and the separator after which atoms are inverted.
Anything it does not recognise raises ExtractError (a broken tie, handled by the check).
"""
import ast
import os

from .leanfmt import ExtractError, lean_chars, lean_char, lean_list, lean_bool
from .units import StrEval, SEP_LOOKAHEAD, SENT, _func, _local_env, _methods


def _is_name(n, name):
    return isinstance(n, ast.Name) and n.id == name


def _const(n, what):
    if isinstance(n, ast.Constant) and isinstance(n.value, str):
        return n.value
    raise ExtractError("invert_power/split_compound: expected a string constant (%s)" % what)


def _power_expr(n):
    """`power`, `power[k:]`, `"c" + power`, `"c" + power[k:]`  ->  (const, k)"""
    pre = ""
    if isinstance(n, ast.BinOp) and isinstance(n.op, ast.Add):
        pre = _const(n.left, "text put in front of the power")
        n = n.right
    if _is_name(n, "power"):
        return pre, 0
    if (isinstance(n, ast.Subscript) and _is_name(n.value, "power") and isinstance(n.slice, ast.Slice)
            and n.slice.upper is None and n.slice.step is None
            and isinstance(n.slice.lower, ast.Constant) and isinstance(n.slice.lower.value, int)
            and n.slice.lower.value >= 0):
        return pre, n.slice.lower.value
    raise ExtractError("invert_power(): unrecognised expression assigned to power")


def _concat(n):
    """a + b + c -> [a, b, c]"""
    if isinstance(n, ast.BinOp) and isinstance(n.op, ast.Add):
        return _concat(n.left) + [n.right]
    return [n]


def _assign_power(body):
    if (len(body) == 1 and isinstance(body[0], ast.Assign) and len(body[0].targets) == 1
            and _is_name(body[0].targets[0], "power")):
        return _power_expr(body[0].value)
    raise ExtractError("invert_power(): a branch does more than assign power")


def _invert(tree):
    fn = _func(tree, "invert_power")
    body = [s for s in fn.body if not (isinstance(s, ast.Expr) and isinstance(s.value, ast.Constant))]
    if len(body) != 4:
        raise ExtractError("invert_power(): expected split / no-power return / branch chain / return")
    s0, s1, s2, s3 = body
    ok0 = (isinstance(s0, ast.Assign) and isinstance(s0.targets[0], ast.Tuple)
           and [getattr(e, "id", None) for e in s0.targets[0].elts] == ["prefix", "unit", "power"]
           and isinstance(s0.value, ast.Call) and _is_name(s0.value.func, "split")
           and len(s0.value.args) == 1 and _is_name(s0.value.args[0], "unit"))
    if not ok0:
        raise ExtractError("invert_power(): does not start with prefix, unit, power = split(unit)")
    ok1 = (isinstance(s1, ast.If) and isinstance(s1.test, ast.UnaryOp) and isinstance(s1.test.op, ast.Not)
           and _is_name(s1.test.operand, "power") and not s1.orelse and len(s1.body) == 1
           and isinstance(s1.body[0], ast.Return))
    if not ok1:
        raise ExtractError("invert_power(): `if not power: return ...` not found")
    parts = _concat(s1.body[0].value)
    if not (len(parts) == 3 and _is_name(parts[0], "prefix") and _is_name(parts[1], "unit")):
        raise ExtractError("invert_power(): no-power return is not prefix + unit + <text>")
    no_power = _const(parts[2], "no-power suffix")
    branches = []
    node = s2
    other = None
    while True:
        if not isinstance(node, ast.If):
            raise ExtractError("invert_power(): branch chain on power[0] not found")
        t = node.test
        okt = (isinstance(t, ast.Compare) and len(t.ops) == 1 and isinstance(t.ops[0], ast.Eq)
               and isinstance(t.left, ast.Subscript) and _is_name(t.left.value, "power")
               and isinstance(t.left.slice, ast.Constant) and t.left.slice.value == 0)
        if not okt:
            raise ExtractError("invert_power(): branch test is not power[0] == <char>")
        c = _const(t.comparators[0], "sign character")
        if len(c) != 1:
            raise ExtractError("invert_power(): branch test compares with more than one character")
        branches.append((c,) + _assign_power(node.body))
        if not node.orelse:
            other = ("", 0)
            break
        if len(node.orelse) == 1 and isinstance(node.orelse[0], ast.If):
            node = node.orelse[0]
            continue
        other = _assign_power(node.orelse)
        break
    if not isinstance(s3, ast.Return):
        raise ExtractError("invert_power(): final return not found")
    parts = _concat(s3.value)
    if not (len(parts) == 4 and _is_name(parts[0], "prefix") and _is_name(parts[1], "unit")
            and _is_name(parts[3], "power")):
        raise ExtractError("invert_power(): final return is not prefix + unit + <text> + power")
    join = _const(parts[2], "text between unit and power")
    return no_power, branches, other, join


def _split_compound(tree):
    fn = _func(tree, "split_compound")
    se = _local_env(fn, SENT)
    meth = _methods(fn)
    if "opt_pup" not in se.env or meth.get("opt_pup") != {"match"}:
        raise ExtractError("split_compound: expected opt_pup.match")
    look = se.env["opt_pup"].endswith(SEP_LOOKAHEAD)
    if "(?" in (se.env["opt_pup"][:-len(SEP_LOOKAHEAD)] if look else se.env["opt_pup"]):
        raise ExtractError("split_compound: unrecognised group extension in the atom pattern")
    # suffix = suffix.replace(old, new)
    repl = None
    inv_sep = set()
    appended_plain = False
    for n in ast.walk(fn):
        if (isinstance(n, ast.Assign) and len(n.targets) == 1 and _is_name(n.targets[0], "suffix")
                and isinstance(n.value, ast.Call) and isinstance(n.value.func, ast.Attribute)
                and n.value.func.attr == "replace" and _is_name(n.value.func.value, "suffix")):
            if len(n.value.args) != 2 or repl is not None:
                raise ExtractError("split_compound: unrecognised clean-up of the remainder")
            repl = (_const(n.value.args[0], "replace old"), _const(n.value.args[1], "replace new"))
        if isinstance(n, ast.If) and isinstance(n.test, ast.Compare) and _is_name(n.test.left, "sep"):
            if not (len(n.test.ops) == 1 and isinstance(n.test.ops[0], ast.Eq)):
                raise ExtractError("split_compound: unrecognised test on sep")
            c = _const(n.test.comparators[0], "separator")
            if len(c) != 1:
                raise ExtractError("split_compound: separator test compares with more than one character")
            calls = [x for x in ast.walk(ast.Module(body=n.body, type_ignores=[])) if isinstance(x, ast.Call)
                     and _is_name(x.func, "invert_power")]
            calls_else = [x for x in ast.walk(ast.Module(body=n.orelse, type_ignores=[])) if isinstance(x, ast.Call)
                          and _is_name(x.func, "invert_power")]
            if not calls or calls_else or not n.orelse:
                raise ExtractError("split_compound: `if sep == c: invert else: keep` not found")
            inv_sep.add(c)
            appended_plain = True
    if repl is None:
        raise ExtractError("split_compound: suffix.replace(...) not found")
    if repl[0] == "":
        raise ExtractError("split_compound: replace of the empty string is not modelled")
    if len(inv_sep) != 1 or not appended_plain:
        raise ExtractError("split_compound: the separator that inverts the following atom is not unique")
    return look, repl, inv_sep.pop()


def extract(repo):
    path = os.path.join(repo, "nixio", "util", "units.py")
    tree = ast.parse(open(path, encoding="utf-8").read())
    no_power, branches, other, join = _invert(tree)
    look, repl, inv_sep = _split_compound(tree)
    L = []
    L.append("/- GENERATED by harness/extract/units_compound.py from nixio/util/units.py — do not edit. -/")
    L.append("namespace Nix.Units.Gen")
    L.append("")
    L.append("/-- invert_power: appended to prefix + unit when the unit carries no power -/")
    L.append("def invertNoPower : List Char := " + lean_chars(no_power))
    L.append("/-- invert_power: `if power[0] == c: power = text + power[k:]` branches, in source order -/")
    L.append("def invertBranches : List (Char × List Char × Nat) := " +
             lean_list("(%s, %s, %d)" % (lean_char(c), lean_chars(t), k) for c, t, k in branches))
    L.append("/-- invert_power: the else branch `power = text + power[k:]` -/")
    L.append("def invertElse : List Char × Nat := (%s, %d)" % (lean_chars(other[0]), other[1]))
    L.append("/-- invert_power: text between prefix + unit and the new power in the final return -/")
    L.append("def invertJoin : List Char := " + lean_chars(join))
    L.append("")
    L.append("/-- split_compound: the atom pattern ends in the lookahead `(?= *(\\*|/|$))` -/")
    L.append("def compoundSplitLookahead : Bool := " + lean_bool(look))
    L.append("/-- split_compound: `suffix = suffix.replace(old, new)` applied to the remainder -/")
    L.append("def compoundSplitReplace : List Char × List Char := (%s, %s)" % (lean_chars(repl[0]), lean_chars(repl[1])))
    L.append("/-- split_compound: the separator after which `invert_power` is applied -/")
    L.append("def compoundInvertSep : Char := " + lean_char(inv_sep))
    L.append("")
    L.append("end Nix.Units.Gen")
    return {"NixModel/Generated/UnitsCompound.lean": "\n".join(L) + "\n"}


if __name__ == "__main__":
    import sys
    for k, v in extract(sys.argv[1] if len(sys.argv) > 1 else "/repo").items():
        print("==", k)
        print(v)
