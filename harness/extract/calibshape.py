"""Translator: nixio/data_array.py, nixio/util/util.py, nixio/data_view.py, nixio/data_set.py
                 ->  NixModel/Generated/CalibShape.lean                                        (property C15)

Parses the sources with `ast` (never imports them) and renders the *statement lists* of the calibration read
path in the vocabulary of `NixModel/Pure/CalibPrim.lean`:

  readDataBody          DataArray._read_data            (Stmt: loadCoeff, loadOrigin, rawRead, `if`, setShape1,
                                                         originConst, astype, callApply; conditions as Cond)
  applyPolynomialBody   util.apply_polynomial           (Stmt: subOrigin, `if`, polyval) with its parameters bound to
                                                         the roles of the arguments of the call in _read_data
  viewReadBody          DataView._read_data             (List VStmt)
  coeffSetterBody / originSetterBody                    the two calibration setters (SStmt: `if`, delItem, raiseIf,
                                                         writeData, checkNumber, setAttr, stampIfAuto), with the HDF5 names
  coeffGetterName / originGetterName                    the names the getters read
  getitemReads / arrayReads / readDirectReads / iterReads    DataSet.__getitem__ / __array__ / read_direct / __iter__
                                                         are a plain `self._read_data(...)` (dispatching on the class)

Local variables are followed by role (coeff / origin / data): a name gets its role from the statement that defines
it (`x = self.polynom_coefficients` ...) and, inside `apply_polynomial`, from the position of the argument in the
call.  Every statement or expression outside the vocabulary (a cache lookup instead of the property, a condition
around the conversion, another helper, a rebinding `data = data - origin` that the caller would not see, a
reordered argument list) raises ExtractError: the tie is broken and the check goes looking for a failing input.
`Props/C15.lean` proves that the generated programs compute the hand-written model functions
(`C15_shape_read_data`, `C15_shape_view_read`, `C15_shape_setters`, `C15_shape_entry_points`), so a change that *is*
inside the vocabulary but computes something else (a swapped order of subtraction and evaluation, another
default origin, a condition that tests only the coefficients) breaks `lake build` on a named theorem.
"""
import ast
import os
from fractions import Fraction

from .leanfmt import ExtractError, lean_str, lean_bool

TARGET = "NixModel/Generated/CalibShape.lean"

NP_TO_DTYPE = {"uint8": ".uint8", "uint16": ".uint16", "uint32": ".uint32", "uint64": ".uint64",
               "int8": ".int8", "int16": ".int16", "int32": ".int32", "int64": ".int64",
               "float32": ".float32", "single": ".float32", "double": ".float64", "float64": ".float64",
               "bool_": ".bool"}


def _parse(repo, rel):
    path = os.path.join(repo, rel)
    try:
        with open(path, encoding="utf-8") as f:
            return ast.parse(f.read(), filename=rel)
    except OSError as e:
        raise ExtractError("%s: %s" % (rel, e))


def _class(tree, name, rel):
    for node in tree.body:
        if isinstance(node, ast.ClassDef) and node.name == name:
            return node
    raise ExtractError("class %s not found in %s" % (name, rel))


def _func(container, name, rel, deco=None):
    """the last definition of `name` (as in Python) whose decorators are `deco`:
    None = undecorated, "property", "setter" """
    found = None
    for n in container.body:
        if isinstance(n, ast.FunctionDef) and n.name == name:
            if deco is None and not n.decorator_list:
                found = n
            elif deco == "property" and len(n.decorator_list) == 1 and isinstance(n.decorator_list[0], ast.Name) \
                    and n.decorator_list[0].id == "property":
                found = n
            elif deco == "setter" and len(n.decorator_list) == 1 and isinstance(n.decorator_list[0], ast.Attribute) \
                    and n.decorator_list[0].attr == "setter" and isinstance(n.decorator_list[0].value, ast.Name) \
                    and n.decorator_list[0].value.id == name:
                found = n
    if found is None:
        raise ExtractError("%s: no %s definition of %s" % (rel, deco or "plain", name))
    return found


def _stmts(fn):
    """body without docstring / string statements / pass"""
    out = []
    for st in fn.body:
        if isinstance(st, ast.Expr) and isinstance(st.value, ast.Constant) and isinstance(st.value.value, str):
            continue
        if isinstance(st, ast.Pass):
            continue
        out.append(st)
    return out


def _params(fn):
    a = fn.args
    if a.vararg or a.kwarg or a.kwonlyargs or a.posonlyargs:
        raise ExtractError("%s line %d: unusual parameter list" % (fn.name, fn.lineno))
    return [x.arg for x in a.args]


def _is_name(node, name):
    return isinstance(node, ast.Name) and node.id == name


def _dotted(node):
    parts = []
    while isinstance(node, ast.Attribute):
        parts.append(node.attr)
        node = node.value
    if isinstance(node, ast.Name):
        parts.append(node.id)
        return ".".join(reversed(parts))
    return None


def _bad(fn, st, why=None):
    return ExtractError("%s line %d: %s is not in the modelled vocabulary%s" % (
        fn, getattr(st, "lineno", 0), ast.unparse(st).split("\n")[0][:90], (" (%s)" % why) if why else ""))


def _seq(items):
    if not items:
        return ".skip"
    if len(items) == 1:
        return items[0]
    return "(.seq %s %s)" % (items[0], _seq(items[1:]))


def _paren(s):
    return s if s.startswith("(") or " " not in s else "(%s)" % s


def _rat(x):
    fr = Fraction(x)
    if fr.denominator == 1:
        return "(%d : Rat)" % fr.numerator
    return "((%d : Rat) / %d)" % (fr.numerator, fr.denominator)


# ------------------------------------------------------------------------------------------------
# datatype.py: DataType.<Name> -> numpy scalar type -> model DType


def datatype_table(repo):
    rel = "nixio/datatype.py"
    cls = _class(_parse(repo, rel), "DataType", rel)
    out = {}
    for st in cls.body:
        if isinstance(st, ast.Assign) and len(st.targets) == 1 and isinstance(st.targets[0], ast.Name):
            d = _dotted(st.value)
            if d and d.startswith("np.") and d[3:] in NP_TO_DTYPE:
                out[st.targets[0].id] = NP_TO_DTYPE[d[3:]]
    return out


# ------------------------------------------------------------------------------------------------
# DataArray._read_data and util.apply_polynomial


class _Roles:
    """local name -> role ('coeff' | 'origin' | 'data')"""

    def __init__(self, fn, init=None):
        self.fn = fn
        self.m = dict(init or {})

    def role(self, node):
        return self.m.get(node.id) if isinstance(node, ast.Name) else None

    def bind(self, name, role, st):
        other = [n for n, r in self.m.items() if r == role and n != name]
        if name in self.m and self.m[name] != role:
            raise _bad(self.fn, st, "name %s changes its role" % name)
        if other:
            raise _bad(self.fn, st, "two names for the %s" % role)
        self.m[name] = role


def _cond(fn, roles, node):
    if isinstance(node, ast.UnaryOp) and isinstance(node.op, ast.Not):
        return "(.not %s)" % _cond(fn, roles, node.operand)
    if isinstance(node, ast.BoolOp):
        op = ".or" if isinstance(node.op, ast.Or) else ".and"
        vals = [_cond(fn, roles, v) for v in node.values]
        acc = vals[-1]
        for v in reversed(vals[:-1]):
            acc = "(%s %s %s)" % (op, v, acc)
        return acc
    if isinstance(node, ast.Call) and _is_name(node.func, "len") and len(node.args) == 1 and not node.keywords:
        arg = node.args[0]
        if roles.role(arg) == "coeff":
            return ".lenCoeff"
        if isinstance(arg, ast.Attribute) and arg.attr == "shape" and roles.role(arg.value) == "data":
            return ".rank"
    if roles.role(node) == "coeff":
        return ".coeffTruthy"
    if roles.role(node) == "origin":
        return ".originTruthy"
    raise _bad(fn, node, "condition")


def _self_attr(node, selfname, attr):
    return isinstance(node, ast.Attribute) and node.attr == attr and _is_name(node.value, selfname)


def _is_super_read(node, selfname, clsname, slname):
    """np.array(super(<cls>, self)._read_data(sl))  |  np.array(super()._read_data(sl))"""
    if not (isinstance(node, ast.Call) and _dotted(node.func) == "np.array" and len(node.args) == 1
            and not node.keywords):
        return False
    c = node.args[0]
    if not (isinstance(c, ast.Call) and isinstance(c.func, ast.Attribute) and c.func.attr == "_read_data"
            and len(c.args) == 1 and not c.keywords and _is_name(c.args[0], slname)):
        return False
    s = c.func.value
    if not (isinstance(s, ast.Call) and _is_name(s.func, "super") and not s.keywords):
        return False
    if len(s.args) == 0:
        return True
    return len(s.args) == 2 and _is_name(s.args[0], clsname) and _is_name(s.args[1], selfname)


def _block(fname, stmts, roles, ctx, top):
    """translate a statement list; ctx: dict(selfname, clsname, slname, dtypes, apply) for _read_data,
    dict(apply_body=True) for apply_polynomial"""
    out = []
    for i, st in enumerate(stmts):
        last = top and i == len(stmts) - 1
        # --- return ---------------------------------------------------------------------------
        if isinstance(st, ast.Return):
            if ctx.get("leaf"):
                if st.value is None and last:
                    continue
                raise _bad(fname, st, "the helper works in place and returns nothing")
            if last and roles.role(st.value) == "data":
                continue
            raise _bad(fname, st, "the only return is `return data` at the end")
        # --- if without else ------------------------------------------------------------------
        if isinstance(st, ast.If):
            if st.orelse:
                raise _bad(fname, st, "else branch")
            out.append("(.ite %s %s)" % (_cond(fname, roles, st.test),
                                         _block(fname, st.body, roles, ctx, False)))
            continue
        # --- assignments ----------------------------------------------------------------------
        if isinstance(st, ast.Assign) and len(st.targets) == 1:
            tg, v = st.targets[0], st.value
            if isinstance(tg, ast.Name) and not ctx.get("leaf"):
                if _self_attr(v, ctx["selfname"], "polynom_coefficients"):
                    roles.bind(tg.id, "coeff", st)
                    out.append(".loadCoeff")
                    continue
                if _self_attr(v, ctx["selfname"], "expansion_origin"):
                    roles.bind(tg.id, "origin", st)
                    out.append(".loadOrigin")
                    continue
                if _is_super_read(v, ctx["selfname"], ctx["clsname"], ctx["slname"]):
                    roles.bind(tg.id, "data", st)
                    out.append(".rawRead")
                    continue
                if roles.role(tg) == "origin" and isinstance(v, ast.Constant) and isinstance(v.value, (int, float)) \
                        and not isinstance(v.value, bool):
                    out.append("(.originConst %s)" % _rat(v.value))
                    continue
                if roles.role(tg) == "data" and isinstance(v, ast.Call) and isinstance(v.func, ast.Attribute) \
                        and v.func.attr == "astype" and roles.role(v.func.value) == "data" and len(v.args) == 1 \
                        and not v.keywords:
                    d = _dotted(v.args[0])
                    if d and d.startswith("DataType.") and d[9:] in ctx["dtypes"]:
                        out.append("(.astype %s)" % ctx["dtypes"][d[9:]])
                        continue
            # data.shape = (1,)
            if isinstance(tg, ast.Attribute) and tg.attr == "shape" and roles.role(tg.value) == "data" \
                    and not ctx.get("leaf") and isinstance(v, ast.Tuple) and len(v.elts) == 1 \
                    and isinstance(v.elts[0], ast.Constant) and v.elts[0].value == 1:
                out.append(".setShape1")
                continue
            # data[:] = ...   (in place)
            if isinstance(tg, ast.Subscript) and roles.role(tg.value) == "data" and _full_slice(tg.slice):
                if isinstance(v, ast.BinOp) and isinstance(v.op, ast.Sub) and _data_all(v.left, roles) \
                        and roles.role(v.right) == "origin":
                    out.append(".subOrigin")
                    continue
                if isinstance(v, ast.Call) and _dotted(v.func) in ("np.polynomial.polynomial.polyval",
                                                                   "numpy.polynomial.polynomial.polyval") \
                        and len(v.args) == 2 and not v.keywords and _data_all(v.args[0], roles) \
                        and roles.role(v.args[1]) == "coeff":
                    out.append(".polyval")
                    continue
            raise _bad(fname, st)
        # --- the helper call ------------------------------------------------------------------
        if isinstance(st, ast.Expr) and isinstance(st.value, ast.Call) and not ctx.get("leaf"):
            c = st.value
            if _dotted(c.func) in ("util.apply_polynomial", "apply_polynomial") and not c.keywords \
                    and [roles.role(a) for a in c.args] == ["coeff", "origin", "data"]:
                # the callee's parameters take the roles of the arguments, position by position
                ctx["apply_args"] = ["coeff", "origin", "data"]
                out.append(".callApply")
                continue
        raise _bad(fname, st)
    return _seq(out)


def _full_slice(node):
    return isinstance(node, ast.Slice) and node.lower is None and node.upper is None and node.step is None


def _data_all(node, roles):
    """`data` or `data[:]`"""
    if roles.role(node) == "data":
        return True
    return isinstance(node, ast.Subscript) and roles.role(node.value) == "data" and _full_slice(node.slice)


def read_path(repo):
    rel = "nixio/data_array.py"
    tree = _parse(repo, rel)
    cls = _class(tree, "DataArray", rel)
    fn = _func(cls, "_read_data", rel)
    ps = _params(fn)
    if len(ps) != 2:
        raise ExtractError("DataArray._read_data: expected (self, sl)")
    if len(fn.args.defaults) != 1 or not (isinstance(fn.args.defaults[0], ast.Constant)
                                          and fn.args.defaults[0].value is None):
        raise ExtractError("DataArray._read_data: the index parameter no longer defaults to None")
    # `util` must be nixio.util.util / nixio.util (from . import util  |  from .util import util ...)
    ctx = {"selfname": ps[0], "slname": ps[1], "clsname": "DataArray", "dtypes": datatype_table(repo)}
    body = _block("DataArray._read_data", _stmts(fn), _Roles("DataArray._read_data"), ctx, True)
    if not _stmts(fn) or not isinstance(_stmts(fn)[-1], ast.Return):
        raise ExtractError("DataArray._read_data does not end in `return data`")
    if "apply_args" not in ctx:
        apply_body = ".skip"
    else:
        rel2 = "nixio/util/util.py"
        fn2 = _func(_parse(repo, rel2), "apply_polynomial", rel2)
        ps2 = _params(fn2)
        if len(ps2) != 3 or fn2.args.defaults:
            raise ExtractError("util.apply_polynomial: expected three positional parameters")
        roles2 = _Roles("util.apply_polynomial", dict(zip(ps2, ctx["apply_args"])))
        apply_body = _block("util.apply_polynomial", _stmts(fn2), roles2, {"leaf": True}, True)
    return body, apply_body


# ------------------------------------------------------------------------------------------------
# DataView._read_data


def view_read(repo):
    rel = "nixio/data_view.py"
    cls = _class(_parse(repo, rel), "DataView", rel)
    fn = _func(cls, "_read_data", rel)
    ps = _params(fn)
    if len(ps) != 2 or len(fn.args.defaults) != 1 or not (isinstance(fn.args.defaults[0], ast.Constant)
                                                          and fn.args.defaults[0].value is None):
        raise ExtractError("DataView._read_data: expected (self, sl=None)")
    me, sl = ps
    tsl = None
    out = []
    name = "DataView._read_data"
    for st in _stmts(fn):
        # if not self.valid: return np.array([])
        if isinstance(st, ast.If) and not st.orelse and isinstance(st.test, ast.UnaryOp) \
                and isinstance(st.test.op, ast.Not) and _self_attr(st.test.operand, me, "valid") \
                and len(st.body) == 1 and isinstance(st.body[0], ast.Return):
            r = st.body[0].value
            if isinstance(r, ast.Call) and _dotted(r.func) == "np.array" and len(r.args) == 1 and not r.keywords \
                    and isinstance(r.args[0], ast.List) and not r.args[0].elts:
                out.append(".ifInvalidReturnEmpty")
                continue
        # tsl = self._slices
        if isinstance(st, ast.Assign) and len(st.targets) == 1 and isinstance(st.targets[0], ast.Name) \
                and _self_attr(st.value, me, "_slices") and tsl in (None, st.targets[0].id):
            tsl = st.targets[0].id
            out.append(".tslFromSlices")
            continue
        # if sl is not None: tsl = self._transform_coordinates(sl)
        if isinstance(st, ast.If) and not st.orelse and isinstance(st.test, ast.Compare) \
                and _is_name(st.test.left, sl) and len(st.test.ops) == 1 and isinstance(st.test.ops[0], ast.IsNot) \
                and isinstance(st.test.comparators[0], ast.Constant) and st.test.comparators[0].value is None \
                and len(st.body) == 1 and isinstance(st.body[0], ast.Assign):
            a = st.body[0]
            v = a.value
            if len(a.targets) == 1 and isinstance(a.targets[0], ast.Name) and (tsl in (None, a.targets[0].id)) \
                    and isinstance(v, ast.Call) and _self_attr(v.func, me, "_transform_coordinates") \
                    and len(v.args) == 1 and not v.keywords and _is_name(v.args[0], sl):
                tsl = a.targets[0].id
                out.append(".ifIndexTransform")
                continue
        # return self.array._read_data(tsl)
        if isinstance(st, ast.Return) and isinstance(st.value, ast.Call) and not st.value.keywords \
                and len(st.value.args) == 1 and tsl is not None and _is_name(st.value.args[0], tsl):
            f = st.value.func
            if isinstance(f, ast.Attribute) and f.attr == "_read_data" and _self_attr(f.value, me, "array"):
                out.append(".returnParentRead")
                continue
        raise _bad(name, st)
    # self.array must be the constructor's array argument, assigned once
    init = _func(cls, "__init__", rel)
    ips = _params(init)
    assigned = [n for n in ast.walk(cls) if isinstance(n, (ast.Assign, ast.AugAssign)) and any(
        _self_attr(t, ips[0], "array") or _self_attr(t, me, "array")
        for t in (n.targets if isinstance(n, ast.Assign) else [n.target]))]
    if len(ips) < 2 or len(assigned) != 1 or not _is_name(assigned[0].value, ips[1]):
        raise ExtractError("DataView.array is no longer just the constructor's array argument")
    return out


# ------------------------------------------------------------------------------------------------
# the calibration getters and setters


def _h5call(node, selfname, meth):
    """self._h5group.<meth>(...) -> list of argument nodes, else None"""
    if isinstance(node, ast.Call) and isinstance(node.func, ast.Attribute) and node.func.attr == meth \
            and _self_attr(node.func.value, selfname, "_h5group") and not node.keywords:
        return node.args
    return None


def _strconst(node):
    return node.value if isinstance(node, ast.Constant) and isinstance(node.value, str) else None


def _is_stamp_if(st, me):
    """if self.file.auto_update_timestamps: self.force_updated_at()"""
    if not (isinstance(st, ast.If) and not st.orelse and len(st.body) == 1):
        return False
    t = st.test
    if not (isinstance(t, ast.Attribute) and t.attr == "auto_update_timestamps" and _self_attr(t.value, me, "file")):
        return False
    b = st.body[0]
    return (isinstance(b, ast.Expr) and isinstance(b.value, ast.Call) and not b.value.args and not b.value.keywords
            and _self_attr(b.value.func, me, "force_updated_at"))


def getters_setters(repo):
    rel = "nixio/data_array.py"
    cls = _class(_parse(repo, rel), "DataArray", rel)
    dtypes = datatype_table(repo)
    # getters ------------------------------------------------------------------------------------
    g = _func(cls, "polynom_coefficients", rel, "property")
    me = _params(g)[0]
    body = _stmts(g)
    cname = None
    if len(body) == 1 and isinstance(body[0], ast.Return):
        v = body[0].value
        if isinstance(v, ast.Call) and _is_name(v.func, "tuple") and len(v.args) == 1 and not v.keywords:
            a = _h5call(v.args[0], me, "get_data")
            if a is not None and len(a) == 1:
                cname = _strconst(a[0])
    if cname is None:
        raise ExtractError("polynom_coefficients getter is no longer `tuple(self._h5group.get_data(<name>))`")
    g = _func(cls, "expansion_origin", rel, "property")
    me = _params(g)[0]
    body = _stmts(g)
    oname = None
    if len(body) == 1 and isinstance(body[0], ast.Return):
        a = _h5call(body[0].value, me, "get_attr")
        if a is not None and len(a) == 1:
            oname = _strconst(a[0])
    if oname is None:
        raise ExtractError("expansion_origin getter is no longer `self._h5group.get_attr(<name>)`")

    # coefficient setter ---------------------------------------------------------------------------
    s = _func(cls, "polynom_coefficients", rel, "setter")
    me, arg = _params(s)
    nm = "polynom_coefficients.setter"

    def scond(node):
        if isinstance(node, ast.BoolOp):
            op = ".or" if isinstance(node.op, ast.Or) else ".and"
            vals = [scond(v) for v in node.values]
            acc = vals[-1]
            for v in reversed(vals[:-1]):
                acc = "(%s %s %s)" % (op, v, acc)
            return acc
        if isinstance(node, ast.UnaryOp) and isinstance(node.op, ast.Not):
            return "(.not %s)" % scond(node.operand)
        if isinstance(node, ast.Compare) and len(node.ops) == 1:
            l, r = node.left, node.comparators[0]
            if _is_name(l, arg) and isinstance(node.ops[0], (ast.Is, ast.IsNot)) and isinstance(r, ast.Constant) \
                    and r.value is None:
                return ".argIsNone" if isinstance(node.ops[0], ast.Is) else "(.not .argIsNone)"
            if isinstance(node.ops[0], (ast.Eq, ast.NotEq)) and isinstance(l, ast.Call) and _is_name(l.func, "len") \
                    and len(l.args) == 1 and _is_name(l.args[0], arg) and isinstance(r, ast.Constant) \
                    and r.value == 0 and not isinstance(r.value, bool):
                return ".argLenZero" if isinstance(node.ops[0], ast.Eq) else "(.not .argLenZero)"
            if isinstance(node.ops[0], ast.NotEq) and isinstance(l, ast.Call) and _dotted(l.func) == "np.ndim" \
                    and len(l.args) == 1 and not l.keywords and _is_name(l.args[0], arg) \
                    and isinstance(r, ast.Constant) and r.value == 1 and not isinstance(r.value, bool):
                return ".argNotFlat"
        a = _h5call(node, me, "has_data")
        if a is not None and len(a) == 1 and _strconst(a[0]) is not None:
            return "(.hasData %s)" % lean_str(_strconst(a[0]))
        raise _bad(nm, node, "condition")

    def sblock(stmts, env):
        out = []
        for st in stmts:
            if _is_stamp_if(st, me):
                out.append(".stampIfAuto")
                continue
            # if <cond>: raise ValueError(...) / TypeError(...)
            if isinstance(st, ast.If) and not st.orelse and len(st.body) == 1 and isinstance(st.body[0], ast.Raise) \
                    and st.body[0].cause is None:
                exc = st.body[0].exc
                if isinstance(exc, ast.Call):
                    exc = exc.func
                if isinstance(exc, ast.Name) and exc.id in ("ValueError", "TypeError"):
                    out.append("(.raiseIf %s %s)" % (scond(st.test), {"ValueError": ".valueError",
                                                                     "TypeError": ".typeError"}[exc.id]))
                    continue
            if isinstance(st, ast.If):
                out.append("(.ite %s %s %s)" % (scond(st.test), sblock(st.body, env), sblock(st.orelse, env)))
                continue
            # del self._h5group[<name>]
            if isinstance(st, ast.Delete) and len(st.targets) == 1 and isinstance(st.targets[0], ast.Subscript) \
                    and _self_attr(st.targets[0].value, me, "_h5group") and _strconst(st.targets[0].slice) is not None:
                out.append("(.delItem %s)" % lean_str(_strconst(st.targets[0].slice)))
                continue
            # dtype = DataType.Double
            if isinstance(st, ast.Assign) and len(st.targets) == 1 and isinstance(st.targets[0], ast.Name) \
                    and st.targets[0].id != arg:
                d = _dotted(st.value)
                if d and d.startswith("DataType.") and d[9:] in dtypes:
                    env[st.targets[0].id] = dtypes[d[9:]]
                    continue
            # self._h5group.write_data(<name>, coeff, dtype)
            if isinstance(st, ast.Expr):
                a = _h5call(st.value, me, "write_data")
                if a is not None and len(a) == 3 and _strconst(a[0]) is not None and _is_name(a[1], arg):
                    d = env.get(a[2].id) if isinstance(a[2], ast.Name) else None
                    if d is None:
                        dd = _dotted(a[2])
                        if dd and dd.startswith("DataType.") and dd[9:] in dtypes:
                            d = dtypes[dd[9:]]
                    if d is not None:
                        out.append("(.writeData %s %s)" % (lean_str(_strconst(a[0])), d))
                        continue
            raise _bad(nm, st)
        return _seq(out)

    cset = sblock(_stmts(s), {})

    # origin setter --------------------------------------------------------------------------------
    s = _func(cls, "expansion_origin", rel, "setter")
    me, arg = _params(s)
    nm = "expansion_origin.setter"
    out = []
    for st in _stmts(s):
        if _is_stamp_if(st, me):
            out.append(".stampIfAuto")
            continue
        if isinstance(st, ast.Expr) and isinstance(st.value, ast.Call) and not st.value.keywords:
            c = st.value
            if _dotted(c.func) in ("util.check_attr_type", "check_attr_type") and len(c.args) == 2 \
                    and _is_name(c.args[0], arg) and _is_name(c.args[1], "Number"):
                out.append(".checkNumber")
                continue
            a = _h5call(c, me, "set_attr")
            if a is not None and len(a) == 2 and _strconst(a[0]) is not None and _is_name(a[1], arg):
                out.append("(.setAttr %s)" % lean_str(_strconst(a[0])))
                continue
        raise _bad(nm, st)
    oset = _seq(out)
    # `Number` must be numbers.Number
    tree = _parse(repo, rel)
    ok = any(isinstance(n, ast.ImportFrom) and n.module == "numbers" and any(
        a.name == "Number" and a.asname in (None, "Number") for a in n.names) for n in tree.body)
    if ".checkNumber" in out and not ok:
        raise ExtractError("data_array.py: `Number` is no longer numbers.Number")
    # util.check_attr_type: `if value is not None and not isinstance(value, type_): raise InvalidAttrType`
    rel2 = "nixio/util/util.py"
    chk = _func(_parse(repo, rel2), "check_attr_type", rel2)
    ps = _params(chk)
    b = _stmts(chk)
    good = False
    if len(ps) == 2 and len(b) == 1 and isinstance(b[0], ast.If) and not b[0].orelse and len(b[0].body) == 1 \
            and isinstance(b[0].body[0], ast.Raise):
        want = "%s is not None and (not isinstance(%s, %s))" % (ps[0], ps[0], ps[1])
        good = ast.unparse(b[0].test).replace("(", "").replace(")", "") == want.replace("(", "").replace(")", "")
    if not good:
        raise ExtractError("util.check_attr_type no longer is `if value is not None and not isinstance(...): raise`")
    return cname, oname, cset, oset


# ------------------------------------------------------------------------------------------------
# DataSet entry points: which of them are a plain self._read_data(...)


def entry_points(repo):
    rel = "nixio/data_set.py"
    cls = _class(_parse(repo, rel), "DataSet", rel)

    def is_read(node, me, arg):
        """self._read_data() / self._read_data(arg)"""
        if isinstance(node, ast.Call) and _self_attr(node.func, me, "_read_data") and not node.keywords:
            if arg is None:
                return len(node.args) == 0
            return len(node.args) == 1 and _is_name(node.args[0], arg)
        return False

    res = {}
    fn = _func(cls, "__getitem__", rel)
    me, ix = _params(fn)
    b = _stmts(fn)
    res["getitem"] = len(b) == 1 and isinstance(b[0], ast.Return) and is_read(b[0].value, me, ix)
    fn = _func(cls, "__array__", rel)
    me = _params(fn)[0]
    b = _stmts(fn)
    v = b[0].value if len(b) == 1 and isinstance(b[0], ast.Return) else None
    res["array"] = (isinstance(v, ast.Subscript) and _full_slice(v.slice) and is_read(v.value, me, None)) \
        or is_read(v, me, None)
    fn = _func(cls, "read_direct", rel)
    me, buf = _params(fn)
    b = _stmts(fn)
    res["read_direct"] = (len(b) == 1 and isinstance(b[0], ast.Assign) and len(b[0].targets) == 1
                          and isinstance(b[0].targets[0], ast.Subscript) and _is_name(b[0].targets[0].value, buf)
                          and _full_slice(b[0].targets[0].slice) and is_read(b[0].value, me, None))
    fn = _func(cls, "__iter__", rel)
    me = _params(fn)[0]
    b = _stmts(fn)
    good = False
    if len(b) == 1 and isinstance(b[0], ast.For) and not b[0].orelse and isinstance(b[0].target, ast.Name) \
            and len(b[0].body) == 1 and isinstance(b[0].body[0], ast.Expr) \
            and isinstance(b[0].body[0].value, ast.Yield):
        y = b[0].body[0].value.value
        good = (isinstance(y, ast.Subscript) and _is_name(y.value, me) and _is_name(y.slice, b[0].target.id))
    res["iter"] = good
    # neither DataArray nor DataView overrides the entry points
    for rel2, cname in (("nixio/data_array.py", "DataArray"), ("nixio/data_view.py", "DataView")):
        c2 = _class(_parse(repo, rel2), cname, rel2)
        for n in c2.body:
            if isinstance(n, ast.FunctionDef) and n.name in ("__getitem__", "__array__", "read_direct", "__iter__"):
                res[{"__getitem__": "getitem", "__array__": "array", "read_direct": "read_direct",
                     "__iter__": "iter"}[n.name]] = False
    return res


def render(repo):
    body, apply_body = read_path(repo)
    vbody = view_read(repo)
    cname, oname, cset, oset = getters_setters(repo)
    ep = entry_points(repo)
    return (
        "import NixModel.Pure.CalibPrim\n"
        "/-! GENERATED by harness/extract/calibshape.py from nixio/data_array.py, nixio/util/util.py,\n"
        "nixio/data_view.py, nixio/data_set.py — do not edit. -/\n"
        "namespace Nix.Poly.Gen\n"
        "open Nix.Poly\n\n"
        "/-- statements of `DataArray._read_data` (the final `return data` is implied) -/\n"
        "def readDataBody : Stmt :=\n  %s\n\n"
        "/-- statements of `util.apply_polynomial`, its parameters bound to the call's arguments -/\n"
        "def applyPolynomialBody : Stmt :=\n  %s\n\n"
        "/-- statements of `DataView._read_data` -/\n"
        "def viewReadBody : List VStmt := [%s]\n\n"
        "/-- HDF5 dataset read by the `polynom_coefficients` getter (`tuple(get_data(name))`) -/\n"
        "def coeffGetterName : String := %s\n"
        "/-- HDF5 attribute read by the `expansion_origin` getter (`get_attr(name)`) -/\n"
        "def originGetterName : String := %s\n\n"
        "/-- statements of the `polynom_coefficients` setter -/\n"
        "def coeffSetterBody : SStmt :=\n  %s\n\n"
        "/-- statements of the `expansion_origin` setter -/\n"
        "def originSetterBody : SStmt :=\n  %s\n\n"
        "/-- `DataSet.__getitem__(index)` is `return self._read_data(index)`, not overridden -/\n"
        "def getitemReads : Bool := %s\n"
        "/-- `DataSet.__array__()` is `return self._read_data()[:]`, not overridden -/\n"
        "def arrayReads : Bool := %s\n"
        "/-- `DataSet.read_direct(buf)` is `buf[:] = self._read_data()`, not overridden -/\n"
        "def readDirectReads : Bool := %s\n"
        "/-- `DataSet.__iter__` yields `self[idx]` for each index of the first axis, not overridden -/\n"
        "def iterReads : Bool := %s\n\n"
        "end Nix.Poly.Gen\n" % (body, apply_body, ", ".join(vbody), lean_str(cname), lean_str(oname), cset, oset,
                                 lean_bool(ep["getitem"]), lean_bool(ep["array"]), lean_bool(ep["read_direct"]),
                                 lean_bool(ep["iter"])))


def extract(repo):
    return {TARGET: render(repo)}
