"""C03 translator: the decision trees of nixio's container lookups -> lean/NixModel/Generated/ContShape.lean.

`Container.__contains__`, `LinkContainer.__contains__`, `Container.__getitem__`, `LinkContainer.__getitem__`
(nixio/container.py) and `H5Group.get_by_id_or_name`, `get_by_name`, `get_by_id`, `__contains__`
(nixio/hdf5/h5group.py) are read with `ast` and executed
symbolically, statement by statement (if / elif / else, `and`, `not`, return, raise, local bindings,
`try: <call> ... except KeyError: pass`, `for x in <backend>: if <test>: return <value>`), into decision trees

    DT ::= test <atom> <DT if true> <DT if false> | ret <atom> | raise <error class>

whose atoms are the tests and returned expressions of the code, in the code's own order. Every atom must be one of
the expressions listed in TESTS / RETS below (after renaming the key parameter to `item` and substituting local
bindings); the Lean vocabulary `NixModel/Store/ContShape.lean` gives each its meaning over the HDF5 graph, and the
theorems `Nix.C03.contains_shape_* / getitem_shape_* / h5_*_shape` prove that the generated trees compute the
model's `contHas` / `contGet` / `getByIdOrName` / `getByName` / `getById` for all graphs, containers and keys. So a change of the ORDER of the
tests, of a branch or of an outcome changes the generated tree and breaks a named theorem; an expression the
vocabulary does not know (e.g. membership decided from the path of the HDF5 object instead of object identity) is an
ExtractError (broken tie). Nothing is imported from nixio.
"""
import ast
import copy
import os

from .leanfmt import ExtractError

# expressions used as tests -> constructor of Nix.Store.TAtom
TESTS = {
    "hasattr(item, 'id')": "hasId",
    "isinstance(item, self._itemclass)": "isItemClass",
    "item.name not in self._backend": "nameNotInBackend",
    "util.is_uuid(item)": "isUuid",
    "isinstance(item, int)": "isInt",
    "item in self._backend": "inBackend",
    "ok:self._backend.get_by_id(item)": "getByIdOk",          # the call in a `try` does not raise KeyError
    "ok:self.get_by_id(item)": "getByIdOk",
    "scan:self._backend:item == grp.get_attr('name')": "scanNameFinds",
    # nixio/hdf5/h5group.py
    "self.group": "groupThere",                               # truth value of the h5py group (None: no such group)
    "self.group is None": "groupIsNone",
    "item in self.group": "nameInGroup",
    "scan:self:grp.get_attr('entity_id') == item": "scanIdFinds",
}
MINE = "(item._h5group.group if hasattr(item._h5group, 'group') else item._h5group.dataset)"
# returned expressions -> constructor of Nix.Store.RAtom
RETS = {
    "True": "true",
    "False": "false",
    "item in self._backend": "inBackend",
    "self._backend.group[item.name] == " + MINE: "sameObjUnderName",
    "item.id in self._backend": "idInBackend",
    "self._inst_item(self._backend.get_by_id_or_name(item))": "instGetByIdOrName",
    "self._inst_item(self._backend.get_by_name(item))": "instGetByName",
    "scanres:self._backend:item == grp.get_attr('name'):self._inst_item(grp)": "instScan",
    "super(LinkContainer, self).__getitem__(item)": "byPos",
    "self.get_by_id(item)": "getById",
    "self.get_by_name(item)": "getByName",
    "self.create_from_h5obj(self.group[item])": "fromGroup",
    "scanres:self:grp.get_attr('entity_id') == item:grp": "scanIdItem",
    "item in self.group": "inGroup",
}
ERRS = {"TypeError": "typeError", "KeyError": "keyError", "IndexError": "indexError", "ValueError": "valueError",
        "RuntimeError": "runtimeError"}

# `Container.__getitem__`: the positional branch (negative index from the end, range check, creation-order walk)
POS_TEMPLATE = ("if item < 0:\n    item = len(self) + item\nif item < 0 or item >= len(self):\n"
                "    raise IndexError('Index out of bounds: {}'.format(item))\nitem = self._backend.get_by_pos(item)")
POS_TAIL = "return self._inst_item(item)"

TARGETS = [("nixio/container.py", "Container", "__contains__", "containerContains"),
           ("nixio/container.py", "LinkContainer", "__contains__", "linkContains"),
           ("nixio/container.py", "Container", "__getitem__", "containerGetitem"),
           ("nixio/container.py", "LinkContainer", "__getitem__", "linkGetitem"),
           ("nixio/hdf5/h5group.py", "H5Group", "get_by_id_or_name", "h5GetByIdOrName"),
           ("nixio/hdf5/h5group.py", "H5Group", "get_by_name", "h5GetByName"),
           ("nixio/hdf5/h5group.py", "H5Group", "get_by_id", "h5GetById"),
           ("nixio/hdf5/h5group.py", "H5Group", "__contains__", "h5Contains")]


class _Subst(ast.NodeTransformer):
    def __init__(self, env):
        self.env = env

    def visit_Name(self, node):
        if isinstance(node.ctx, ast.Load) and node.id in self.env:
            return copy.deepcopy(self.env[node.id])
        return node


def _text(e, env):
    e = _Subst(env).visit(copy.deepcopy(e))
    return ast.unparse(ast.fix_missing_locations(e))


def _unparse_block(stmts):
    return "\n".join(ast.unparse(s) for s in stmts)


class _Sym:
    def __init__(self, where):
        self.where = where

    def bad(self, msg):
        raise ExtractError("%s: %s" % (self.where, msg))

    def test(self, key, yes, no):
        if key not in TESTS:
            self.bad("test outside the vocabulary: %s" % key)
        return ("test", TESTS[key], yes, no)

    def ret(self, key):
        if key not in RETS:
            self.bad("returned expression outside the vocabulary: %s" % key)
        return ("ret", RETS[key])

    def cond(self, e, env, yes, no):
        """a condition with `and` / `not` spelled out as nested tests (short-circuit order kept)"""
        if isinstance(e, ast.BoolOp) and isinstance(e.op, ast.And):
            out = yes
            for v in reversed(e.values):
                out = self.cond(v, env, out, no)
            return out
        if isinstance(e, ast.UnaryOp) and isinstance(e.op, ast.Not):
            return self.cond(e.operand, env, no, yes)
        return self.test(_text(e, env), yes, no)

    def block(self, stmts, env, k):
        if not stmts:
            return k(env)
        s, tail = stmts[0], stmts[1:]

        def cont(env2):
            return self.block(tail, env2, k)

        if isinstance(s, ast.Expr) and isinstance(s.value, ast.Constant):
            return cont(env)                                   # docstring
        if isinstance(s, ast.Pass):
            return cont(env)
        if isinstance(s, ast.Return):
            if s.value is None:
                self.bad("bare return")
            return self.ret(_text(s.value, env))
        if isinstance(s, ast.Raise):
            exc = s.exc.func if isinstance(s.exc, ast.Call) else s.exc
            name = exc.id if isinstance(exc, ast.Name) else None
            if name not in ERRS:
                self.bad("raise of %s" % ast.unparse(s))
            return ("raise", ERRS[name])
        if isinstance(s, ast.Assign) and len(s.targets) == 1 and isinstance(s.targets[0], ast.Name):
            env2 = dict(env)
            env2[s.targets[0].id] = _Subst(env).visit(copy.deepcopy(s.value))
            return cont(env2)
        if isinstance(s, ast.If):
            if _text(s.test, env) == "isinstance(item, int)" and _unparse_block(s.body) == POS_TEMPLATE:
                # the positional branch rebinds `item`; it is pinned as a whole, together with what follows it
                if _unparse_block(tail) != POS_TAIL:
                    self.bad("positional branch is not followed by `%s`" % POS_TAIL)
                no = self.block(s.orelse, env, cont)
                return ("test", "isInt", ("ret", "byPos"), no)
            yes = self.block(s.body, env, cont)
            no = self.block(s.orelse, env, cont)
            return self.cond(s.test, env, yes, no)
        if isinstance(s, ast.Try):
            ok_handlers = (len(s.handlers) == 1 and isinstance(s.handlers[0].type, ast.Name) and
                           s.handlers[0].type.id == "KeyError" and s.handlers[0].name is None and
                           all(isinstance(x, ast.Pass) for x in s.handlers[0].body))
            if not ok_handlers or s.orelse or s.finalbody:
                self.bad("try statement of another form: %s" % ast.unparse(s).splitlines()[0])
            body = s.body
            if len(body) == 1 and isinstance(body[0], ast.Return) and isinstance(body[0].value, ast.Call):
                call = _text(body[0].value, env)
                return self.test("ok:" + call, self.ret(call), cont(env))
            if len(body) == 2 and isinstance(body[0], ast.Expr) and isinstance(body[0].value, ast.Call) and \
                    isinstance(body[1], ast.Return):
                call = _text(body[0].value, env)
                return self.test("ok:" + call, self.ret(_text(body[1].value, env)), cont(env))
            self.bad("try body of another form")
        if isinstance(s, ast.For):
            if s.orelse or not isinstance(s.target, ast.Name) or len(s.body) != 1 or not isinstance(s.body[0], ast.If) \
                    or s.body[0].orelse or len(s.body[0].body) != 1 or not isinstance(s.body[0].body[0], ast.Return):
                self.bad("for loop of another form")
            # the loop variable is called `grp` in the vocabulary, whatever the code calls it (it may even reuse the
            # name the key parameter is normalised to)
            env2 = {k2: v for k2, v in env.items() if k2 != s.target.id}
            loopvar = {s.target.id: ast.Name(id="grp", ctx=ast.Load())}

            def txt(e):
                e = _Subst(loopvar).visit(copy.deepcopy(e))
                return _text(e, env2)

            it = _text(s.iter, env)
            tst = txt(s.body[0].test)
            val = txt(s.body[0].body[0].value)
            key = "scan:%s:%s" % (it, tst)
            if val == "True":
                return self.test(key, self.ret("True"), cont(env))
            return self.test(key, self.ret("scanres:%s:%s:%s" % (it, tst, val)), cont(env))
        self.bad("statement outside the subset: %s" % ast.unparse(s).splitlines()[0])


def _render(dt, indent):
    pad = " " * indent
    if dt[0] == "test":
        return "%s(.test .%s\n%s\n%s)" % (pad, dt[1], _render(dt[2], indent + 2), _render(dt[3], indent + 2))
    if dt[0] == "ret":
        return "%s(.ret .%s)" % (pad, dt[1])
    return "%s(.raise .%s)" % (pad, dt[1])


def tree_of(repo, rel, cls, fname):
    try:
        tree = ast.parse(open(os.path.join(repo, rel), encoding="utf-8").read())
    except (OSError, SyntaxError) as e:
        raise ExtractError("cannot read %s: %s" % (rel, e))
    cdef = next((n for n in tree.body if isinstance(n, ast.ClassDef) and n.name == cls), None)
    if cdef is None:
        raise ExtractError("%s: class %s not found" % (rel, cls))
    fn = next((n for n in cdef.body if isinstance(n, ast.FunctionDef) and n.name == fname), None)
    if fn is None:
        raise ExtractError("%s: %s.%s not found" % (rel, cls, fname))
    args = [a.arg for a in fn.args.args]
    if len(args) != 2 or args[0] != "self" or fn.args.vararg or fn.args.kwarg or fn.args.kwonlyargs or fn.args.defaults:
        raise ExtractError("%s.%s: unexpected signature" % (cls, fname))
    env = {} if args[1] == "item" else {args[1]: ast.Name(id="item", ctx=ast.Load())}
    sym = _Sym("%s.%s" % (cls, fname))

    def fell(_env):
        sym.bad("control reaches the end of the function (returns None)")

    return sym.block(fn.body, env, fell)


def extract(repo):
    defs = []
    for rel, cls, fname, lean_name in TARGETS:
        dt = tree_of(repo, rel, cls, fname)
        defs.append("/-- `%s.%s` (%s) -/\ndef %s : DT :=\n%s\n" % (cls, fname, rel, lean_name, _render(dt, 2)))
    text = ("import NixModel.Store.ContShape\n"
            "/-! GENERATED by harness/extract/c03_contshape.py from nixio/container.py and nixio/hdf5/h5group.py — do not "
            "edit.\nDecision trees of the container lookups: tests and outcomes in the order of the code. -/\n"
            "namespace Nix.Gen\nopen Nix.Store\n\n%s\nend Nix.Gen\n" % "\n".join(defs))
    return {"NixModel/Generated/ContShape.lean": text}
