"""Translator: the setters of text vectors  ->  NixModel/Generated/TextVecOrder.lean                  (property C12)

    BaseTag.units (Tag.units, MultiTag.units), SetDimension.labels  - through H5Group.write_data with a text dtype
    DataFrame.units                                                 - through H5Group.set_attr with a vector

rendered statement by statement with `write_data` / `set_attr` inlined over the vocabulary of
NixModel/Pure/TextVecWrite.lean.  `Props/C12TextVec.lean` evaluates the discipline `safe` on the lists: a validation
loop moved behind the write, the text check dropped from `write_data` or from the vector branch of `set_attr` changes a
list and breaks `text_vector_setters_safe`.  Unknown statement = ExtractError.  Parsed with `ast`, never imported.
"""
import ast
import os

from .leanfmt import ExtractError

TARGET = "NixModel/Generated/TextVecOrder.lean"
STAMP = "if self.file.auto_update_timestamps:\n    self.force_updated_at()"


def _u(n):
    return ast.unparse(n)


def _E(src):
    return ast.unparse(ast.parse(src).body[0])


def _parse(repo, rel):
    try:
        with open(os.path.join(repo, rel), encoding="utf-8") as fh:
            return ast.parse(fh.read())
    except (OSError, SyntaxError) as e:
        raise ExtractError("%s: %s" % (rel, e))


def _body(stmts):
    return [st for st in stmts if not (isinstance(st, ast.Expr) and isinstance(st.value, ast.Constant))]


def _fail(where, st):
    raise ExtractError("%s line %d: statement not modelled: %s" % (where, st.lineno, _u(st)[:110]))


def _fn(tree, cls, name, rel, setter=False):
    for c in tree.body:
        if isinstance(c, ast.ClassDef) and c.name == cls:
            for f in c.body:
                if isinstance(f, ast.FunctionDef) and f.name == name and \
                        (not setter or [_u(d) for d in f.decorator_list] == ["%s.setter" % name]) and \
                        (setter or not f.decorator_list):
                    return f
    raise ExtractError("%s: %s.%s not found" % (rel, cls, name))


TEXT_CHECK = ("for val in np.ravel(np.asarray(data, dtype=object)):\n    if isinstance(val, str):\n"
              "        util.check_text_storable(val)")


def _write_data_text(fn, where):
    """H5Group.write_data called with a text dtype"""
    steps = []
    for st in _body(fn.body):
        s = _u(st)
        if isinstance(st, ast.If) and _u(st.test) == _E("dtype is not None and np.dtype(dtype).kind == 'f'"):
            # the float branch is not taken; the text branch must be the elif
            if not (len(st.orelse) == 1 and isinstance(st.orelse[0], ast.If) and not st.orelse[0].orelse and
                    _u(st.orelse[0].test) == _E("dtype is not None and np.dtype(dtype).kind in 'OUS'") and
                    [_u(x) for x in st.orelse[0].body] == [_E(TEXT_CHECK)]):
                continue                # no text check: the list simply lacks the guard
            steps.append(".guard .elemsStorable")
        elif s == _E("shape = np.shape(data)"):
            continue
        elif isinstance(st, ast.If) and _u(st.test) == _E("self.has_data(name)"):
            if [_u(x) for x in st.body] != [_E("dset = self.get_dataset(name)"), _E("dset.shape = shape")] or \
                    [_u(x) for x in st.orelse] != [_E("if dtype is None:\n    dtype = DataType.get_dtype(data[0])"),
                                                   _E("dset = self.create_dataset(name, shape, dtype, compression)")]:
                _fail(where, st)
            steps.append(".write .resizeOrCreate")
        elif s == _E("dset.write_data(data)"):
            steps.append(".write .writeVec")
        else:
            _fail(where, st)
    return steps


def _set_attr_vector(fn, where):
    """H5Group.set_attr called with a list / ndarray"""
    steps = []
    for st in _body(fn.body):
        s = _u(st)
        if s == _E("self._create_h5obj()"):
            steps.append(".write .ensureGroup")
        elif isinstance(st, ast.If) and _u(st.test) == _E("value is None"):
            for x in _body(st.orelse):
                if isinstance(x, ast.If) and _u(x.test) == _E("isinstance(value, str)"):
                    vec = [y for y in x.orelse if isinstance(y, ast.If) and
                           _u(y.test) == _E("isinstance(value, (list, tuple, np.ndarray))")]
                    if vec and [_u(z) for z in vec[0].body] == [_E(TEXT_CHECK.replace("data", "value"))]:
                        steps.append(".guard .elemsStorable")
                elif _u(x) == _E("self.group.attrs[name] = value"):
                    steps.append(".write .setVecAttr")
                else:
                    _fail(where, x)
        else:
            _fail(where, st)
    return steps


def _units(fn, wd, where):
    arg = fn.args.args[1].arg
    out = {}
    for falsy in (True, False):
        steps = []
        for st in _body(fn.body):
            s = _u(st)
            if isinstance(st, ast.If) and _u(st.test) == _E("not %s" % arg):
                steps.append(".guard .truthDefined")
                if falsy:
                    if [_u(x) for x in st.body] != [_E("if self._h5group.has_data('units'):\n    del self._h5group['units']")]:
                        _fail(where, st)
                    steps.append(".write .deleteIfPresent")
                    continue
                for x in _body(st.orelse):
                    sx = _u(x)
                    if sx in (_E("sanitized = []"), _E("dtype = DataType.String")):
                        continue
                    if sx == _E("for unit in %s:\n    util.check_attr_type(unit, str)\n    unit = util.units.sanitizer(unit)\n"
                                "    sanitized.append(unit)" % arg):
                        steps.append(".guard .loopOk")
                    elif sx == _E("self._h5group.write_data('units', sanitized, dtype)"):
                        steps += wd
                    else:
                        _fail(where, x)
            elif s == _E(STAMP):
                steps.append(".write .stamp")
            else:
                _fail(where, st)
        out[falsy] = steps
    return out


def _labels(fn, wd, where):
    arg = fn.args.args[1].arg
    steps = []
    for st in _body(fn.body):
        s = _u(st)
        if isinstance(st, ast.If) and _u(st.test) == _E("self.has_link") and len(st.body) == 1 and isinstance(st.body[0], ast.Raise):
            steps.append(".guard .notLinked")
        elif s == _E("dt = util.vlen_str_dtype"):
            continue
        elif isinstance(st, ast.If) and _u(st.test) == _E("not hasattr(%s, '__iter__') or isinstance(%s, str)" % (arg, arg)) and \
                len(st.body) == 1 and isinstance(st.body[0], ast.Raise):
            steps.append(".guard .listLike")
        elif isinstance(st, ast.For) and _u(st.iter) == arg and len(st.body) == 1 and isinstance(st.body[0], ast.If) and \
                _u(st.body[0].test) == _E("not isinstance(label, str)") and isinstance(st.body[0].body[0], ast.Raise):
            steps.append(".guard .loopOk")
        elif s == _E("if not isinstance(%s, list):\n    %s = list(%s)" % (arg, arg, arg)):
            continue
        elif s == _E("self._h5group.write_data('labels', %s, dtype=dt)" % arg):
            steps += wd
        else:
            _fail(where, st)
    return {True: steps, False: steps}


def _frame_units(fn, sa, where):
    arg = fn.args.args[1].arg
    steps = []
    for st in _body(fn.body):
        s = _u(st)
        if s == _E("units_arr = np.array(%s, util.vlen_str_dtype)" % arg):
            steps.append(".guard .arrayOk")
        elif isinstance(st, ast.If) and _u(st.test) == _E("units_arr.shape != (len(self.column_names),)") and \
                len(st.body) == 1 and isinstance(st.body[0], ast.Raise):
            steps.append(".guard .countOk")
        elif s == _E("for idx, unit in enumerate(units_arr):\n    if unit is not None:\n        unit = util.units.sanitizer(unit)\n"
                     "        util.check_attr_type(unit, str)\n        units_arr[idx] = unit\n    else:\n        units_arr[idx] = ''"):
            steps.append(".guard .loopOk")
        elif s == _E("self._h5group.set_attr('units', units_arr)"):
            steps += sa
        elif s == _E(STAMP):
            steps.append(".write .stamp")
        else:
            _fail(where, st)
    return {True: steps, False: steps}


def extract(repo):
    h5g = _parse(repo, "nixio/hdf5/h5group.py")
    wd = _write_data_text(_fn(h5g, "H5Group", "write_data", "nixio/hdf5/h5group.py"), "H5Group.write_data")
    sa = _set_attr_vector(_fn(h5g, "H5Group", "set_attr", "nixio/hdf5/h5group.py"), "H5Group.set_attr")
    fns = [
        ("baseTagUnits", "BaseTag.units (Tag.units, MultiTag.units)",
         _units(_fn(_parse(repo, "nixio/tag.py"), "BaseTag", "units", "nixio/tag.py", True), wd, "BaseTag.units")),
        ("setDimensionLabels", "SetDimension.labels",
         _labels(_fn(_parse(repo, "nixio/dimensions.py"), "SetDimension", "labels", "nixio/dimensions.py", True), wd,
                 "SetDimension.labels")),
        ("dataFrameUnits", "DataFrame.units",
         _frame_units(_fn(_parse(repo, "nixio/data_frame.py"), "DataFrame", "units", "nixio/data_frame.py", True), sa,
                      "DataFrame.units")),
    ]

    def lst(xs):
        return "[" + ", ".join(xs) + "]"
    out = ["import NixModel.Pure.TextVecWrite",
           "/-! GENERATED by harness/extract/textorder.py from nixio/tag.py, dimensions.py, data_frame.py, hdf5/h5group.py - do not edit -/",
           "namespace Nix.Generated.TextVecOrder", "open Nix.Guarded Nix.TextVecWrite", "",
           "/-- `H5Group.write_data(name, data, <text dtype>)`: its statements in source order -/",
           "def writeDataText : List TStep := %s" % lst(wd), "",
           "/-- `H5Group.set_attr(name, <list / ndarray>)` -/",
           "def setAttrVector : List TStep := %s" % lst(sa), ""]
    for lname, pyname, paths in fns:
        out += ["/-- the `%s` setter, callee inlined: a falsy value / any other -/" % pyname, "def %s : Setter" % lname,
                "  | true => %s" % lst(paths[True]), "  | false => %s" % lst(paths[False]), ""]
    out += ["def all : List (String × Setter) :=",
            "  [" + ", ".join('("%s", %s)' % (py.split(" ")[0], ln) for ln, py, _ in fns) + "]", "",
            "end Nix.Generated.TextVecOrder", ""]
    return {TARGET: "\n".join(out)}
