"""C03 translator: the *shape* of nixio's create functions -> lean/NixModel/Generated/CreateShape.lean.

For every create function (block.py: create_multi_tag / create_tag / create_source / create_group /
create_data_array / create_data_frame; section.py: create_section; source.py: create_source; file.py: create_block /
create_section) the translator reads with `ast`
  * the container whose membership test guards `raise DuplicateName` (`if name in <c>: raise ...DuplicateName(...)`),
  * the container handed to `<Class>.create_new(...)` as HDF5 parent, and the class created,
resolving a local variable bound by `self._h5group.open_group("<literal>"[, True])` to that literal. The theorems
`Nix.C03.create_shape_*` state over the generated table that every function tests the container it creates into and
that the containers are the ones of the model (`containerInfo` / `createSpec` / `createFrame`). An edit that makes a
create function test or fill another container changes the table (a named theorem breaks); a refactoring the
translator cannot follow raises ExtractError (broken tie). Nothing is imported from nixio.
"""
import ast
import os

from .leanfmt import ExtractError, lean_str

TARGETS = [("nixio/block.py", "Block", ["create_multi_tag", "create_tag", "create_source", "create_group",
                                        "create_data_array", "create_data_frame"]),
           ("nixio/section.py", "Section", ["create_section"]),
           ("nixio/source.py", "Source", ["create_source"]),
           ("nixio/file.py", "File", ["create_block", "create_section"])]


def _is_dupname(node):
    """raise [exceptions.]DuplicateName(...)"""
    if not isinstance(node, ast.Raise) or node.exc is None:
        return False
    f = node.exc.func if isinstance(node.exc, ast.Call) else node.exc
    return (isinstance(f, ast.Attribute) and f.attr == "DuplicateName") or \
           (isinstance(f, ast.Name) and f.id == "DuplicateName")


def _shape(fn, where):
    opened = {}
    for n in ast.walk(fn):
        if isinstance(n, ast.Assign) and len(n.targets) == 1 and isinstance(n.targets[0], ast.Name) and \
                isinstance(n.value, ast.Call) and isinstance(n.value.func, ast.Attribute) and \
                n.value.func.attr == "open_group" and ast.unparse(n.value.func.value) == "self._h5group" and \
                n.value.args and isinstance(n.value.args[0], ast.Constant) and isinstance(n.value.args[0].value, str):
            opened[n.targets[0].id] = n.value.args[0].value

    def cont(e):
        if isinstance(e, ast.Name) and e.id in opened:
            return opened[e.id]
        return ast.unparse(e)

    dups = []
    for n in ast.walk(fn):
        if isinstance(n, ast.If) and any(_is_dupname(x) for x in n.body):
            t = n.test
            if isinstance(t, ast.Compare) and len(t.ops) == 1 and isinstance(t.ops[0], ast.In) and \
                    isinstance(t.left, ast.Name) and t.left.id == "name":
                dups.append(cont(t.comparators[0]))
            else:
                raise ExtractError("%s: DuplicateName is raised under a test that is not `name in <container>`: %s"
                                   % (where, ast.unparse(t)))
    dups = sorted(set(dups))
    if len(dups) != 1:
        raise ExtractError("%s: expected exactly one container guarded by DuplicateName, found %r" % (where, dups))
    creates = []
    for n in ast.walk(fn):
        if isinstance(n, ast.Call) and isinstance(n.func, ast.Attribute) and n.func.attr == "create_new" and \
                isinstance(n.func.value, ast.Name):
            cls = n.func.value.id
            idx = 1 if cls == "Block" else 2          # Block.create_new(nixparent, h5parent, ...), else (file, parent, h5parent, ...)
            if len(n.args) <= idx:
                raise ExtractError("%s: %s.create_new with too few positional arguments" % (where, cls))
            creates.append((cls, cont(n.args[idx])))
    if len(creates) != 1:
        raise ExtractError("%s: expected exactly one <Class>.create_new call, found %r" % (where, creates))
    return dups[0], creates[0][1], creates[0][0]


def extract(repo):
    rows = []
    for rel, cls, fns in TARGETS:
        try:
            tree = ast.parse(open(os.path.join(repo, rel), encoding="utf-8").read())
        except (OSError, SyntaxError) as e:
            raise ExtractError("cannot read %s: %s" % (rel, e))
        cdef = next((n for n in tree.body if isinstance(n, ast.ClassDef) and n.name == cls), None)
        if cdef is None:
            raise ExtractError("%s: class %s not found" % (rel, cls))
        for fname in fns:
            fn = next((n for n in cdef.body if isinstance(n, ast.FunctionDef) and n.name == fname), None)
            if fn is None:
                raise ExtractError("%s: %s.%s not found" % (rel, cls, fname))
            dup, into, made = _shape(fn, "%s.%s" % (cls, fname))
            rows.append((cls, fname, dup, into, made))
    body = ",\n   ".join("(%s, %s, %s, %s, %s)" % tuple(lean_str(x) for x in r) for r in rows)
    text = ("/-! GENERATED by harness/extract/c03_createshape.py from nixio/block.py, section.py, source.py, file.py — "
            "do not edit.\n(owner class, create function, container tested before `raise DuplicateName`, container "
            "handed to `create_new`, class created) -/\nnamespace Nix.Gen\n\n"
            "def createShape : List (String × String × String × String × String) :=\n  [%s]\n\nend Nix.Gen\n" % body)
    return {"NixModel/Generated/CreateShape.lean": text}
