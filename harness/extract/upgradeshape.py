"""Translator: nixio/cmd/upgrade.py, nixio/dimensions.py, nixio/property.py  ->  NixModel/Generated/UpgradeShape.lean      (property C18)

Parses the source with `ast` (never imports it) and renders the *shape* of the upgrade as Lean data over the
vocabulary of `NixModel/Pure/UpgradeShape.lean`:

* `collect_tasks`: the comparison after which nothing is scheduled (`file_ver <op> nix.file.HDF_FF_VERSION`), and the
  task constructors in the order their results are appended (+ whether the append is conditional on a result);
* `process_tasks`: the direction of the loop that runs the tasks;
* `add_file_id`: outer test and re-check inside the closure;
* `update_property_values`: the test that finds compound datasets, the re-check inside the loop (boolean expressions
  over atoms), the operations of one conversion in source order (delete, create main, the rules for the per-value
  extras: field, test `len(set(x)) > 1` / `any(x)`, action create `<name><suffix>` / set attribute to `x[0]`,
  `if` / `elif` chaining), and the names tested before anything is changed (refusal when a needed name is taken);
* `update_alias_range_dimension`: detection test, re-check, operations of one conversion in source order;
* `update_format_version`: the attribute written and its value;
* `nixio/dimensions.py` `RangeDimension.is_alias` (if/elif chain of tests -> bool) and, for the getters `ticks`,
  `unit`, `label`, from where the answer is read (the group behind the alias link / the DimensionLink / the dimension
  group) under which test -- the readers through which "reads as before" is stated.

Anything the translator does not recognise raises ExtractError (broken tie: the check goes looking for a failing
input).  The theorems `Nix.C18.C18_shape_*` interpret these constants and prove them equal to the hand-written model
(`collect`, `converted`, the re-checked preconditions), so an edit of the source that changes the order of the tasks,
the direction of the loop, a test, a suffix or the order of delete/create fails `lake build` on a named theorem.
"""
import ast
import os

from .leanfmt import ExtractError, lean_bool, lean_str

TARGET = "NixModel/Generated/UpgradeShape.lean"
SOURCE = os.path.join("nixio", "cmd", "upgrade.py")
CMP = {ast.GtE: ".ge", ast.Gt: ".gt", ast.Eq: ".eq", ast.LtE: ".le", ast.Lt: ".lt", ast.NotEq: ".ne"}


def _func(body, name, where="module"):
    fn = None
    for n in body:
        if isinstance(n, ast.FunctionDef) and n.name == name:
            fn = n
    if fn is None:
        raise ExtractError("%s has no function %s" % (where, name))
    return fn


def _nodoc(stmts):
    return [s for s in stmts if not (isinstance(s, ast.Expr) and isinstance(s.value, ast.Constant)
                                     and isinstance(s.value.value, str))]


def _is_name(n, name=None):
    return isinstance(n, ast.Name) and (name is None or n.id == name)


def _is_lib_version(n):
    return ast.unparse(n) == "nix.file.HDF_FF_VERSION"


def _call_name(n):
    """name of a plain call `f(...)`, else None"""
    if isinstance(n, ast.Call) and isinstance(n.func, ast.Name):
        return n.func.id
    return None


# ------------------------------------------------------------------------------------------------
# boolean expressions over atoms


def bexp(n, atom):
    """render a Python test as a Lean `BExp`; `atom(node)` names a leaf or raises ExtractError"""
    if isinstance(n, ast.BoolOp):
        op = ".and" if isinstance(n.op, ast.And) else ".or"
        parts = [bexp(v, atom) for v in n.values]
        out = parts[-1]
        for p in reversed(parts[:-1]):
            out = "(%s %s %s)" % (op, p, out)
        return out
    if isinstance(n, ast.UnaryOp) and isinstance(n.op, ast.Not):
        return "(.not %s)" % bexp(n.operand, atom)
    if isinstance(n, ast.Compare) and len(n.ops) == 1 and isinstance(n.ops[0], ast.NotIn):
        pos = ast.Compare(left=n.left, ops=[ast.In()], comparators=n.comparators)
        return "(.not %s)" % bexp(pos, atom)
    return "(.atom %s)" % lean_str(atom(n))


def _member_atom(container):
    def atom(n):
        if (isinstance(n, ast.Compare) and len(n.ops) == 1 and isinstance(n.ops[0], ast.In)
                and _is_name(n.comparators[0], container)):
            left = n.left
            if isinstance(left, ast.Constant) and isinstance(left.value, str):
                return "has:" + left.value
            if _is_name(left, "daid"):
                return "has:<array id>"
        raise ExtractError("line %d: test %s is not modelled" % (n.lineno, ast.unparse(n)))
    return atom


def _dataset_atom(var):
    def atom(n):
        s = ast.unparse(n)
        if s == "isinstance(%s, h5py.Dataset)" % var:
            return "dataset"
        if s == "len(%s.dtype)" % var:
            return "compound"
        raise ExtractError("line %d: test %s is not modelled" % (n.lineno, s))
    return atom


# ------------------------------------------------------------------------------------------------
# collect_tasks / process_tasks


def collect_shape(mod):
    fn = _func(mod.body, "collect_tasks")
    op = None
    order = []
    pending = {}            # variable -> constructor
    tasks_var = None
    for st in _nodoc(fn.body):
        if isinstance(st, ast.Assign) and len(st.targets) == 1 and _is_name(st.targets[0]):
            tgt = st.targets[0].id
            if isinstance(st.value, ast.Call) and ast.unparse(st.value.func) in ("list",) and not st.value.args:
                tasks_var = tgt
                continue
            if isinstance(st.value, ast.List) and not st.value.elts:
                tasks_var = tgt
                continue
            cn = _call_name(st.value)
            if cn in ("add_file_id", "update_property_values", "update_alias_range_dimension",
                      "update_format_version"):
                pending[tgt] = cn
                continue
            if cn == "get_file_version" or tgt in ("file_verstr", "lib_verstr"):
                continue
            raise ExtractError("collect_tasks line %d: assignment %s is not modelled" % (st.lineno, ast.unparse(st)))
        if isinstance(st, ast.If):
            t = st.test
            if (isinstance(t, ast.Compare) and len(t.ops) == 1 and _is_name(t.left, "file_ver")
                    and _is_lib_version(t.comparators[0]) and type(t.ops[0]) in CMP):
                if op is not None or order or pending:
                    raise ExtractError("collect_tasks line %d: version test is not the first step" % st.lineno)
                if not (len(st.body) == 1 and isinstance(st.body[0], ast.Return)) or st.orelse:
                    raise ExtractError("collect_tasks line %d: version test does not just return" % st.lineno)
                op = CMP[type(t.ops[0])]
                continue
            if _is_name(t) and t.id in pending and len(st.body) == 1 and not st.orelse:
                c = _append_arg(st.body[0], tasks_var)
                if _is_name(c, t.id):
                    order.append((pending.pop(t.id), True))
                    continue
            raise ExtractError("collect_tasks line %d: `if %s` is not modelled" % (st.lineno, ast.unparse(t)))
        if isinstance(st, ast.Expr):
            c = _append_arg(st, tasks_var)
            if c is not None:
                if _is_name(c) and c.id in pending:
                    order.append((pending.pop(c.id), False))
                    continue
                cn = _call_name(c)
                if cn is not None:
                    order.append((cn, False))
                    continue
            raise ExtractError("collect_tasks line %d: statement %s is not modelled" % (st.lineno, ast.unparse(st)))
        if isinstance(st, ast.Return):
            continue
        raise ExtractError("collect_tasks line %d: %s is not modelled" % (st.lineno, type(st).__name__))
    if op is None:
        raise ExtractError("collect_tasks: no version test")
    if pending:
        raise ExtractError("collect_tasks: task(s) %s built but never scheduled" % sorted(pending.values()))
    return op, order


def _append_arg(st, tasks_var):
    if (isinstance(st, ast.Expr) and isinstance(st.value, ast.Call) and isinstance(st.value.func, ast.Attribute)
            and st.value.func.attr == "append" and _is_name(st.value.func.value, tasks_var)
            and len(st.value.args) == 1):
        return st.value.args[0]
    return None


def process_shape(mod):
    fn = _func(mod.body, "process_tasks")
    loops = [s for s in ast.walk(fn) if isinstance(s, (ast.For, ast.While))]
    if len(loops) != 1 or not isinstance(loops[0], ast.For):
        raise ExtractError("process_tasks: expected exactly one `for` loop over the task list")
    lp = loops[0]
    if not (_is_name(lp.target) and len(lp.body) == 1 and isinstance(lp.body[0], ast.Expr)
            and isinstance(lp.body[0].value, ast.Call) and _is_name(lp.body[0].value.func, lp.target.id)
            and not lp.body[0].value.args and not lp.orelse):
        raise ExtractError("process_tasks line %d: loop body is not `task()`" % lp.lineno)
    if _is_name(lp.iter, "tasklist"):
        return ".forward"
    if _call_name(lp.iter) == "reversed" and len(lp.iter.args) == 1 and _is_name(lp.iter.args[0], "tasklist"):
        return ".backward"
    raise ExtractError("process_tasks line %d: iteration over %s is not modelled" % (lp.lineno, ast.unparse(lp.iter)))


# ------------------------------------------------------------------------------------------------
# add_file_id / update_format_version


def id_shape(mod):
    fn = _func(mod.body, "add_file_id")
    body = _nodoc(fn.body)
    outer = (len(body) >= 1 and isinstance(body[0], ast.If) and ast.unparse(body[0].test) == "has_valid_file_id(fname)"
             and len(body[0].body) == 1 and isinstance(body[0].body[0], ast.Return))
    inner = _func(fn.body, "add_id", "add_file_id")
    w = [s for s in _nodoc(inner.body)]
    if not (len(w) == 1 and isinstance(w[0], ast.With)):
        raise ExtractError("add_id: expected one `with h5py.File(...)` block")
    _check_open(w[0], "add_id")
    stmts = w[0].body
    recheck = False
    wrote = False
    for st in stmts:
        if (isinstance(st, ast.If) and ast.unparse(st.test) == "has_valid_file_id(fname)" and len(st.body) == 1
                and isinstance(st.body[0], ast.Return) and st.body[0].value is None and not st.orelse):
            if wrote:
                raise ExtractError("add_id: re-check after the write")
            recheck = True
        elif isinstance(st, ast.Assign) and ast.unparse(st.targets[0]) == "hfile.attrs['id']":
            if ast.unparse(st.value) != "nix.util.create_id()":
                raise ExtractError("add_id: id is not nix.util.create_id()")
            wrote = True
        else:
            raise ExtractError("add_id line %d: %s is not modelled" % (st.lineno, ast.unparse(st)))
    if not wrote:
        raise ExtractError("add_id does not write the id")
    return outer, recheck


def _check_open(w, where):
    if not (len(w.items) == 1 and ast.unparse(w.items[0].context_expr).replace('"', "'")
            == "h5py.File(fname, mode='a')" and _is_name(w.items[0].optional_vars, "hfile")):
        raise ExtractError("%s: file is not opened as `with h5py.File(fname, mode='a') as hfile`" % where)


def bump_shape(mod):
    fn = _func(mod.body, "update_format_version")
    inner = _func(fn.body, "update_ver", "update_format_version")
    w = _nodoc(inner.body)
    if not (len(w) == 1 and isinstance(w[0], ast.With)):
        raise ExtractError("update_ver: expected one `with` block")
    _check_open(w[0], "update_ver")
    st = w[0].body
    if not (len(st) == 1 and isinstance(st[0], ast.Assign) and ast.unparse(st[0].targets[0]) == "hfile.attrs['version']"
            and _is_lib_version(st[0].value)):
        raise ExtractError("update_ver does not just write nix.file.HDF_FF_VERSION to the version attribute")
    return True


# ------------------------------------------------------------------------------------------------
# update_property_values


def _test_of(n, fields):
    """`len(set(x)) > 1` / `any(x)` on a variable holding a field of the old row"""
    s = ast.unparse(n)
    for var, field in fields.items():
        if s == "len(set(%s)) > 1" % var:
            return field, ".distinctGt1"
        if s == "any(%s)" % var:
            return field, ".anyTruthy"
    raise ExtractError("update_props line %d: test %s is not modelled" % (n.lineno, s))


def _dtype_of(n):
    s = ast.unparse(n)
    if s == "float":
        return "float64"
    if s == "nix.util.vlen_str_dtype":
        return "str"
    raise ExtractError("update_props line %d: dtype %s is not modelled" % (n.lineno, s))


def props_shape(mod):
    fn = _func(mod.body, "update_property_values")
    finder = _func([n for w in fn.body if isinstance(w, ast.With) for n in w.body], "find_props",
                   "update_property_values")
    fb = _nodoc(finder.body)
    gvar = finder.args.args[1].arg
    if not (len(fb) == 1 and isinstance(fb[0], ast.If) and not fb[0].orelse and len(fb[0].body) == 1
            and ast.unparse(fb[0].body[0]) == "props.append(%s.name)" % gvar):
        raise ExtractError("find_props: expected `if <test>: props.append(group.name)` and nothing else "
                           "(the callback must return None for visititems to continue)")
    find = bexp(fb[0].test, _dataset_atom(gvar))
    inner = _func(fn.body, "update_props", "update_property_values")
    loops = _nodoc(inner.body)
    if not (len(loops) == 1 and isinstance(loops[0], ast.For) and _is_name(loops[0].iter, "props")
            and len(loops[0].body) == 1 and isinstance(loops[0].body[0], ast.With)):
        raise ExtractError("update_props: expected `for propname in props: with h5py.File(...)`")
    w = loops[0].body[0]
    _check_open(w, "update_props")
    pname = loops[0].target.id
    stmts = list(w.body)
    if not (ast.unparse(stmts[0]) == "prop = hfile[%s]" % pname and isinstance(stmts[1], ast.If)
            and len(stmts[1].body) == 1 and isinstance(stmts[1].body[0], ast.Continue) and not stmts[1].orelse):
        raise ExtractError("update_props: expected `prop = hfile[propname]` and the re-check with `continue`")
    t = stmts[1].test
    if not (isinstance(t, ast.UnaryOp) and isinstance(t.op, ast.Not)):
        raise ExtractError("update_props: re-check is not of the form `not (...)`")
    recheck = bexp(t.operand, _dataset_atom("prop"))      # the condition under which the conversion goes ahead
    fields, attrs = {}, {}
    ops = []
    rules = []
    dtype_var = None
    main_var = None

    def rule(ifn, else_of_prev):
        field, test = _test_of(ifn.test, fields)
        if len(ifn.body) != 1:
            raise ExtractError("update_props line %d: more than one statement under a test" % ifn.lineno)
        b = ifn.body[0]
        if isinstance(b, ast.Expr) and _call_name(b.value) == "create_property":
            c = b.value
            kw = {k.arg: k.value for k in c.keywords}
            nm = c.args[1] if len(c.args) > 1 else None
            if not (len(c.args) == 2 and _is_name(c.args[0], "hfile") and isinstance(nm, ast.BinOp)
                    and isinstance(nm.op, ast.Add) and _is_name(nm.left, pname) and isinstance(nm.right, ast.Constant)
                    and set(kw) == {"dtype", "data"} and _is_name(kw["data"]) and fields.get(kw["data"].id) == field):
                raise ExtractError("update_props line %d: %s is not modelled" % (b.lineno, ast.unparse(b)))
            act = "(.prop %s %s)" % (lean_str(nm.right.value), lean_str(_dtype_of(kw["dtype"])))
        elif (isinstance(b, ast.Assign) and isinstance(b.targets[0], ast.Subscript)
              and ast.unparse(b.targets[0].value) == "%s.attrs" % main_var
              and isinstance(b.targets[0].slice, ast.Constant)
              and isinstance(b.value, ast.Subscript) and _is_name(b.value.value)
              and fields.get(b.value.value.id) == field and ast.unparse(b.value.slice) == "0"):
            act = "(.attrHead %s)" % lean_str(b.targets[0].slice.value)
        else:
            raise ExtractError("update_props line %d: %s is not modelled" % (b.lineno, ast.unparse(b)))
        rules.append("⟨%s, %s, %s, %s⟩" % (lean_str(field), test, act, lean_bool(else_of_prev)))
        ops.append("extra:" + field if not else_of_prev else "extra-else:" + field)
        if ifn.orelse:
            if len(ifn.orelse) == 1 and isinstance(ifn.orelse[0], ast.If):
                rule(ifn.orelse[0], True)
            else:
                raise ExtractError("update_props line %d: `else` branch is not modelled" % ifn.lineno)

    refusal = []
    needed_var = None
    main_args = []
    bound = set()
    for st in stmts[2:]:
        if isinstance(st, ast.Assign) and len(st.targets) == 1 and _is_name(st.targets[0]):
            # a variable holding something read from the old dataset is bound exactly once
            if st.targets[0].id in bound:
                raise ExtractError("update_props line %d: %s is assigned a second time" % (st.lineno, st.targets[0].id))
            bound.add(st.targets[0].id)
        if (isinstance(st, ast.Assign) and len(st.targets) == 1 and _is_name(st.targets[0])
                and isinstance(st.value, ast.List) and st.value.elts
                and all(isinstance(e, ast.Tuple) and len(e.elts) == 2 and isinstance(e.elts[0], ast.Constant)
                        and isinstance(e.elts[0].value, str) for e in st.value.elts)):
            # needed = [(".suffix", <test>), ...]
            if refusal:
                raise ExtractError("update_props line %d: second list of needed names" % st.lineno)
            needed_var = st.targets[0].id
            for e in st.value.elts:
                field, test = _test_of(e.elts[1], fields)
                refusal.append("(%s, %s, %s)" % (lean_str(e.elts[0].value), lean_str(field), test))
            continue
        if isinstance(st, ast.For) and needed_var is not None and _is_name(st.iter, needed_var):
            tg = st.target
            ok = (isinstance(tg, ast.Tuple) and len(tg.elts) == 2 and all(_is_name(x) for x in tg.elts)
                  and len(st.body) == 1 and isinstance(st.body[0], ast.If) and not st.body[0].orelse
                  and not st.orelse and len(st.body[0].body) == 1 and isinstance(st.body[0].body[0], ast.Raise))
            if ok:
                sv, nv = tg.elts[0].id, tg.elts[1].id
                ok = ast.unparse(st.body[0].test) == "%s and %s + %s in hfile" % (nv, pname, sv)
            if not ok:
                raise ExtractError("update_props line %d: loop over the needed names is not modelled" % st.lineno)
            ops.append("refuse")
            continue
        if isinstance(st, ast.Assign) and len(st.targets) == 1 and _is_name(st.targets[0]):
            tgt, v = st.targets[0].id, st.value
            if (isinstance(v, ast.Subscript) and _is_name(v.value, "prop") and isinstance(v.slice, ast.Constant)
                    and isinstance(v.slice.value, str)):
                if "delete" in ops:
                    raise ExtractError("update_props line %d: field read after the dataset was deleted" % st.lineno)
                fields[tgt] = v.slice.value
                continue
            if isinstance(v, ast.Call) and ast.unparse(v.func) == "prop.attrs.get" and len(v.args) == 1:
                if "delete" in ops:
                    raise ExtractError("update_props line %d: attribute read after the dataset was deleted" % st.lineno)
                attrs[tgt] = v.args[0].value
                continue
            if isinstance(v, ast.Attribute) and v.attr == "dtype" and _is_name(v.value) and v.value.id in fields:
                dtype_var = (tgt, fields[v.value.id])
                continue
            if _call_name(v) == "create_property":
                kw = {k.arg: k.value for k in v.keywords}
                ok = (len(v.args) == 2 and _is_name(v.args[0], "hfile") and _is_name(v.args[1], pname)
                      and set(kw) == {"dtype", "data", "definition", "unit"}
                      and all(_is_name(x) for x in kw.values()) and main_var is None)
                if ok:
                    # every argument is a variable bound once, to what was read from the old dataset, unmodified
                    for k in v.keywords:
                        nm = k.value.id
                        if dtype_var is not None and nm == dtype_var[0]:
                            main_args.append("(%s, .fieldDtype %s)" % (lean_str(k.arg), lean_str(dtype_var[1])))
                        elif nm in fields:
                            main_args.append("(%s, .field %s)" % (lean_str(k.arg), lean_str(fields[nm])))
                        elif nm in attrs:
                            main_args.append("(%s, .attr %s)" % (lean_str(k.arg), lean_str(attrs[nm])))
                        else:
                            ok = False
                if not ok:
                    raise ExtractError("update_props line %d: main create_property call is not modelled: %s"
                                       % (st.lineno, ast.unparse(st)))
                main_var = tgt
                ops.append("create:main")
                continue
            raise ExtractError("update_props line %d: %s is not modelled" % (st.lineno, ast.unparse(st)))
        if isinstance(st, ast.Delete) and len(st.targets) == 1 and ast.unparse(st.targets[0]) == "hfile[%s]" % pname:
            ops.append("delete")
            continue
        if isinstance(st, ast.If):
            if main_var is None:
                raise ExtractError("update_props line %d: `if` before the main property is created (what was read "
                                   "from the old dataset must reach create_property unchanged)" % st.lineno)
            rule(st, False)
            continue
        raise ExtractError("update_props line %d: %s is not modelled" % (st.lineno, ast.unparse(st)))
    if refusal and "refuse" not in ops:
        raise ExtractError("update_props: the list of needed names is never tested")
    return find, recheck, ops, rules, refusal, main_args


# ------------------------------------------------------------------------------------------------
# create_property / has_valid_file_id / get_file_version / file_upgrade

CREATE_PARAMS = ["hfile", "name", "dtype", "data", "definition", "unit"]


def create_shape(mod):
    """`create_property`: parameters (+ which default to None), how the parameters reach `create_dataset`, and the
    attributes written on the new dataset in source order (attribute, where the value comes from, condition)"""
    fn = _func(mod.body, "create_property")
    a = fn.args
    if a.vararg or a.kwarg or a.kwonlyargs or a.posonlyargs:
        raise ExtractError("create_property: signature is not modelled")
    names = [x.arg for x in a.args]
    if names != CREATE_PARAMS:
        raise ExtractError("create_property: parameters %s, expected %s" % (names, CREATE_PARAMS))
    ndef = len(a.defaults)
    params = []
    for i, n in enumerate(names):
        j = i - (len(names) - ndef)
        if j >= 0:
            d = a.defaults[j]
            if not (isinstance(d, ast.Constant) and d.value is None):
                raise ExtractError("create_property: default of %s is not None" % n)
        params.append("(%s, %s)" % (lean_str(n), lean_bool(j >= 0)))
    body = _nodoc(fn.body)
    if not body:
        raise ExtractError("create_property: empty body")
    st = body[0]
    dsvar = None
    dataset = []
    if (isinstance(st, ast.Assign) and len(st.targets) == 1 and _is_name(st.targets[0])
            and isinstance(st.value, ast.Call) and ast.unparse(st.value.func) == "hfile.create_dataset"):
        dsvar = st.targets[0].id
        c = st.value
        if not (len(c.args) == 1 and _is_name(c.args[0])):
            raise ExtractError("create_property line %d: create_dataset name argument is not a parameter" % st.lineno)
        dataset.append(("name", c.args[0].id))
        for k in c.keywords:
            if k.arg == "chunks":
                if not (isinstance(k.value, ast.Constant) and k.value.value is True):
                    raise ExtractError("create_property line %d: chunks=%s" % (st.lineno, ast.unparse(k.value)))
                continue
            if k.arg is None or not _is_name(k.value):
                raise ExtractError("create_property line %d: create_dataset argument %s is not a parameter passed "
                                   "on as it is" % (st.lineno, ast.unparse(k)))
            dataset.append((k.arg, k.value.id))
        for _, src in dataset:
            if src not in names:
                raise ExtractError("create_property line %d: %s is not a parameter" % (st.lineno, src))
    else:
        raise ExtractError("create_property line %d: expected `prop = hfile.create_dataset(...)` first (the "
                           "parameters must reach it unchanged)" % st.lineno)

    def source(v, lineno):
        sv = ast.unparse(v).replace('"', "'")
        if sv == "name.split('/')[-1]":
            return ".lastComponent"
        if sv == "nix.util.create_id()":
            return ".freshId"
        if sv == "nix.util.time_to_str(nix.util.now_int())":
            return ".now"
        if _is_name(v) and v.id in names:
            return "(.param %s)" % lean_str(v.id)
        raise ExtractError("create_property line %d: attribute value %s is not modelled" % (lineno, sv))

    def attr_write(x):
        if (isinstance(x, ast.Assign) and len(x.targets) == 1 and isinstance(x.targets[0], ast.Subscript)
                and ast.unparse(x.targets[0].value) == "%s.attrs" % dsvar
                and isinstance(x.targets[0].slice, ast.Constant) and isinstance(x.targets[0].slice.value, str)):
            return x.targets[0].slice.value, source(x.value, x.lineno)
        return None
    writes = []
    returned = False
    for st in body[1:]:
        if returned:
            raise ExtractError("create_property line %d: statement after return" % st.lineno)
        w = attr_write(st)
        if w is not None:
            writes.append("⟨%s, %s, .always⟩" % (lean_str(w[0]), w[1]))
            continue
        if (isinstance(st, ast.If) and _is_name(st.test) and st.test.id in names and not st.orelse
                and len(st.body) == 1 and attr_write(st.body[0]) is not None):
            w = attr_write(st.body[0])
            writes.append("⟨%s, %s, (.truthy %s)⟩" % (lean_str(w[0]), w[1], lean_str(st.test.id)))
            continue
        if isinstance(st, ast.Return) and _is_name(st.value, dsvar):
            returned = True
            continue
        raise ExtractError("create_property line %d: %s is not modelled" % (st.lineno, ast.unparse(st)))
    if not returned:
        raise ExtractError("create_property does not return the new dataset")
    return params, ["(%s, %s)" % (lean_str(a_), lean_str(b_)) for a_, b_ in dataset], writes


def valid_id_shape(mod):
    """`has_valid_file_id`: the test on the header's `id` attribute under which it answers True"""
    fn = _func(mod.body, "has_valid_file_id")
    body = _nodoc(fn.body)
    ok = (len(body) == 2 and isinstance(body[0], ast.With) and len(body[0].items) == 1
          and ast.unparse(body[0].items[0].context_expr).replace('"', "'") == "h5py.File(fname, mode='r')"
          and _is_name(body[0].items[0].optional_vars, "hfile")
          and isinstance(body[1], ast.Return) and isinstance(body[1].value, ast.Constant) and body[1].value.value is False)
    if ok:
        w = body[0].body
        ok = (len(w) == 2 and ast.unparse(w[0]).replace('"', "'") == "fileid = hfile.attrs.get('id')"
              and isinstance(w[1], ast.If) and not w[1].orelse and len(w[1].body) == 1
              and isinstance(w[1].body[0], ast.Return) and isinstance(w[1].body[0].value, ast.Constant)
              and w[1].body[0].value.value is True)
    if not ok:
        raise ExtractError("has_valid_file_id: expected `fileid = hfile.attrs.get('id')`, `if <test>: return True`, "
                           "`return False`")

    def atom(n):
        sv = ast.unparse(n)
        if sv == "fileid":
            return "truthy"
        if sv == "nix.util.is_uuid(fileid)":
            return "is_uuid"
        raise ExtractError("has_valid_file_id line %d: test %s is not modelled" % (n.lineno, sv))
    return bexp(body[0].body[1].test, atom)


def version_shape(mod):
    fn = _func(mod.body, "get_file_version")
    body = _nodoc(fn.body)
    if not (len(body) == 1 and isinstance(body[0], ast.With) and len(body[0].body) == 1
            and ast.unparse(body[0].items[0].context_expr).replace('"', "'") == "h5py.File(fname, mode='r')"
            and ast.unparse(body[0].body[0]).replace('"', "'") == "return tuple(hfile.attrs['version'])"):
        raise ExtractError("get_file_version does not just return tuple(hfile.attrs['version'])")
    return True


def entry_shape(mod):
    """`file_upgrade`: what runs inside the `try`, and what an exception / the normal end return"""
    fn = _func(mod.body, "file_upgrade")
    body = _nodoc(fn.body)
    if not (len(body) == 2 and isinstance(body[0], ast.Try) and isinstance(body[1], ast.Return)
            and isinstance(body[1].value, ast.Constant) and body[1].value.value is True):
        raise ExtractError("file_upgrade: expected `try: ... except ...: return False` followed by `return True`")
    tr = body[0]
    if tr.orelse or tr.finalbody or len(tr.handlers) != 1 or ast.unparse(tr.handlers[0].type or ast.Constant(None)) != "Exception":
        raise ExtractError("file_upgrade: expected exactly one handler `except Exception`")
    hb = tr.handlers[0].body
    if not (isinstance(hb[-1], ast.Return) and isinstance(hb[-1].value, ast.Constant) and hb[-1].value.value is False
            and all(isinstance(x, ast.Expr) and _call_name(x.value) == "print" for x in hb[:-1])):
        raise ExtractError("file_upgrade: the handler does not just report and return False")
    ops = []
    tasks_var = None
    for st in tr.body:
        if (isinstance(st, ast.Assign) and _call_name(st.value) == "collect_tasks"
                and ast.unparse(st.value) == "collect_tasks(fname)" and isinstance(st.targets[0], ast.Tuple)
                and all(_is_name(e) for e in st.targets[0].elts)):
            tasks_var = st.targets[0].elts[0].id
            ops.append("collect")
        elif (isinstance(st, ast.If) and ast.unparse(st.test) == "not quiet" and not st.orelse
              and all(isinstance(x, ast.Expr) and _call_name(x.value) == "print_tasks" for x in st.body)):
            continue
        elif (isinstance(st, ast.Expr) and _call_name(st.value) == "process_tasks" and len(st.value.args) == 2
              and _is_name(st.value.args[0], "fname") and _is_name(st.value.args[1], tasks_var)):
            ops.append("process")
        else:
            raise ExtractError("file_upgrade line %d: %s is not modelled" % (st.lineno, ast.unparse(st)))
    return ops


# ------------------------------------------------------------------------------------------------
# update_alias_range_dimension


def _int_lit(n):
    """an integer literal (with sign), else None"""
    if isinstance(n, ast.UnaryOp) and isinstance(n.op, (ast.USub, ast.UAdd)):
        x = _int_lit(n.operand)
        return None if x is None else (-x if isinstance(n.op, ast.USub) else x)
    if isinstance(n, ast.Constant) and type(n.value) is int:
        return n.value
    return None


def dims_shape(mod):
    fn = _func(mod.body, "update_alias_range_dimension")
    tests = [n for n in ast.walk(fn) if isinstance(n, ast.If) and len(n.body) == 1
             and ast.unparse(n.body[0]).startswith("dims.append(")]
    if len(tests) != 1 or ast.unparse(tests[0].body[0]) != "dims.append(dimension.name)":
        raise ExtractError("update_alias_range_dimension: expected one `if <test>: dims.append(dimension.name)`")
    find = bexp(tests[0].test, _member_atom("dimension"))
    inner = _func(fn.body, "update_alias_dims", "update_alias_range_dimension")
    loops = _nodoc(inner.body)
    if not (len(loops) == 1 and isinstance(loops[0], ast.For) and _is_name(loops[0].iter, "dims")
            and len(loops[0].body) == 1 and isinstance(loops[0].body[0], ast.With)):
        raise ExtractError("update_alias_dims: expected `for dimname in dims: with h5py.File(...)`")
    w = loops[0].body[0]
    _check_open(w, "update_alias_dims")
    skip = None
    ops = []
    link_attrs = []
    now_bound = False
    for st in w.body:
        s = ast.unparse(st)
        if s in ("dim = hfile[dimname]", "parentda = dim.parent.parent", "daid = parentda.attrs['entity_id']"):
            if ops or skip:
                raise ExtractError("update_alias_dims line %d: lookups after the conversion began" % st.lineno)
            continue
        if isinstance(st, ast.If) and len(st.body) == 1 and isinstance(st.body[0], ast.Continue) and not st.orelse:
            if ops:
                raise ExtractError("update_alias_dims: re-check after the first write")
            skip = bexp(st.test, _member_atom("dim"))
            continue
        if s == "link = create_h5group(dim, 'link')":
            ops.append("create:link")
        elif isinstance(st, ast.Assign) and ast.unparse(st.targets[0]).startswith("link.attrs["):
            key = st.targets[0].slice.value
            v = st.value
            if ast.unparse(v) == "nix.util.create_id()":
                val = ".freshId"
            elif isinstance(v, ast.Constant) and isinstance(v.value, str):
                val = "(.text %s)" % lean_str(v.value)
            elif isinstance(v, ast.List) and v.elts and all(_int_lit(e) is not None for e in v.elts):
                val = "(.ints [%s])" % ", ".join(str(_int_lit(e)) for e in v.elts)
            elif _is_name(v, "now") and now_bound:
                val = ".now"
            else:
                raise ExtractError("update_alias_dims line %d: %s is not modelled" % (st.lineno, s))
            if not isinstance(key, str) or key in [k for k, _ in link_attrs]:
                raise ExtractError("update_alias_dims line %d: attribute %r written twice" % (st.lineno, key))
            link_attrs.append((key, val))
            ops.append("attr:" + key)
        elif s == "link[daid] = parentda":
            ops.append("target")
        elif s == "now = nix.util.time_to_str(nix.util.now_int())":
            now_bound = True
            continue
        elif s == "del dim[daid]":
            ops.append("delete:alias")
        else:
            raise ExtractError("update_alias_dims line %d: %s is not modelled" % (st.lineno, s))
    if skip is None:
        raise ExtractError("update_alias_dims: no re-check")
    return find, skip, ops, ["(%s, %s)" % (lean_str(k), v) for k, v in link_attrs]


# ------------------------------------------------------------------------------------------------
# readers of range dimensions (nixio/dimensions.py): `is_alias`, and where `ticks` / `unit` / `label` are read from

DIMS_SOURCE = os.path.join("nixio", "dimensions.py")


def _reader_atom(n):
    s = ast.unparse(n).replace('"', "'")
    table = {"self._h5group.has_data('ticks')": "has:ticks", "self.has_link": "has:link",
             "len(self._h5group) > 0": "nonempty", "self.dimension_link._data_object_type == 'DataArray'":
             "link:DataArray", "self.is_alias": "is_alias"}
    if s in table:
        return table[s]
    raise ExtractError("dimensions.py line %d: test %s is not modelled" % (n.lineno, s))


def _prop_getter(cls, name):
    for n in cls.body:
        if (isinstance(n, ast.FunctionDef) and n.name == name
                and any(_is_name(d, "property") for d in n.decorator_list)):
            return n
    raise ExtractError("class %s has no property %s" % (cls.name, name))


def _bool_chain(fn):
    """`if t1: return b1 / elif t2: return b2 ... / return b` -> ([(test, bool)], default)"""
    body = _nodoc(fn.body)
    rules = []

    def ret_bool(st):
        if isinstance(st, ast.Return) and isinstance(st.value, ast.Constant) and isinstance(st.value.value, bool):
            return st.value.value
        raise ExtractError("%s line %d: expected `return True/False`" % (fn.name, st.lineno))
    node = body[0] if body else None
    if not isinstance(node, ast.If) or len(body) != 2:
        raise ExtractError("%s: expected an if/elif chain followed by a return" % fn.name)
    while True:
        if len(node.body) != 1:
            raise ExtractError("%s line %d: more than one statement in a branch" % (fn.name, node.lineno))
        rules.append((bexp(node.test, _reader_atom), ret_bool(node.body[0])))
        if not node.orelse:
            break
        if len(node.orelse) == 1 and isinstance(node.orelse[0], ast.If):
            node = node.orelse[0]
        else:
            raise ExtractError("%s line %d: `else` branch is not modelled" % (fn.name, node.lineno))
    return rules, ret_bool(body[1])


def _source_chain(fn, what):
    """where a reader takes its answer from: [(test, source)], default; sources: redirect (the group behind the alias
    link), link (the DimensionLink), own (the dimension group)"""
    body = _nodoc(fn.body)
    out = []
    default = None

    def source(stmts):
        txt = " ; ".join(ast.unparse(x) for x in stmts).replace('"', "'")
        if "self._redirgrp" in txt and "self.dimension_link" not in txt and "self._h5group." not in txt:
            return "redirect"
        if "self.dimension_link" in txt and "self._redirgrp" not in txt and "self._h5group." not in txt:
            return "link"
        if "self._h5group." in txt and "self._redirgrp" not in txt and "self.dimension_link" not in txt:
            return "own"
        raise ExtractError("RangeDimension.%s line %d: cannot tell where the value is read from" % (what, stmts[0].lineno))
    for st in body:
        if isinstance(st, ast.If):
            if default is not None:
                raise ExtractError("RangeDimension.%s: test after the default" % what)
            out.append((bexp(st.test, _reader_atom), source(st.body)))
            if st.orelse:
                default = source(st.orelse)
        elif isinstance(st, ast.Return):
            if default is None:
                default = source([st])
        else:
            raise ExtractError("RangeDimension.%s line %d: %s is not modelled" % (what, st.lineno, ast.unparse(st)))
    if default is None:
        raise ExtractError("RangeDimension.%s: no default source" % what)
    return out, default


def readers_shape(repo):
    mod = ast.parse(open(os.path.join(repo, DIMS_SOURCE), encoding="utf-8").read())
    cls = None
    for n in mod.body:
        if isinstance(n, ast.ClassDef) and n.name == "RangeDimension":
            cls = n
    if cls is None:
        raise ExtractError("nixio/dimensions.py has no class RangeDimension")
    rules, default = _bool_chain(_prop_getter(cls, "is_alias"))
    srcs = {w: _source_chain(_prop_getter(cls, w), w) for w in ("ticks", "unit", "label")}
    return rules, default, srcs


def render_readers(rules, default, srcs):
    def chain(c):
        return "[%s]" % ", ".join("(%s, .%s)" % (t, s) for t, s in c)
    out = ["/-- `RangeDimension.is_alias`: the if/elif chain, then the final `return` -/",
           "def isAliasRules : List (BExp × Bool) := [%s]" % ", ".join("(%s, %s)" % (t, lean_bool(b)) for t, b in rules),
           "def isAliasDefault : Bool := %s" % lean_bool(default)]
    for w in ("ticks", "unit", "label"):
        c, d = srcs[w]
        out.append("/-- `RangeDimension.%s` (getter): where the answer is read from, test by test, then the default -/" % w)
        out.append("def %sSource : List (BExp × Source) × Source := (%s, .%s)" % (w, chain(c), d))
    return "\n".join(out) + "\n"


# ------------------------------------------------------------------------------------------------
# readers of property values (nixio/property.py): the layout is chosen by the FILE's version

PROP_SOURCE = os.path.join("nixio", "property.py")


def _version_switch(fn, where):
    """the tuple `t` of the one test `filever < t` in a getter whose `filever` is the header version"""
    bound = [n for n in ast.walk(fn) if isinstance(n, ast.Assign) and len(n.targets) == 1
             and _is_name(n.targets[0], "filever")]
    if len(bound) != 1 or "attrs['version']" not in ast.unparse(bound[0].value).replace('"', "'"):
        raise ExtractError("%s: `filever` is not read once from the header's version attribute" % where)
    tests = [n for n in ast.walk(fn) if isinstance(n, ast.Compare) and _is_name(n.left, "filever")]
    if len(tests) != 1 or len(tests[0].ops) != 1 or not isinstance(tests[0].ops[0], ast.Lt):
        raise ExtractError("%s: expected exactly one test `filever < (...)`" % where)
    t = tests[0].comparators[0]
    if not (isinstance(t, ast.Tuple) and t.elts and all(_int_lit(e) is not None and _int_lit(e) >= 0 for e in t.elts)):
        raise ExtractError("%s line %d: version bound %s is not a tuple of numbers" % (where, t.lineno, ast.unparse(t)))
    ifs = [n for n in ast.walk(fn) if isinstance(n, ast.If) and n.test is tests[0]]
    if len(ifs) != 1:
        raise ExtractError("%s: the version test is not the test of an `if`" % where)
    return [_int_lit(e) for e in t.elts], ifs[0]


def prop_readers_shape(repo):
    mod = ast.parse(open(os.path.join(repo, PROP_SOURCE), encoding="utf-8").read())
    cls = None
    for n in mod.body:
        if isinstance(n, ast.ClassDef) and n.name == "Property":
            cls = n
    if cls is None:
        raise ExtractError("nixio/property.py has no class Property")
    bound, ifn = _version_switch(_prop_getter(cls, "values"), "Property.values")
    if "self._read_old_values()" not in " ; ".join(ast.unparse(x) for x in ifn.body):
        raise ExtractError("Property.values: below the version bound the values are not read by _read_old_values")
    old = _func(cls.body, "_read_old_values", "class Property")
    fields = {n.slice.value for n in ast.walk(old) if isinstance(n, ast.Subscript) and isinstance(n.slice, ast.Constant)
              and isinstance(n.slice.value, str)}
    if fields != {"value"}:
        raise ExtractError("Property._read_old_values reads the fields %s, expected only 'value'" % sorted(fields))
    ubound, _ = _version_switch(_prop_getter(cls, "uncertainty"), "Property.uncertainty")
    return bound, ubound


def shape(repo):
    path = os.path.join(repo, SOURCE)
    mod = ast.parse(open(path, encoding="utf-8").read())
    op, order = collect_shape(mod)
    pfind, precheck, pops, rules, refusal, main_args = props_shape(mod)
    cparams, cdataset, cwrites = create_shape(mod)
    dfind, dskip, dops, dlink = dims_shape(mod)
    outer, inner = id_shape(mod)
    return {"op": op, "order": order, "process": process_shape(mod), "id_outer": outer, "id_recheck": inner,
            "bump": bump_shape(mod), "refusal": refusal, "pfind": pfind, "precheck": precheck, "pops": pops, "rules": rules,
            "dfind": dfind, "dskip": dskip, "dops": dops, "readers": readers_shape(repo),
            "dlink": dlink, "prop_readers": prop_readers_shape(repo), "main_args": main_args, "cparams": cparams, "cdataset": cdataset, "cwrites": cwrites,
            "id_valid": valid_id_shape(mod), "version_raw": version_shape(mod), "entry": entry_shape(mod)}


TASKS = {"add_file_id": ".fileId", "update_property_values": ".props", "update_alias_range_dimension": ".aliasDims",
         "update_format_version": ".version"}


def render(sh):
    for c, _ in sh["order"]:
        if c not in TASKS:
            raise ExtractError("collect_tasks schedules an unknown task constructor %s" % c)
    order = ", ".join("(%s, %s)" % (TASKS[c], lean_bool(cond)) for c, cond in sh["order"])
    return (
        "import NixModel.Pure.UpgradeShape\n"
        "/-! GENERATED by harness/extract/upgradeshape.py from nixio/cmd/upgrade.py — do not edit. -/\n"
        "namespace Nix.Upgrade.Gen\n"
        "open Nix.Upgrade.Shape\n\n"
        "/-- `collect_tasks`: nothing is scheduled when `file_ver <op> nix.file.HDF_FF_VERSION` -/\n"
        "def upToDateOp : Cmp := %s\n"
        "/-- `collect_tasks`: task constructors in the order their results are appended; `true` = only if a task came back -/\n"
        "def taskOrder : List (Task × Bool) := [%s]\n"
        "/-- `process_tasks`: direction of the loop over the task list -/\n"
        "def processOrder : Direction := %s\n"
        "/-- `add_file_id`: `if has_valid_file_id(fname): return None` before the closure is built -/\n"
        "def idOuterTest : Bool := %s\n"
        "/-- `add_id`: the test is repeated inside the closure before the id is written -/\n"
        "def idRecheck : Bool := %s\n"
        "/-- `update_ver` writes `nix.file.HDF_FF_VERSION` to the `version` attribute and nothing else -/\n"
        "def bumpWritesLibVersion : Bool := %s\n"
        "/-- `find_props`: which objects below /metadata are scheduled -/\n"
        "def propFind : BExp := %s\n"
        "/-- `update_props`: the conversion goes ahead when this holds (the code skips on its negation) -/\n"
        "def propGoAhead : BExp := %s\n"
        "/-- `update_props`: writes of one conversion in source order -/\n"
        "def propOps : List String := [%s]\n"
        "/-- `update_props`: rules for the per-value extras in source order -/\n"
        "def extraRules : List Rule := [%s]\n"
        "/-- `update_props`: names tested before anything is changed (suffix, field, test that makes the name needed); "
        "the conversion is refused when a needed name is taken -/\n"
        "def refusal : List (String × String × Test) := [%s]\n"
        "/-- `update_alias_range_dimension`: which dimension groups are scheduled -/\n"
        "def dimFind : BExp := %s\n"
        "/-- `update_alias_dims`: the conversion is skipped when this holds -/\n"
        "def dimSkip : BExp := %s\n"
        "/-- `update_alias_dims`: writes of one conversion in source order -/\n"
        "def dimOps : List String := [%s]\n\n"
        "%s\n"
        "/-- `update_props`: keyword arguments of the main `create_property` call and what each was read from "
        "(a variable bound once, passed on unmodified) -/\n"
        "def mainArgs : List (String × OldSrc) := [%s]\n"
        "/-- `create_property`: parameters in order; `true` = defaults to None -/\n"
        "def createParams : List (String × Bool) := [%s]\n"
        "/-- `create_property`: arguments of `hfile.create_dataset` and the parameter handed on unchanged for each -/\n"
        "def createDataset : List (String × String) := [%s]\n"
        "/-- `create_property`: attributes written on the new dataset in source order -/\n"
        "def createAttrs : List AttrWrite := [%s]\n"
        "/-- `has_valid_file_id`: answers True when this holds of the header's `id` attribute -/\n"
        "def idValid : BExp := %s\n"
        "/-- `get_file_version` returns the header's `version` attribute as a tuple and nothing else -/\n"
        "def versionIsHeaderAttr : Bool := %s\n"
        "/-- `file_upgrade`: what runs inside `try` (an exception makes it return False, the normal end True) -/\n"
        "def entryOps : List String := [%s]\n"
        "/-- `update_alias_dims`: attributes written on the new link group and their values -/\n"
        "def linkAttrs : List (String × LinkVal) := [%s]\n"
        "/-- `Property.values` (nixio/property.py): a file whose header version is below this is read through the "
        "old-layout reader (`_read_old_values`: field `value` of every row), every other file through the plain one -/\n"
        "def valuesOldBelow : List Nat := [%s]\n"
        "/-- `Property.uncertainty`: the same switch -/\n"
        "def uncertaintyOldBelow : List Nat := [%s]\n\n"
        "end Nix.Upgrade.Gen\n" % (
            sh["op"], order, sh["process"], lean_bool(sh["id_outer"]), lean_bool(sh["id_recheck"]),
            lean_bool(sh["bump"]), sh["pfind"], sh["precheck"], ", ".join(lean_str(o) for o in sh["pops"]),
            ",\n  ".join(sh["rules"]), ", ".join(sh["refusal"]), sh["dfind"], sh["dskip"], ", ".join(lean_str(o) for o in sh["dops"]),
            render_readers(*sh["readers"]),
            ", ".join(sh["main_args"]), ", ".join(sh["cparams"]), ", ".join(sh["cdataset"]),
            ",\n  ".join(sh["cwrites"]), sh["id_valid"], lean_bool(sh["version_raw"]),
            ", ".join(lean_str(o) for o in sh["entry"]), ", ".join(sh["dlink"]),
            ", ".join(str(x) for x in sh["prop_readers"][0]), ", ".join(str(x) for x in sh["prop_readers"][1])))


def extract(repo):
    return {TARGET: render(shape(repo))}
