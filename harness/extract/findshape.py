"""Translator: nixio/util/find.py, section.py, source.py, block.py, file.py
                 ->  NixModel/Generated/FindShape.lean                         (property C13)

Parses the sources with `ast` (never imports them) and renders the *shape* of the code C13 is about as
constants in the vocabulary of `NixModel/Pure/TreeShape.lean`:

  * `_find_sections` / `_find_sources` (util/find.py): limit defaulting statement (none / `is None` / `or`),
    initial level, increment for a File/Block root, both comparison operators, level step of the loop,
    polarity of the filter test, the attribute iterated and the class tested with `isinstance`
    (everything else - fifo `pop(0)`, `Cont`, result list - is matched literally);
  * the four public wrappers `File.find_sections`, `Section.find_sections`, `Block.find_sources`,
    `Source.find_sources`: parameter defaults, defaulting statement, finder called with `(self, filtr, limit)`;
  * `Section.find_related`: finder and the two literal limits;
  * `Section.parent`: cached `_sec_parent` first or not, what is tested for containment (`self.id` / `self.name`
    / `self`);
  * `Source.parent_source` / `_find_parent_recursive`: the two containment keys; `Source.parent_block` literally;
  * every `Section.referring_*` / `Source.referring_*` property: which container of which blocks is scanned
    (`blk.groups`, …, `blk.find_sources()` vs `blk.sources`), what is compared (`metadata.id == self.id`,
    `self in x.sources`), and the list of properties `referring_objects` concatenates.

Anything else (another statement, another receiver, a helper function in between) raises ExtractError: the tie
is broken and the check goes looking for a failing input.
"""
import ast
import os

from .leanfmt import ExtractError, lean_bool, lean_str

TARGET = "NixModel/Generated/FindShape.lean"

CMP = {ast.LtE: ".le", ast.Lt: ".lt", ast.GtE: ".ge", ast.Gt: ".gt"}
FLIP = {".le": ".ge", ".lt": ".gt", ".ge": ".le", ".gt": ".lt"}
ATTR_OF_CLASS = {"Section": "sections", "Source": "sources"}
HOLDER_KIND = {"groups": ".group", "data_arrays": ".dataArray", "tags": ".tag", "multi_tags": ".multiTag"}


def _parse(repo, rel):
    with open(os.path.join(repo, rel), encoding="utf-8") as fh:
        return ast.parse(fh.read(), filename=rel)


def _u(node):
    return ast.unparse(node)


def _fail(where, node, msg):
    raise ExtractError("%s line %s: %s" % (where, getattr(node, "lineno", "?"), msg))


def _body(fn):
    """statements without the docstring / bare string statements"""
    return [s for s in fn.body
            if not (isinstance(s, ast.Expr) and isinstance(s.value, ast.Constant) and isinstance(s.value.value, str))]


def _func(tree_or_cls, name, where):
    found = None
    for n in tree_or_cls.body:
        if isinstance(n, (ast.FunctionDef,)) and n.name == name:
            found = n          # the last definition wins, as in Python
    if found is None:
        raise ExtractError("%s: no function %s" % (where, name))
    return found


def _cls(tree, name, where):
    for n in tree.body:
        if isinstance(n, ast.ClassDef) and n.name == name:
            return n
    raise ExtractError("%s: no class %s" % (where, name))


def _is_property(fn):
    return len(fn.decorator_list) == 1 and _u(fn.decorator_list[0]) == "property"


def _imports_maxsize(tree):
    for n in tree.body:
        if isinstance(n, ast.ImportFrom) and n.module == "sys" and any(
                a.name == "maxsize" and a.asname in (None, "maxsize") for a in n.names):
            return True
    return False


def _imports_finders(tree):
    for n in tree.body:
        if isinstance(n, ast.ImportFrom) and n.module in ("util", "nixio.util") and any(
                a.name == "find" and a.asname == "finders" for a in n.names):
            return True
    return False


def _nat(node, where):
    if isinstance(node, ast.Constant) and type(node.value) is int and node.value >= 0:
        return node.value
    _fail(where, node, "expected a non-negative integer literal, got %s" % _u(node))


def _defaulting(st, tree, where):
    """`if limit is None: limit = maxsize` / `limit = limit or maxsize`  ->  Lean term, else None"""
    u = _u(st)
    kind = None
    if u == "if limit is None:\n    limit = maxsize":
        kind = ".isNone"
    elif u in ("limit = limit or maxsize", "limit = limit if limit else maxsize"):
        kind = ".falsy"
    elif u in ("limit = maxsize if limit is None else limit", "limit = limit if limit is not None else maxsize"):
        kind = ".isNone"
    if kind is not None and not _imports_maxsize(tree):
        _fail(where, st, "`maxsize` is not `from sys import maxsize`")
    return kind


def _level_cmp(test, where):
    """`level <op> limit` (or `limit <op> level`)"""
    if not (isinstance(test, ast.Compare) and len(test.ops) == 1 and type(test.ops[0]) in CMP):
        _fail(where, test, "comparison %s is not an order comparison of level and limit" % _u(test))
    op = CMP[type(test.ops[0])]
    l, r = _u(test.left), _u(test.comparators[0])
    if (l, r) == ("level", "limit"):
        return op
    if (l, r) == ("limit", "level"):
        return FLIP[op]
    _fail(where, test, "comparison %s is not between level and limit" % _u(test))


def _push(st, recv, where):
    """`if level <cmp> limit: fifo += [Cont(e, level) for e in <recv>.<attr>]` -> (cmp, attr)"""
    if not (isinstance(st, ast.If) and not st.orelse and len(st.body) == 1):
        _fail(where, st, "expected `if level <= limit: fifo += [...]`")
    cmp_ = _level_cmp(st.test, where)
    b = st.body[0]
    ok = (isinstance(b, ast.AugAssign) and isinstance(b.op, ast.Add) and _u(b.target) == "fifo"
          and isinstance(b.value, ast.ListComp) and len(b.value.generators) == 1
          and _u(b.value.elt) == "Cont(e, level)" and _u(b.value.generators[0].target) == "e"
          and not b.value.generators[0].ifs and isinstance(b.value.generators[0].iter, ast.Attribute)
          and _u(b.value.generators[0].iter.value) == recv)
    if not ok:
        _fail(where, b, "push statement %s is not `fifo += [Cont(e, level) for e in %s.<attr>]`" % (_u(b), recv))
    return cmp_, b.value.generators[0].iter.attr


def _finder(tree, name):
    where = "util/find.py:%s" % name
    fn = _func(tree, name, where)
    args = [a.arg for a in fn.args.args]
    if len(args) != 3 or args[1:] != ["filtr", "limit"] or fn.args.defaults or fn.args.vararg or fn.args.kwarg:
        _fail(where, fn, "signature is not (root, filtr, limit)")
    root = args[0]
    st = _body(fn)
    defaulting = ".absent"
    d = _defaulting(st[0], tree, where) if st else None
    if d is not None:
        defaulting = d
        st = st[1:]
    if len(st) != 6:
        _fail(where, fn, "expected 6 statements (fifo, result, level, root test, loop, return), found %d" % len(st))
    if _u(st[0]) != "fifo = []" or _u(st[1]) != "result = []":
        _fail(where, st[0], "expected `fifo = []; result = []`")
    if not (isinstance(st[2], ast.Assign) and _u(st[2].targets[0]) == "level" and len(st[2].targets) == 1):
        _fail(where, st[2], "expected `level = <int>`")
    level0 = _nat(st[2].value, where)
    # root test
    t = st[3]
    if not (isinstance(t, ast.If) and isinstance(t.test, ast.Call) and _u(t.test.func) == "isinstance"
            and len(t.test.args) == 2 and _u(t.test.args[0]) == root and isinstance(t.test.args[1], ast.Attribute)):
        _fail(where, t, "expected `if isinstance(%s, nixio.<Class>):`" % root)
    root_class = t.test.args[1].attr
    if root_class not in ATTR_OF_CLASS:
        _fail(where, t, "isinstance class %s is neither Section nor Source" % root_class)
    if len(t.body) != 1 or _u(t.body[0]) != "fifo.append(Cont(%s, level))" % root:
        _fail(where, t, "the entity branch is not `fifo.append(Cont(%s, level))`" % root)
    if len(t.orelse) != 2:
        _fail(where, t, "the container branch is not `level += n; if level <= limit: fifo += [...]`")
    inc = t.orelse[0]
    if not (isinstance(inc, ast.AugAssign) and isinstance(inc.op, ast.Add) and _u(inc.target) == "level"):
        _fail(where, inc, "expected `level += <int>`")
    top_inc = _nat(inc.value, where)
    top_cmp, attr1 = _push(t.orelse[1], root, where)
    # loop
    w = st[4]
    if not (isinstance(w, ast.While) and _u(w.test) in ("len(fifo) > 0", "fifo", "len(fifo) != 0", "len(fifo)")
            and not w.orelse and len(w.body) == 4):
        _fail(where, w, "expected `while len(fifo) > 0:` with 4 statements")
    if _u(w.body[0]) != "child = fifo.pop(0)":
        _fail(where, w.body[0], "expected `child = fifo.pop(0)` (first in, first out)")
    lv = w.body[1]
    if not (isinstance(lv, ast.Assign) and _u(lv.targets[0]) == "level" and isinstance(lv.value, ast.BinOp)
            and isinstance(lv.value.op, ast.Add) and _u(lv.value.left) == "child.level"):
        _fail(where, lv, "expected `level = child.level + <int>`")
    step = _nat(lv.value.right, where)
    a, b = w.body[2], w.body[3]
    if isinstance(a, ast.If) and _u(a.test).replace("not ", "") == "filtr(child.elem)":
        a, b = b, a            # filter before push: same result for a side-effect free filter
        push_first = False
    else:
        push_first = True
    loop_cmp, attr2 = _push(a, "child.elem", where)
    if not (isinstance(b, ast.If) and not b.orelse and len(b.body) == 1
            and _u(b.body[0]) == "result.append(child.elem)"):
        _fail(where, b, "expected `if filtr(child.elem): result.append(child.elem)`")
    if _u(b.test) == "filtr(child.elem)":
        neg = False
    elif _u(b.test) == "not filtr(child.elem)":
        neg = True
    else:
        _fail(where, b, "filter test %s" % _u(b.test))
    if _u(st[5]) != "return result":
        _fail(where, st[5], "expected `return result`")
    if attr1 != attr2 or attr1 != ATTR_OF_CLASS[root_class]:
        _fail(where, fn, "iterates .%s / .%s but tests isinstance(.., %s)" % (attr1, attr2, root_class))
    return {"name": name, "rootClass": root_class, "childAttr": attr1, "defaulting": defaulting, "level0": level0,
            "topInc": top_inc, "topCmp": top_cmp, "step": step, "loopCmp": loop_cmp, "filterNeg": neg,
            "pushFirst": push_first}


def _check_cont(tree):
    cls = _cls(tree, "Cont", "util/find.py")
    init = _func(cls, "__init__", "util/find.py:Cont")
    if [a.arg for a in init.args.args] != ["self", "elem", "level"] or \
            sorted(_u(s) for s in _body(init)) != ["self.elem = elem", "self.level = level"]:
        _fail("util/find.py:Cont", init, "Cont.__init__ is not `self.elem = elem; self.level = level`")
    others = [n.name for n in cls.body if isinstance(n, ast.FunctionDef) and n.name != "__init__"]
    if others:
        _fail("util/find.py:Cont", cls, "Cont has further methods: %s" % others)


def _finder_call(node, where, first="self"):
    """`finders.<name>(<first>, filtr, <third>)` -> (name, third node)"""
    if not (isinstance(node, ast.Call) and isinstance(node.func, ast.Attribute) and _u(node.func.value) == "finders"
            and len(node.args) == 3 and not node.keywords and _u(node.args[0]) == first
            and _u(node.args[1]) == "filtr"):
        _fail(where, node, "expected `finders._find_*(%s, filtr, …)`, got %s" % (first, _u(node)))
    return node.func.attr, node.args[2]


def _wrapper(tree, cls_name, method, finders, rel):
    where = "%s:%s.%s" % (rel, cls_name, method)
    if not _imports_finders(tree):
        raise ExtractError("%s: `finders` is not `from .util import find as finders`" % rel)
    fn = _func(_cls(tree, cls_name, rel), method, where)
    if fn.decorator_list:
        _fail(where, fn, "decorated")
    a = fn.args
    if [x.arg for x in a.args] != ["self", "filtr", "limit"] or a.vararg or a.kwarg or a.kwonlyargs \
            or len(a.defaults) != 2:
        _fail(where, fn, "signature is not (self, filtr=…, limit=…)")
    if _u(a.defaults[0]) != "lambda _: True":
        _fail(where, fn, "default filter is %s, not `lambda _: True`" % _u(a.defaults[0]))
    if not (isinstance(a.defaults[1], ast.Constant) and a.defaults[1].value is None):
        _fail(where, fn, "default limit is %s, not None" % _u(a.defaults[1]))
    st = _body(fn)
    defaulting = ".absent"
    d = _defaulting(st[0], tree, where) if st else None
    if d is not None:
        defaulting = d
        st = st[1:]
    if len(st) != 1 or not isinstance(st[0], ast.Return):
        _fail(where, fn, "body is not [defaulting;] return finders._find_*(self, filtr, limit)")
    name, third = _finder_call(st[0].value, where)
    if _u(third) != "limit":
        _fail(where, st[0], "third argument is %s, not limit" % _u(third))
    if name not in finders:
        _fail(where, st[0], "unknown finder %s" % name)
    return {"cls": cls_name, "method": method, "defaulting": defaulting, "finder": name,
            "selfIsNode": cls_name == finders[name]["rootClass"]}


def _key_of(node, where):
    u = _u(node)
    if u == "self.id":
        return ".id"
    if u == "self.name":
        return ".name"
    if u == "self":
        return ".obj"
    _fail(where, node, "containment key %s is none of self.id / self.name / self" % u)


def _in_test(test, container, where):
    """`<key> in <container>` -> key"""
    if not (isinstance(test, ast.Compare) and len(test.ops) == 1 and isinstance(test.ops[0], ast.In)
            and _u(test.comparators[0]) == container):
        _fail(where, test, "expected `<key> in %s`, got %s" % (container, _u(test)))
    return test.left


def _section_parent(cls):
    where = "section.py:Section.parent"
    fn = _func(cls, "parent", where)
    if not _is_property(fn):
        _fail(where, fn, "not a plain property")
    st = _body(fn)
    cache_first = False
    if st and _u(st[0]) == "if self._sec_parent is not None:\n    return self._sec_parent":
        cache_first = True
        st = st[1:]
    if len(st) != 4:
        _fail(where, fn, "expected [cache test;] sections = list(..); top test; while; return None")
    if _u(st[0]) != "sections = list(self.file.sections)":
        _fail(where, st[0], "expected `sections = list(self.file.sections)`")
    if _u(st[1]) != "if self in sections:\n    return None":
        _fail(where, st[1], "expected `if self in sections: return None`")
    w = st[2]
    if not (isinstance(w, ast.While) and _u(w.test) in ("sections", "len(sections) > 0") and not w.orelse
            and len(w.body) == 3):
        _fail(where, w, "expected `while sections:` with 3 statements")
    if _u(w.body[0]) != "sect = sections.pop(0)":
        _fail(where, w.body[0], "expected `sect = sections.pop(0)`")
    t = w.body[1]
    if not (isinstance(t, ast.If) and not t.orelse):
        _fail(where, t, "expected the containment test")
    key = _key_of(_in_test(t.test, "sect.sections", where), where)
    rest = [_u(s) for s in t.body]
    if rest not in (["self._sec_parent = sect", "return sect"], ["return sect"]):
        _fail(where, t, "the found branch is not `[self._sec_parent = sect;] return sect`")
    if _u(w.body[2]) != "sections.extend(sect.sections)":
        _fail(where, w.body[2], "expected `sections.extend(sect.sections)`")
    if _u(st[3]) != "return None":
        _fail(where, st[3], "expected `return None`")
    return {"cacheFirst": cache_first, "containKey": key}


def _find_related(cls, finders):
    where = "section.py:Section.find_related"
    fn = _func(cls, "find_related", where)
    a = fn.args
    if [x.arg for x in a.args] != ["self", "filtr"] or len(a.defaults) != 1 or _u(a.defaults[0]) != "lambda _: True":
        _fail(where, fn, "signature is not (self, filtr=lambda _: True)")
    st = _body(fn)
    if len(st) != 5 or _u(st[0]) != "result = []" or _u(st[4]) != "return result":
        _fail(where, fn, "expected 5 statements from `result = []` to `return result`")
    i1 = st[1]
    if not (isinstance(i1, ast.If) and _u(i1.test) == "self.parent is not None" and not i1.orelse
            and len(i1.body) == 1 and isinstance(i1.body[0], ast.Assign) and _u(i1.body[0].targets[0]) == "result"):
        _fail(where, i1, "expected `if self.parent is not None: result = finders._find_sections(self.parent, …)`")
    n1, l1 = _finder_call(i1.body[0].value, where, first="self.parent")
    if _u(st[2]) != "if self in result:\n    del result[result.index(self)]":
        _fail(where, st[2], "expected `if self in result: del result[result.index(self)]`")
    s3 = st[3]
    if not (isinstance(s3, ast.AugAssign) and isinstance(s3.op, ast.Add) and _u(s3.target) == "result"):
        _fail(where, s3, "expected `result += finders._find_sections(self, …)`")
    n2, l2 = _finder_call(s3.value, where)
    if n1 != n2 or n1 not in finders or finders[n1]["rootClass"] != "Section":
        _fail(where, fn, "finders %s / %s" % (n1, n2))
    return {"finder": n1, "parentLimit": _nat(l1, where), "selfLimit": _nat(l2, where)}


def _source_parent(cls):
    where = "source.py:Source.parent_source"
    fn = _func(cls, "parent_source", where)
    if not _is_property(fn):
        _fail(where, fn, "not a plain property")
    st = _body(fn)
    if len(st) != 4 or _u(st[0]) != "block = self.parent_block" or _u(st[3]) != "return None":
        _fail(where, fn, "expected block = self.parent_block; top test; for loop; return None")
    t = st[1]
    if not (isinstance(t, ast.If) and not t.orelse and [_u(s) for s in t.body] == ["return None"]):
        _fail(where, t, "expected `if <key> in block.sources: return None`")
    top_key = _key_of(_in_test(t.test, "block.sources", where), where)
    lp = st[2]
    if not (isinstance(lp, ast.For) and _u(lp.target) == "s" and _u(lp.iter) == "block.sources" and not lp.orelse
            and len(lp.body) == 2 and _u(lp.body[1]) == "if p is not None:\n    return p"
            and isinstance(lp.body[0], ast.Assign) and _u(lp.body[0].targets[0]) == "p"
            and isinstance(lp.body[0].value, ast.Call) and _u(lp.body[0].value.func) == "s._find_parent_recursive"
            and len(lp.body[0].value.args) == 2 and _u(lp.body[0].value.args[1]) == "False"
            and not lp.body[0].value.keywords):
        _fail(where, lp, "expected `for s in block.sources: p = s._find_parent_recursive(<key>, False); …`")
    rec_key = _key_of(lp.body[0].value.args[0], where)
    # the recursive helper
    where = "source.py:Source._find_parent_recursive"
    fr = _func(cls, "_find_parent_recursive", where)
    if [x.arg for x in fr.args.args] != ["self", "child_id", "check_id"]:
        _fail(where, fr, "signature is not (self, child_id, check_id=True)")
    st = _body(fr)
    if st and isinstance(st[0], ast.If) and _u(st[0].test) == "check_id and (not util.is_uuid(child_id))" \
            and len(st[0].body) == 1 and isinstance(st[0].body[0], ast.Raise) and not st[0].orelse:
        st = st[1:]           # only active with check_id=True; every call modelled passes False
    want = ("if child_id in self.sources:\n    return self\nelse:\n    for s in self.sources:\n"
            "        src = s._find_parent_recursive(child_id, False)\n        if src is not None:\n"
            "            return src")
    if len(st) != 2 or _u(st[0]) != want or _u(st[1]) != "return None":
        _fail(where, fr, "body is not the depth-first `child_id in self.sources` search")
    # parent_block
    where = "source.py:Source.parent_block"
    fb = _func(cls, "parent_block", where)
    want = ["if self._parent_block is not None:\n    return self._parent_block",
            "maybe_block = self._parent",
            "if not hasattr(maybe_block, 'data_arrays'):\n    maybe_block = maybe_block.parent_block",
            "self._parent_block = maybe_block",
            "return self._parent_block"]
    if not _is_property(fb) or [_u(s) for s in _body(fb)] != want:
        _fail(where, fb, "body is not the `_parent` chain up to the first object with `data_arrays`")
    return {"topKey": top_key, "recKey": rec_key}


def _md_cond(test, var, where):
    """`v.metadata is not None and v.metadata.<a> == self.<a>` -> key"""
    if not (isinstance(test, ast.BoolOp) and isinstance(test.op, ast.And) and len(test.values) == 2
            and _u(test.values[0]) == "%s.metadata is not None" % var):
        _fail(where, test, "condition %s is not `%s.metadata is not None and …`" % (_u(test), var))
    c = test.values[1]
    for a, k in (("id", ".id"), ("name", ".name")):
        if _u(c) in ("%s.metadata.%s == self.%s" % (var, a, a), "self.%s == %s.metadata.%s" % (a, var, a)):
            return k
    _fail(where, c, "comparison %s is not `%s.metadata.id == self.id`" % (_u(c), var))


def _scope(it, blk, where):
    u = _u(it)
    if u == "%s.find_sources()" % blk:
        return ".sourcesFind"
    if u == "%s.sources" % blk:
        return ".sourcesTop"
    if isinstance(it, ast.Attribute) and _u(it.value) == blk and it.attr in HOLDER_KIND:
        return "(.holders %s)" % HOLDER_KIND[it.attr]
    _fail(where, it, "scanned container %s is not modelled" % u)


def _section_referring(cls):
    table = []
    objects = None
    for fn in cls.body:
        if not (isinstance(fn, ast.FunctionDef) and fn.name.startswith("referring_")):
            continue
        where = "section.py:Section.%s" % fn.name
        if not _is_property(fn):
            _fail(where, fn, "not a plain property")
        st = _body(fn)
        if fn.name == "referring_objects":
            objects = _objects(st, where)
            continue
        blocks = "self.file.blocks"
        if st and _u(st[0]) == "nf = self.file":
            st = st[1:]
            blocks = "nf.blocks"
        if len(st) == 1 and isinstance(st[0], ast.Return):
            # list(blk for blk in nf.blocks if cond) / [blk for blk in nf.blocks if cond]
            v = st[0].value
            if isinstance(v, ast.Call) and _u(v.func) == "list" and len(v.args) == 1:
                v = v.args[0]
            if not (isinstance(v, (ast.GeneratorExp, ast.ListComp)) and len(v.generators) == 1
                    and _u(v.generators[0].iter) == blocks and isinstance(v.generators[0].target, ast.Name)
                    and _u(v.elt) == v.generators[0].target.id and len(v.generators[0].ifs) == 1):
                _fail(where, st[0], "not `list(blk for blk in %s if …)`" % blocks)
            key = _md_cond(v.generators[0].ifs[0], v.generators[0].target.id, where)
            table.append((fn.name, ".blocks", key))
            continue
        if not (len(st) == 3 and isinstance(st[0], ast.Assign) and _u(st[0].value) == "[]"
                and isinstance(st[1], ast.For) and _u(st[1].iter) == blocks and isinstance(st[1].target, ast.Name)
                and not st[1].orelse and len(st[1].body) == 1 and isinstance(st[2], ast.Return)
                and _u(st[2].value) == _u(st[0].targets[0])):
            _fail(where, fn, "not `xs = []; for blk in %s: xs.extend(…); return xs`" % blocks)
        acc, blk = _u(st[0].targets[0]), st[1].target.id
        e = st[1].body[0]
        if not (isinstance(e, ast.Expr) and isinstance(e.value, ast.Call) and _u(e.value.func) == "%s.extend" % acc
                and len(e.value.args) == 1 and isinstance(e.value.args[0], (ast.GeneratorExp, ast.ListComp))):
            _fail(where, e, "not `%s.extend(x for x in … if …)`" % acc)
        g = e.value.args[0]
        if not (len(g.generators) == 1 and isinstance(g.generators[0].target, ast.Name)
                and _u(g.elt) == g.generators[0].target.id and len(g.generators[0].ifs) == 1):
            _fail(where, e, "generator shape")
        key = _md_cond(g.generators[0].ifs[0], g.generators[0].target.id, where)
        table.append((fn.name, _scope(g.generators[0].iter, blk, where), key))
    if objects is None:
        raise ExtractError("section.py: Section has no referring_objects")
    return table, objects


def _objects(st, where):
    if len(st) < 2 or _u(st[0]) != "objs = []" or _u(st[-1]) != "return objs":
        raise ExtractError("%s: not `objs = []; objs.extend(self.…)*; return objs`" % where)
    names = []
    for s in st[1:-1]:
        ok = (isinstance(s, ast.Expr) and isinstance(s.value, ast.Call) and _u(s.value.func) == "objs.extend"
              and len(s.value.args) == 1 and isinstance(s.value.args[0], ast.Attribute)
              and _u(s.value.args[0].value) == "self" and not s.value.keywords)
        if not ok:
            _fail(where, s, "statement %s is not `objs.extend(self.<property>)`" % _u(s))
        names.append(s.value.args[0].attr)
    return names


def _source_referring(cls):
    table = []
    objects = None
    for fn in cls.body:
        if not (isinstance(fn, ast.FunctionDef) and fn.name.startswith("referring_")):
            continue
        where = "source.py:Source.%s" % fn.name
        if not _is_property(fn):
            _fail(where, fn, "not a plain property")
        st = _body(fn)
        if fn.name == "referring_objects":
            objects = _objects(st, where)
            continue
        if len(st) != 2 or _u(st[0]) != "block = self.parent_block" or not isinstance(st[1], ast.Return) \
                or not isinstance(st[1].value, ast.ListComp):
            _fail(where, fn, "not `block = self.parent_block; return [x for x in block.<container> if self in x.sources]`")
        g = st[1].value
        if not (len(g.generators) == 1 and isinstance(g.generators[0].target, ast.Name)
                and _u(g.elt) == g.generators[0].target.id and len(g.generators[0].ifs) == 1
                and isinstance(g.generators[0].iter, ast.Attribute) and _u(g.generators[0].iter.value) == "block"
                and g.generators[0].iter.attr in HOLDER_KIND):
            _fail(where, st[1], "list comprehension shape / container")
        var = g.generators[0].target.id
        key = _key_of(_in_test(g.generators[0].ifs[0], "%s.sources" % var, where), where)
        if key == ".name":
            _fail(where, st[1], "membership of a source link list by name is not modelled")
        table.append((fn.name, HOLDER_KIND[g.generators[0].iter.attr], key))
    if objects is None:
        raise ExtractError("source.py: Source has no referring_objects")
    return table, objects


def _finder_term(f):
    return ("{ name := %s, rootClass := %s, childAttr := %s, defaulting := %s, level0 := %d, topInc := %d, "
            "topCmp := %s, step := %d, loopCmp := %s, filterNeg := %s }" % (
                lean_str(f["name"]), lean_str(f["rootClass"]), lean_str(f["childAttr"]), f["defaulting"],
                f["level0"], f["topInc"], f["topCmp"], f["step"], f["loopCmp"], lean_bool(f["filterNeg"])))


def shapes(repo):
    """the extracted facts as plain Python data (also used by the harness for its distribution report)"""
    find = _parse(repo, "nixio/util/find.py")
    _check_cont(find)
    finders = {n: _finder(find, n) for n in ("_find_sections", "_find_sources")}
    if finders["_find_sections"]["rootClass"] != "Section" or finders["_find_sources"]["rootClass"] != "Source":
        raise ExtractError("util/find.py: _find_sections/_find_sources test the wrong classes")
    section = _parse(repo, "nixio/section.py")
    source = _parse(repo, "nixio/source.py")
    wrappers = [
        _wrapper(_parse(repo, "nixio/file.py"), "File", "find_sections", finders, "file.py"),
        _wrapper(section, "Section", "find_sections", finders, "section.py"),
        _wrapper(_parse(repo, "nixio/block.py"), "Block", "find_sources", finders, "block.py"),
        _wrapper(source, "Source", "find_sources", finders, "source.py"),
    ]
    sec_cls = _cls(section, "Section", "section.py")
    src_cls = _cls(source, "Source", "source.py")
    if not _imports_finders(section):
        raise ExtractError("section.py: `finders` is not `from .util import find as finders`")
    sref, sobj = _section_referring(sec_cls)
    rref, robj = _source_referring(src_cls)
    return {"finders": finders, "wrappers": wrappers, "sectionParent": _section_parent(sec_cls),
            "related": _find_related(sec_cls, finders), "sourceParent": _source_parent(src_cls),
            "sectionReferring": sref, "sectionReferringObjects": sobj,
            "sourceReferring": rref, "sourceReferringObjects": robj}


def extract(repo):
    s = shapes(repo)
    L = ["import NixModel.Pure.TreeShape",
         "/-! GENERATED by harness/extract/findshape.py from nixio/util/find.py, section.py, source.py, block.py, "
         "file.py — do not edit. -/",
         "namespace Nix.Generated.FindShape",
         "open Nix.Tree Nix.Tree.Shape",
         ""]
    for n, lean in (("_find_sections", "findSections"), ("_find_sources", "findSources")):
        f = s["finders"][n]
        L.append("/-- `util/find.py:%s` (push %s the filter test) -/" % (n, "before" if f["pushFirst"] else "after"))
        L.append("def %s : Finder :=\n  %s" % (lean, _finder_term(f)))
    lean_of = {"_find_sections": "findSections", "_find_sources": "findSources"}
    L.append("")
    L.append("/-- the public search methods: `def m(self, filtr=lambda _: True, limit=None)` -/")
    L.append("def wrappers : List Wrapper := [")
    rows = []
    for w in s["wrappers"]:
        rows.append("  { cls := %s, method := %s, defaulting := %s, finder := %s, selfIsNode := %s }" % (
            lean_str(w["cls"]), lean_str(w["method"]), w["defaulting"], lean_of[w["finder"]],
            lean_bool(w["selfIsNode"])))
    L.append(",\n".join(rows) + "]")
    L.append("")
    r = s["related"]
    L.append("/-- `Section.find_related` -/")
    L.append("def related : RelatedShape := { finder := %s, parentLimit := %d, selfLimit := %d }" % (
        lean_of[r["finder"]], r["parentLimit"], r["selfLimit"]))
    p = s["sectionParent"]
    L.append("/-- `Section.parent` -/")
    L.append("def sectionParent : ParentShape := { cacheFirst := %s, containKey := %s }" % (
        lean_bool(p["cacheFirst"]), p["containKey"]))
    q = s["sourceParent"]
    L.append("/-- `Source.parent_source` / `_find_parent_recursive` (`parent_block`: the `_parent` chain, matched literally) -/")
    L.append("def sourceParent : SrcParentShape := { topKey := %s, recKey := %s }" % (q["topKey"], q["recKey"]))
    L.append("")
    L.append("/-- the `Section.referring_*` properties in source order -/")
    L.append("def sectionReferring : List (String × Scan) := [")
    L.append(",\n".join("  (%s, { scope := %s, key := %s })" % (lean_str(n), sc, k)
                        for n, sc, k in s["sectionReferring"]) + "]")
    L.append("/-- what `Section.referring_objects` concatenates -/")
    L.append("def sectionReferringObjects : List String := [%s]" % ", ".join(
        lean_str(n) for n in s["sectionReferringObjects"]))
    L.append("")
    L.append("/-- the `Source.referring_*` properties in source order -/")
    L.append("def sourceReferring : List (String × SrcScan) := [")
    L.append(",\n".join("  (%s, { kind := %s, test := %s })" % (lean_str(n), kd, k)
                        for n, kd, k in s["sourceReferring"]) + "]")
    L.append("/-- what `Source.referring_objects` concatenates -/")
    L.append("def sourceReferringObjects : List String := [%s]" % ", ".join(
        lean_str(n) for n in s["sourceReferringObjects"]))
    L.append("")
    L.append("end Nix.Generated.FindShape")
    return {TARGET: "\n".join(L) + "\n"}
