"""nixio/validator.py -> lean/NixModel/Generated/ValidatorGuards.lean

Compiles the *conditions* under which the check functions append a `ValidationError.<X>` message into expressions
of `NixModel/Pure/PyGuard.lean` (Python truthiness, and/or, is None, comparisons, len, units.is_atomic / is_si,
`any(... for v in xs if ...)` over a tuple of values, `all/any(a op b for a, b in zip(xs[:-1], xs[1:]))`), so that the
theorems `C14_guards_*` can state - for ALL values a read can return, boundary values included - that the source's
condition computes exactly the branch of the Lean model.  Parsed with `ast`, never imported.

Output
  * `inductive Read`            every attribute path / variable a compiled condition reads (+ `Read.path`: source text)
  * `guards_<function>`         [(identifier, [condition, outermost first])] for the sites whose conditions all compile
  * `opaque_<function>`         identifiers of the sites with a condition outside the fragment (generators over
                                 objects, helper calls): they stay tied by the textual `reportSites` only
  * `siteLoops`                 the `for` headers a site sits under (loop variables are reads)
  * `localDefs`                 for every local variable a compiled condition reads: the statements assigning it
"""
import ast
import copy
import os
import re

from .leanfmt import ExtractError

REL = os.path.join("nixio", "validator.py")
OUT = "NixModel/Generated/ValidatorGuards.lean"

CMP = {ast.Lt: ".lt", ast.LtE: ".le", ast.Gt: ".gt", ast.GtE: ".ge", ast.Eq: ".eq", ast.NotEq: ".ne"}
PRIMS = {"units.is_atomic": ".isAtomic", "units.is_si": ".isSi"}
ENUMS = ("DimensionType", "LinkType")


class Unsupported(Exception):
    pass


def lean_str(s):
    return '"' + s.replace("\\", "\\\\").replace('"', '\\"') + '"'


def read_ctor(path):
    c = re.sub(r"[^A-Za-z0-9_]", "_", path)
    if not re.match(r"^[A-Za-z_]", c):
        c = "r_" + c
    return c


class Compiler:
    def __init__(self, fns=None):
        self.reads = []         # source paths in first-use order
        self.fns = fns or {}    # module-level functions by name (verdict helpers are inlined at their call)
        self.inlined = []       # names of the helpers inlined

    def read(self, path):
        if path not in self.reads:
            self.reads.append(path)
        return "(.read .%s)" % read_ctor(path)

    def path_of(self, node):
        """dotted path of a Name / Attribute chain, or None"""
        parts = []
        while isinstance(node, ast.Attribute):
            parts.append(node.attr)
            node = node.value
        if isinstance(node, ast.Name):
            parts.append(node.id)
            return ".".join(reversed(parts))
        return None

    def expr(self, n, bound=None):
        """Lean term (string) of type `Expr Read`; raises Unsupported outside the fragment"""
        if isinstance(n, ast.Constant):
            if isinstance(n.value, bool) or n.value is None:
                raise Unsupported("constant %r" % (n.value,))
            if isinstance(n.value, int):
                return "(.intLit %s)" % (str(n.value) if n.value >= 0 else "(%d)" % n.value)
            if isinstance(n.value, str):
                return "(.strLit %s)" % lean_str(n.value)
            raise Unsupported("constant %r" % (n.value,))
        if isinstance(n, (ast.Name, ast.Attribute)):
            p = self.path_of(n)
            if p is None:
                raise Unsupported(ast.unparse(n))
            root = p.split(".")[0]
            if bound is not None and root == bound:
                if p != bound:
                    raise Unsupported("attribute of the generator variable: %s" % p)
                return ".bound"
            if root in ENUMS:
                return "(.enumLit %s)" % lean_str(p)
            if root in ("units", "ValidationError", "ValidationWarning"):
                raise Unsupported(p)
            return self.read(p)
        if isinstance(n, ast.UnaryOp) and isinstance(n.op, ast.Not):
            return "(.not %s)" % self.expr(n.operand, bound)
        if isinstance(n, ast.BoolOp):
            k = ".and" if isinstance(n.op, ast.And) else ".or"
            vals = [self.expr(v, bound) for v in n.values]
            out = vals[-1]
            for v in reversed(vals[:-1]):
                out = "(%s %s %s)" % (k, v, out)
            return out
        if isinstance(n, ast.IfExp):
            if ast.unparse(n.test) != ast.unparse(n.body):
                raise Unsupported("conditional expression other than `x if x else y`")
            return "(.or %s %s)" % (self.expr(n.test, bound), self.expr(n.orelse, bound))
        if isinstance(n, ast.Compare):
            if len(n.ops) != 1:
                raise Unsupported("chained comparison")
            op, rhs = n.ops[0], n.comparators[0]
            if isinstance(op, (ast.Is, ast.IsNot)):
                if not (isinstance(rhs, ast.Constant) and rhs.value is None):
                    raise Unsupported("`is` against something else than None")
                return "(%s %s)" % (".isNone" if isinstance(op, ast.Is) else ".isNotNone", self.expr(n.left, bound))
            if type(op) not in CMP:
                raise Unsupported("comparison %s" % type(op).__name__)
            return "(.cmp %s %s %s)" % (CMP[type(op)], self.expr(n.left, bound), self.expr(rhs, bound))
        if isinstance(n, ast.Call) and not n.keywords:
            fn = self.path_of(n.func)
            if fn == "len" and len(n.args) == 1:
                return "(.len %s)" % self.expr(n.args[0], bound)
            if fn in PRIMS and len(n.args) == 1:
                return "(.call %s %s)" % (PRIMS[fn], self.expr(n.args[0], bound))
            if fn in ("any", "all") and len(n.args) == 1 and isinstance(n.args[0], ast.GeneratorExp):
                return self.generator(fn, n.args[0], bound)
            if fn in self.fns and len(n.args) == 2:
                skips, fail = self.pair_helper(self.fns[fn])
                if fn not in self.inlined:
                    self.inlined.append(fn)
                return "(.matchAll [%s] %s %s %s)" % (", ".join(skips), fail, self.expr(n.args[0], bound),
                                                      self.expr(n.args[1], bound))
            raise Unsupported("call of %s" % (fn or ast.unparse(n.func)))
        raise Unsupported(type(n).__name__)

    def pair_helper(self, f):
        """a verdict helper `def f(xs, yss)` of exactly the shape
               for ys in yss:
                   for a, b in zip(xs, ys):
                       [if <cond>: continue]*
                       if <cond>: return False
               return True
        -> ([skip conditions], fail condition) as PairExpr terms (a = .fst, b = .snd)"""
        body = [st for st in f.body if not (isinstance(st, ast.Expr) and isinstance(st.value, ast.Constant))]
        params = [a.arg for a in f.args.args]
        if len(params) != 2 or f.args.vararg or f.args.kwarg or f.args.kwonlyargs or f.args.defaults:
            raise Unsupported("helper signature")
        xs, yss = params

        def is_const(st, value):
            return isinstance(st, ast.Return) and isinstance(st.value, ast.Constant) and st.value.value is value
        if not (len(body) == 2 and isinstance(body[0], ast.For) and not body[0].orelse and is_const(body[1], True)):
            raise Unsupported("helper shape")
        outer = body[0]
        if not (isinstance(outer.target, ast.Name) and isinstance(outer.iter, ast.Name) and outer.iter.id == yss
                and len(outer.body) == 1 and isinstance(outer.body[0], ast.For) and not outer.body[0].orelse):
            raise Unsupported("helper outer loop")
        ys = outer.target.id
        inner = outer.body[0]
        it = inner.iter
        if not (isinstance(inner.target, ast.Tuple) and len(inner.target.elts) == 2
                and all(isinstance(e, ast.Name) for e in inner.target.elts)
                and isinstance(it, ast.Call) and self.path_of(it.func) == "zip" and len(it.args) == 2
                and not it.keywords and isinstance(it.args[0], ast.Name) and it.args[0].id == xs
                and isinstance(it.args[1], ast.Name) and it.args[1].id == ys):
            raise Unsupported("helper inner loop")
        a, b = (e.id for e in inner.target.elts)
        if len({a, b, xs, ys, yss}) != 5:
            raise Unsupported("helper variable names")

        def pe(n):
            if isinstance(n, ast.Name) and n.id in (a, b):
                return ".fst" if n.id == a else ".snd"
            if isinstance(n, ast.Constant) and isinstance(n.value, str):
                return "(.strLit %s)" % lean_str(n.value)
            if isinstance(n, ast.UnaryOp) and isinstance(n.op, ast.Not):
                return "(.not %s)" % pe(n.operand)
            if isinstance(n, ast.BoolOp):
                k = ".and" if isinstance(n.op, ast.And) else ".or"
                vals = [pe(v) for v in n.values]
                out = vals[-1]
                for v in reversed(vals[:-1]):
                    out = "(%s %s %s)" % (k, v, out)
                return out
            if isinstance(n, ast.Compare) and len(n.ops) == 1 and isinstance(n.ops[0], (ast.Eq, ast.NotEq)):
                e = "(.eq %s %s)" % (pe(n.left), pe(n.comparators[0]))
                return e if isinstance(n.ops[0], ast.Eq) else "(.not %s)" % e
            if (isinstance(n, ast.Call) and self.path_of(n.func) == "units.scalable" and len(n.args) == 2
                    and not n.keywords):
                return "(.scalable %s %s)" % (pe(n.args[0]), pe(n.args[1]))
            raise Unsupported("pair condition %s" % ast.unparse(n))
        skips = []
        stmts = inner.body
        for st in stmts[:-1]:
            if not (isinstance(st, ast.If) and not st.orelse and len(st.body) == 1
                    and isinstance(st.body[0], ast.Continue)):
                raise Unsupported("helper statement")
            skips.append(pe(st.test))
        last = stmts[-1] if stmts else None
        if not (isinstance(last, ast.If) and not last.orelse and len(last.body) == 1 and is_const(last.body[0], False)):
            raise Unsupported("helper verdict statement")
        return skips, pe(last.test)

    def generator(self, fn, g, bound):
        if len(g.generators) != 1 or g.generators[0].is_async:
            raise Unsupported("nested generator")
        c = g.generators[0]
        # q(a op b for a, b in zip(xs[:-1], xs[1:]))
        if (isinstance(c.target, ast.Tuple) and len(c.target.elts) == 2
                and all(isinstance(e, ast.Name) for e in c.target.elts) and not c.ifs
                and isinstance(c.iter, ast.Call) and self.path_of(c.iter.func) == "zip" and len(c.iter.args) == 2):
            a, b = (e.id for e in c.target.elts)
            lo, hi = c.iter.args

            def is_slice(s, lower, upper):
                def const(v, want):
                    if want is None:
                        return v is None
                    if want < 0:
                        return (isinstance(v, ast.UnaryOp) and isinstance(v.op, ast.USub)
                                and isinstance(v.operand, ast.Constant) and v.operand.value == -want)
                    return isinstance(v, ast.Constant) and v.value == want
                return (isinstance(s, ast.Subscript) and isinstance(s.slice, ast.Slice) and s.slice.step is None
                        and const(s.slice.lower, lower) and const(s.slice.upper, upper))
            e = g.elt
            if (is_slice(lo, None, -1) and is_slice(hi, 1, None) and ast.unparse(lo.value) == ast.unparse(hi.value)
                    and isinstance(e, ast.Compare) and len(e.ops) == 1 and type(e.ops[0]) in CMP
                    and isinstance(e.left, ast.Name) and isinstance(e.comparators[0], ast.Name)
                    and {e.left.id, e.comparators[0].id} == {a, b} and a != b):
                op = CMP[type(e.ops[0])]
                if e.left.id == b:      # `b op a`  ==  `a op' b`
                    op = {".lt": ".gt", ".le": ".ge", ".gt": ".lt", ".ge": ".le", ".eq": ".eq", ".ne": ".ne"}[op]
                return "(.adjacent .%s %s %s)" % (fn, op, self.expr(lo.value, bound))
            raise Unsupported("generator over zip(...)")
        if fn != "any":
            raise Unsupported("all(...) over a plain generator")
        if bound is not None or not isinstance(c.target, ast.Name) or len(c.ifs) > 1:
            raise Unsupported("generator shape")
        v = c.target.id
        # the generator variable used only through ONE attribute path (`len(da.shape) for da in tag.references`):
        # iterate over that attribute of the items instead - the read `<iter>[].<attr>`
        uses = set()
        bare = False
        skip = set()
        for part in [g.elt] + list(c.ifs):
            for n in ast.walk(part):
                if isinstance(n, ast.Attribute):
                    pth = self.path_of(n)
                    if pth and pth.split(".")[0] == v and id(n) not in skip:
                        uses.add(pth)
                        for sub in ast.walk(n.value):
                            skip.add(id(sub))
                elif isinstance(n, ast.Name) and n.id == v and id(n) not in skip:
                    bare = True
        if uses:
            it = self.path_of(c.iter)
            if bare or len(uses) != 1 or it is None:
                raise Unsupported("generator variable used through several paths")
            attr = next(iter(uses))
            src = self.read("%s[].%s" % (it, attr.split(".", 1)[1]))
            sub = _Subst(v, attr)
            cond = "(some %s)" % self.expr(sub.visit(copy.deepcopy(c.ifs[0])), v) if c.ifs else "none"
            return "(.anyIn %s %s %s)" % (src, cond, self.expr(sub.visit(copy.deepcopy(g.elt)), v))
        src = self.expr(c.iter, bound)
        cond = "(some %s)" % self.expr(c.ifs[0], v) if c.ifs else "none"
        return "(.anyIn %s %s %s)" % (src, cond, self.expr(g.elt, v))


class _Subst(ast.NodeTransformer):
    """replace the attribute path `<v>.<attr>` by the bare name <v>"""

    def __init__(self, v, path):
        self.v, self.path = v, path

    def visit_Attribute(self, node):
        parts = []
        n = node
        while isinstance(n, ast.Attribute):
            parts.append(n.attr)
            n = n.value
        if isinstance(n, ast.Name) and ".".join([n.id] + parts[::-1]) == self.path:
            return ast.copy_location(ast.Name(id=self.v, ctx=ast.Load()), node)
        return self.generic_visit(node)


def collecting_loop(comp, f):
    """a helper `def f(obj)` of exactly the shape
           out = []
           for v in obj.<attr>:
               if c1: out.append(e1)  [elif c2: out.append(e2)]*
           return out
    -> (iterated path, loop variable, [(condition, appended value)] as Lean terms); reads are those of the loop variable"""
    body = [st for st in f.body if not (isinstance(st, ast.Expr) and isinstance(st.value, ast.Constant))]
    if len(f.args.args) != 1 or len(body) != 3:
        raise ExtractError("%s: not a collecting loop" % f.name)
    init, loop, ret = body
    if not (isinstance(init, ast.Assign) and len(init.targets) == 1 and isinstance(init.targets[0], ast.Name)
            and isinstance(init.value, ast.List) and not init.value.elts):
        raise ExtractError("%s: first statement is not `<name> = []`" % f.name)
    out = init.targets[0].id
    if not (isinstance(ret, ast.Return) and isinstance(ret.value, ast.Name) and ret.value.id == out):
        raise ExtractError("%s: does not return the collected list" % f.name)
    if not (isinstance(loop, ast.For) and not loop.orelse and isinstance(loop.target, ast.Name)
            and len(loop.body) == 1 and isinstance(loop.body[0], ast.If)):
        raise ExtractError("%s: loop shape" % f.name)
    itpath = comp.path_of(loop.iter)
    if itpath is None or itpath.split(".")[0] != f.args.args[0].arg:
        raise ExtractError("%s: the loop does not iterate over an attribute of the parameter" % f.name)
    branches = []
    st = loop.body[0]
    while True:
        if not (len(st.body) == 1 and isinstance(st.body[0], ast.Expr) and isinstance(st.body[0].value, ast.Call)
                and comp.path_of(st.body[0].value.func) == out + ".append" and len(st.body[0].value.args) == 1
                and not st.body[0].value.keywords):
            raise ExtractError("%s: a branch is not a single append" % f.name)
        try:
            branches.append((comp.expr(st.test), comp.expr(st.body[0].value.args[0])))
        except Unsupported as e:
            raise ExtractError("%s: %s" % (f.name, e))
        if not st.orelse:
            break
        if len(st.orelse) == 1 and isinstance(st.orelse[0], ast.If):
            st = st.orelse[0]
        else:
            raise ExtractError("%s: else branch" % f.name)
    return itpath, loop.target.id, branches


def sites(tree):
    """[(function, identifier, [('if', test node, negated) | ('for', node) | ('except', text)])] in source order, for
    every `ValidationError.<X>` reference in a module-level function (same walk as extract/validator.report_sites)"""
    out = []

    def refs(node):
        found = []
        for n in ast.walk(node):
            if isinstance(n, ast.Attribute) and isinstance(n.value, ast.Name) and n.value.id == "ValidationError":
                found.append((n.lineno, n.col_offset, n.attr))
        return [a for _l, _c, a in sorted(found)]

    def walk(fn, stmts, guards):
        for st in stmts:
            if isinstance(st, ast.If):
                for a in refs(st.test):
                    out.append((fn, a, guards))
                walk(fn, st.body, guards + [("if", st.test, False)])
                walk(fn, st.orelse, guards + [("if", st.test, True)])
            elif isinstance(st, ast.For):
                walk(fn, st.body, guards + [("for", st)])
                walk(fn, st.orelse, guards)
            elif isinstance(st, ast.Try):
                walk(fn, st.body, guards)
                for h in st.handlers:
                    walk(fn, h.body, guards + [("except", ast.unparse(h.type) if h.type is not None else "")])
                walk(fn, st.orelse, guards)
                walk(fn, st.finalbody, guards)
            elif isinstance(st, ast.FunctionDef):
                walk(fn, st.body, guards)
            elif isinstance(st, (ast.While, ast.With, ast.Match)):
                if refs(st):
                    raise ExtractError("%s: ValidationError used inside a %s statement (line %d)"
                                       % (fn, type(st).__name__, st.lineno))
            else:
                for a in refs(st):
                    out.append((fn, a, guards))
    for fn in tree.body:
        if isinstance(fn, ast.FunctionDef):
            walk(fn.name, fn.body, [])
    return out


def local_defs(fn, name):
    """normalised source of every statement of `fn` that assigns the local `name`, with the try / except / if header it
    sits under"""
    out = []

    def walk(stmts, ctx):
        for st in stmts:
            if isinstance(st, ast.Assign) and any(isinstance(t, ast.Name) and t.id == name for t in st.targets):
                out.append((ctx + ": " if ctx else "") + " ".join(ast.unparse(st).split()))
            elif isinstance(st, ast.If):
                t = ast.unparse(st.test)
                walk(st.body, "if %s" % t)
                walk(st.orelse, "if not (%s)" % t)
            elif isinstance(st, ast.Try):
                walk(st.body, "try")
                for h in st.handlers:
                    walk(h.body, "except %s" % (ast.unparse(h.type) if h.type is not None else ""))
                walk(st.orelse, "else")
            elif isinstance(st, (ast.For, ast.While, ast.With)):
                walk(st.body, ctx)
    walk(fn.body, "")
    return out


def analyse(repo):
    """(tree, functions by name, reads, per function {"ok": [(identifier, [Lean condition]...)], "opaque": [...],
    "py": [(identifier, [(test node, negated)])] - the same compiled sites as Python AST, for the harness}, loops,
    function order)"""
    path = os.path.join(repo, REL)
    tree = ast.parse(open(path, encoding="utf-8").read())
    fns = {f.name: f for f in tree.body if isinstance(f, ast.FunctionDef)}
    comp = Compiler(fns)
    per_fn = {}
    loops = []
    order = []
    for fn, ident, guards in sites(tree):
        if fn not in per_fn:
            per_fn[fn] = {"ok": [], "opaque": [], "py": []}
            order.append(fn)
        conds = []
        pyconds = []
        ok = True
        heads = []
        saved = list(comp.reads)
        for g in guards:
            if g[0] == "for":
                heads.append("for %s in %s" % (ast.unparse(g[1].target), ast.unparse(g[1].iter)))
                continue
            if g[0] == "except":
                ok = False
                break
            try:
                c = comp.expr(g[1])
            except Unsupported:
                ok = False
                break
            conds.append("(.not %s)" % c if g[2] else c)
            pyconds.append((g[1], g[2]))
        if ok:
            per_fn[fn]["ok"].append((ident, conds))
            per_fn[fn]["py"].append((ident, pyconds))
            if heads:
                loops.append((fn, ident, heads))
        else:
            comp.reads = saved          # reads of an abandoned site do not count
            per_fn[fn]["opaque"].append(ident)
    return tree, fns, comp, per_fn, loops, order


def extract(repo):
    tree, fns, comp, per_fn, loops, order = analyse(repo)
    if "get_dim_units" not in fns:
        raise ExtractError("get_dim_units not found")
    itpath, var, branches = collecting_loop(comp, fns["get_dim_units"])
    if not comp.reads:
        raise ExtractError("validator.py: no condition could be compiled")
    ctors = [read_ctor(p) for p in comp.reads]
    if len(set(ctors)) != len(ctors):
        raise ExtractError("two reads map to the same constructor name")

    # locals: reads whose root is neither a parameter nor a loop variable of the function that uses them
    locals_ = []
    for fn in order:
        f = fns[fn]
        params = {a.arg for a in f.args.args}
        loopvars = set()
        for n in ast.walk(f):
            if isinstance(n, ast.For):
                loopvars |= {x.id for x in ast.walk(n.target) if isinstance(x, ast.Name)}
        used = set()
        for _ident, conds in per_fn[fn]["ok"]:
            for c in conds:
                used |= set(re.findall(r"\.read \.([A-Za-z0-9_]+)", c))
        for p in comp.reads:
            root = p.split(".")[0]
            if read_ctor(p) in used and root not in params and root not in loopvars:
                defs = local_defs(f, root)
                if defs and (fn, root, defs) not in locals_:
                    locals_.append((fn, root, defs))

    L = []
    L.append("/- GENERATED by harness/extract/validator_guards.py from nixio/validator.py — do not edit. -/")
    L.append("import NixModel.Pure.PyGuard")
    L.append("import NixModel.Generated.ValidatorCatalogue")
    L.append("namespace Nix.Validator.Gen")
    L.append("open Nix.PyGuard")
    L.append("")
    L.append("/-- every attribute path / variable a compiled condition reads -/")
    L.append("inductive Read where")
    for c in ctors:
        L.append("  | %s" % c)
    L.append("  deriving DecidableEq, Repr")
    L.append("")
    L.append("/-- the source text of a read -/")
    L.append("def Read.path : Read → String")
    for p, c in zip(comp.reads, ctors):
        L.append("  | .%s => %s" % (c, lean_str(p)))
    L.append("")
    L.append("def Read.all : List Read := [%s]" % ", ".join("." + c for c in ctors))
    L.append("")
    for fn in order:
        L.append("/-- `%s`: the sites whose enclosing conditions compile, in source order -/" % fn)
        L.append("def guards_%s : List (MsgId × List (Expr Read)) := [" % fn)
        L.append(",\n".join("  (.%s, [%s])" % (ident, ", ".join(conds)) for ident, conds in per_fn[fn]["ok"]))
        L.append("]")
        L.append("/-- `%s`: sites with a condition outside the compiled fragment -/" % fn)
        L.append("def opaque_%s : List MsgId := [%s]" % (fn, ", ".join("." + i for i in per_fn[fn]["opaque"])))
        L.append("")
    L.append("/-- `get_dim_units(data_array)`: `out = []; for %s in %s: if c: out.append(e) elif …; return out` as "
             "(condition, appended value) per branch -/" % (var, itpath))
    L.append("def getDimUnitsBranches : List (Expr Read × Expr Read) := [%s]"
             % ", ".join("(%s, %s)" % b for b in branches))
    L.append("def getDimUnitsLoop : String × String := (%s, %s)" % (lean_str(var), lean_str(itpath)))
    L.append("")
    L.append("/-- verdict helpers inlined at their call (their loops compiled into `Expr.matchAll`) -/")
    L.append("def inlinedHelpers : List String := [%s]" % ", ".join(lean_str(h) for h in comp.inlined))
    L.append("")
    L.append("/-- the compiled sites by function name (for the model driver) -/")
    L.append("def guardTable : List (String × List (MsgId × List (Expr Read))) := [%s]"
             % ", ".join("(%s, guards_%s)" % (lean_str(fn), fn) for fn in order))
    L.append("")
    L.append("/-- the `for` headers a compiled site sits under (their targets are reads) -/")
    L.append("def siteLoops : List (String × MsgId × List String) := [")
    L.append(",\n".join("  (%s, .%s, [%s])" % (lean_str(fn), ident, ", ".join(lean_str(h) for h in heads))
                        for fn, ident, heads in loops))
    L.append("]")
    L.append("")
    L.append("/-- local variables read by compiled conditions: (function, variable, the statements assigning it) -/")
    L.append("def localDefs : List (String × String × List String) := [")
    L.append(",\n".join("  (%s, %s, [%s])" % (lean_str(fn), lean_str(v), ", ".join(lean_str(d) for d in defs))
                        for fn, v, defs in locals_))
    L.append("]")
    L.append("")
    L.append("end Nix.Validator.Gen")
    return {OUT: "\n".join(L) + "\n"}
