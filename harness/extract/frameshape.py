"""Translator: nixio/data_frame.py, nixio/block.py  ->  NixModel/Generated/FrameShape.lean        (property C16)

What `NixModel/Pure/Frame.lean` models by hand is the *logic* of DataFrame; this translator regenerates from the
source the parts of its *shape* that the model and the theorems of `Props/C16.lean` rely on:

  slotInit     fields `self.<f> = ...` bound in DataFrame.__init__ (per-object slots)
  slotWrites   (field, method)   every other `self.<f> = ...` / `+=` / `setattr(self, "<f>", ...)` inside a method of
                                 DataFrame, unless <f> is a property with a setter of DataFrame, DataSet or Entity
                                 (then the statement is a call of that setter: a write to the file, not object state)
  slotReads    (field, method)   every load of `self.<f>` for <f> in slotInit or slotWrites inside a method
               The model has ONE table per frame whatever DataFrame object is used; that is sound iff objects carry
               no state between calls: `C16_handles_stateless` proves slotWrites = [] and slotReads = [].
  guards       (method, [(test, exception)])   the `if <test>: raise <Exc>` statements of every modelled method in
               source order (`elif` included), the test as normalised source text
  calls        (method, [dotted callee])       every call whose callee is an attribute chain (`self._write_data`,
               `self._h5group.create_dataset`, `np.array`, `grp.move` ...) and every access to a named HDF5 object
               (`self._h5group.group['data']`, `del grp['data']`) in source order: which helper stores the data,
               where the dataset is looked up, in which order conversions and writes happen
  storage      (Class.method, [normalised statement])   the read path every DataFrame read goes through, statement by
               statement (compound statements as their header line, bodies in source order, docstrings and comments
               dropped): DataSet.__getitem__, DataSet._read_data, H5DataSet.read_data, H5DataSet._convert_string_cols.
               `Pure/FrameBytes.lean` models exactly these (select from the dataset, then convert the text fields of a
               single row / of every row / of a one-field selection); `C16_read_path_as_modelled` pins them.
  `Props/C16.lean` proves both tables equal to the tables the model was written against (`Frame.Shape`), so an edit
  of a guard (`not index` for `index is None`), a reordered check, a conversion moved behind a write, or a different
  storage helper breaks `lake build` on a named theorem and the check goes looking for a failing input.

Parsed with `ast` only.  A modelled method that no longer exists, or a `setattr(self, <non-literal>, ...)` /
`self.__dict__` access inside DataFrame raises ExtractError (broken tie).
"""
import ast
import os

from .leanfmt import ExtractError, lean_str

TARGET = "NixModel/Generated/FrameShape.lean"
METHODS = ["append_column", "append_rows", "write_column", "read_columns", "write_rows", "read_rows", "write_cell",
           "read_cell", "_find_name_by_idx", "row_count", "units", "units.setter", "columns", "column_names", "dtype",
           "df_shape"]


def _parse(repo, rel):
    path = os.path.join(repo, rel)
    try:
        with open(path, encoding="utf-8") as f:
            return ast.parse(f.read(), filename=rel)
    except OSError as e:
        raise ExtractError("%s: %s" % (rel, e))


def _class(tree, name, rel):
    for node in tree.body:
        if isinstance(node, ast.ClassDef) and node.name == name:
            return node
    raise ExtractError("class %s not found in %s" % (name, rel))


def _setter_names(cls):
    out = set()
    for n in cls.body:
        if isinstance(n, ast.FunctionDef):
            for d in n.decorator_list:
                if isinstance(d, ast.Attribute) and d.attr == "setter":
                    out.add(n.name)
    return out


def _method_key(fn):
    for d in fn.decorator_list:
        if isinstance(d, ast.Attribute) and d.attr in ("setter", "deleter"):
            return "%s.%s" % (fn.name, d.attr)
    return fn.name


def _selfname(fn):
    if not fn.args.args:
        return None
    return fn.args.args[0].arg


def _is_self_attr(node, selfname):
    return isinstance(node, ast.Attribute) and isinstance(node.value, ast.Name) and node.value.id == selfname


def _exc_name(node):
    if node is None:
        return "<reraise>"
    if isinstance(node, ast.Call):
        node = node.func
    if isinstance(node, ast.Attribute):
        return node.attr
    if isinstance(node, ast.Name):
        return node.id
    return ast.unparse(node)


def _guards(fn):
    out = []

    def visit(stmts):
        for st in stmts:
            if isinstance(st, ast.If):
                raises = [b for b in st.body if isinstance(b, ast.Raise)]
                if raises:
                    out.append((ast.unparse(st.test), _exc_name(raises[0].exc)))
                visit([b for b in st.body if not isinstance(b, ast.Raise)])
                visit(st.orelse)
            elif isinstance(st, (ast.For, ast.While)):
                visit(st.body)
                visit(st.orelse)
            elif isinstance(st, ast.Try):
                visit(st.body)
                for h in st.handlers:
                    visit(h.body)
                visit(st.orelse)
                visit(st.finalbody)
            elif isinstance(st, ast.With):
                visit(st.body)
            elif isinstance(st, ast.Raise):
                out.append(("True", _exc_name(st.exc)))
    visit(fn.body)
    return out


def _calls(fn):
    found = []
    for node in ast.walk(fn):
        if isinstance(node, ast.Call) and isinstance(node.func, ast.Attribute):
            if isinstance(node.func.value, ast.Constant):
                continue                          # "...".format(...) of a message
            found.append((node.lineno, node.col_offset, ast.unparse(node.func)))
        elif isinstance(node, ast.Subscript) and isinstance(node.slice, ast.Constant) \
                and isinstance(node.slice.value, str) and isinstance(node.value, (ast.Name, ast.Attribute)):
            # access to a named HDF5 object / attribute: grp['data'], self._h5group.group['data'], del grp['data']
            pre = "del " if isinstance(node.ctx, ast.Del) else ("set " if isinstance(node.ctx, ast.Store) else "")
            found.append((node.lineno, node.col_offset, pre + ast.unparse(node)))
    found.sort()
    return [c for (_, _, c) in found]


STORAGE = [("nixio/data_set.py", "DataSet", ["__getitem__", "_read_data"]),
           ("nixio/hdf5/h5dataset.py", "H5DataSet", ["read_data", "_convert_string_cols"])]


def _statements(fn):
    """the statements of a function in source order: simple statements as normalised source, compound statements as
    their header followed by their bodies"""
    out = []

    def visit(stmts):
        for st in stmts:
            if isinstance(st, ast.Expr) and isinstance(st.value, ast.Constant) and isinstance(st.value.value, str):
                continue                                    # docstring
            if isinstance(st, ast.If):
                out.append("if %s:" % ast.unparse(st.test))
                visit(st.body)
                if st.orelse:
                    out.append("else:")
                    visit(st.orelse)
            elif isinstance(st, (ast.For, ast.While)):
                out.append(("for %s in %s:" % (ast.unparse(st.target), ast.unparse(st.iter)))
                           if isinstance(st, ast.For) else "while %s:" % ast.unparse(st.test))
                visit(st.body)
                if st.orelse:
                    out.append("else:")
                    visit(st.orelse)
            elif isinstance(st, ast.Try):
                out.append("try:")
                visit(st.body)
                for h in st.handlers:
                    out.append("except %s%s:" % (ast.unparse(h.type) if h.type else "",
                                                 " as " + h.name if h.name else ""))
                    visit(h.body)
                if st.orelse:
                    out.append("else:")
                    visit(st.orelse)
                if st.finalbody:
                    out.append("finally:")
                    visit(st.finalbody)
            elif isinstance(st, ast.With):
                out.append("with %s:" % ", ".join(ast.unparse(i) for i in st.items))
                visit(st.body)
            elif isinstance(st, (ast.FunctionDef, ast.AsyncFunctionDef)):
                out.append("def %s(%s):" % (st.name, ast.unparse(st.args)))
                visit(st.body)
            else:
                out.append(ast.unparse(st))
    out.append("def %s(%s):" % (fn.name, ast.unparse(fn.args)))
    visit(fn.body)
    return out


def _storage(repo):
    rows = []
    for rel, cname, names in STORAGE:
        c = _class(_parse(repo, rel), cname, rel)
        fns = {n.name: n for n in c.body if isinstance(n, ast.FunctionDef)}
        for nm in names:
            if nm not in fns:
                raise ExtractError("%s.%s not found in %s" % (cname, nm, rel))
            rows.append(("%s.%s" % (cname, nm), _statements(fns[nm])))
    return rows


def _lean_pairs(pairs):
    return "[" + ", ".join("(%s, %s)" % (lean_str(a), lean_str(b)) for a, b in pairs) + "]"


def extract(repo):
    rel = "nixio/data_frame.py"
    tree = _parse(repo, rel)
    cls = _class(tree, "DataFrame", rel)
    setters = _setter_names(cls)
    for brel, bname in (("nixio/data_set.py", "DataSet"), ("nixio/entity.py", "Entity")):
        setters |= _setter_names(_class(_parse(repo, brel), bname, brel))

    methods = {}
    for n in cls.body:
        if isinstance(n, ast.FunctionDef):
            methods[_method_key(n)] = n
    missing = [m for m in METHODS if m not in methods]
    if missing:
        raise ExtractError("DataFrame no longer defines %s" % ", ".join(missing))

    slot_init, slot_writes = [], []
    for key, fn in methods.items():
        me = _selfname(fn)
        if me is None:
            continue
        for node in ast.walk(fn):
            targets = []
            if isinstance(node, ast.Assign):
                targets = node.targets
            elif isinstance(node, (ast.AugAssign, ast.AnnAssign)):
                targets = [node.target]
            elif isinstance(node, ast.NamedExpr):
                targets = [node.target]
            elif isinstance(node, ast.Call) and isinstance(node.func, ast.Name) and node.func.id == "setattr":
                if node.args and isinstance(node.args[0], ast.Name) and node.args[0].id == me:
                    if len(node.args) > 1 and isinstance(node.args[1], ast.Constant) and isinstance(node.args[1].value, str):
                        if node.args[1].value not in setters:
                            (slot_init if key == "__init__" else slot_writes).append((node.args[1].value, key))
                    else:
                        raise ExtractError("setattr(self, <non-literal>, ...) in DataFrame.%s" % key)
            elif isinstance(node, ast.Attribute) and node.attr == "__dict__" and isinstance(node.value, ast.Name) \
                    and node.value.id == me:
                raise ExtractError("self.__dict__ used in DataFrame.%s" % key)
            flat = []
            for t in targets:
                if isinstance(t, (ast.Tuple, ast.List)):
                    flat += list(t.elts)
                else:
                    flat.append(t)
            for t in flat:
                if _is_self_attr(t, me) and t.attr not in setters:
                    if key == "__init__":
                        slot_init.append(t.attr)
                    else:
                        slot_writes.append((t.attr, key))
    slots = set(slot_init) | {f for f, _ in slot_writes}
    slot_reads = []
    for key, fn in methods.items():
        me = _selfname(fn)
        if me is None:
            continue
        for node in ast.walk(fn):
            if _is_self_attr(node, me) and isinstance(node.ctx, ast.Load) and node.attr in slots:
                slot_reads.append((node.attr, key))
    slot_init = sorted(set(slot_init))
    slot_writes = sorted(set(slot_writes))
    slot_reads = sorted(set(slot_reads))

    shape = [(m, methods[m]) for m in METHODS]
    brel = "nixio/block.py"
    bcls = _class(_parse(repo, brel), "Block", brel)
    cdf = [n for n in bcls.body if isinstance(n, ast.FunctionDef) and n.name == "create_data_frame"]
    if not cdf:
        raise ExtractError("Block.create_data_frame not found")
    shape.append(("create_data_frame", cdf[0]))
    create_new = [n for n in cls.body if isinstance(n, ast.FunctionDef) and n.name == "create_new"]
    if not create_new:
        raise ExtractError("DataFrame.create_new not found")
    shape.append(("create_new", create_new[0]))

    lines = ["-- generated by harness/extract/frameshape.py from nixio/data_frame.py and nixio/block.py — do not edit",
             "namespace Nix.Generated.FrameShape", "",
             "/-- per-object fields bound in `DataFrame.__init__` -/",
             "def slotInit : List String := [" + ", ".join(lean_str(x) for x in slot_init) + "]", "",
             "/-- (field, method): object fields assigned outside `__init__` -/",
             "def slotWrites : List (String × String) := " + _lean_pairs(slot_writes), "",
             "/-- (field, method): object fields read by a method -/",
             "def slotReads : List (String × String) := " + _lean_pairs(slot_reads), "",
             "/-- (method, [(test, exception)]): the `if test: raise Exception` statements in source order -/",
             "def guards : List (String × List (String × String)) := ["]
    lines.append(",\n".join("  (%s, %s)" % (lean_str(m), _lean_pairs(_guards(fn))) for m, fn in shape))
    lines += ["]", "", "/-- (method, [callee]): attribute-chain calls in source order -/",
              "def calls : List (String × List String) := ["]
    lines.append(",\n".join("  (%s, [%s])" % (lean_str(m), ", ".join(lean_str(c) for c in _calls(fn)))
                            for m, fn in shape))
    lines += ["]", "", "/-- (Class.method, [statement]): the read path of every DataFrame read, statement by statement -/",
              "def storage : List (String × List String) := ["]
    lines.append(",\n".join("  (%s, [%s])" % (lean_str(m), ", ".join(lean_str(c) for c in sts))
                            for m, sts in _storage(repo)))
    lines += ["]", "", "end Nix.Generated.FrameShape", ""]
    return {TARGET: "\n".join(lines)}


def sync_modelled(repo="/repo", verif=None):
    """after a reviewed, harmless edit of a modelled method (e.g. a `fix:` commit that adds a roll-back): copy the
    regenerated `guards` / `calls` tables into the hand-written NixModel/Pure/FrameShape.lean (header kept).
    Usage: /venv/bin/python -m harness.extract.frameshape sync"""
    verif = verif or os.path.dirname(os.path.dirname(os.path.dirname(os.path.abspath(__file__))))
    t = extract(repo)[TARGET]
    g = t[t.index("def guards"):t.index("/-- (method, [callee])")]
    c = t[t.index("def calls"):t.index("/-- (Class.method, [statement])")]
    st = t[t.index("def storage"):t.index("end Nix.Generated")]
    p = os.path.join(verif, "lean", "NixModel", "Pure", "FrameShape.lean")
    with open(p, encoding="utf-8") as f:
        s = f.read()
    i, j = s.index("def guards"), s.index("/-- attribute-chain calls")
    s = s[:i] + g + s[j:]
    i, j = s.index("def calls"), s.index("/-- the read path")
    s = s[:i] + c + s[j:]
    i, j = s.index("def storage"), s.index("end Nix.Frame.Shape")
    s = s[:i] + st + s[j:]
    with open(p, "w", encoding="utf-8") as f:
        f.write(s)
    return p


if __name__ == "__main__":
    import sys
    if sys.argv[1:2] == ["sync"]:
        print("rewrote", sync_modelled(os.environ.get("NIXPY_REPO", "/repo")))
    else:
        print(extract(os.environ.get("NIXPY_REPO", "/repo"))[TARGET])
