"""Translator: the setters of role links  ->  NixModel/Generated/RoleOrder.lean                       (property C12)

    MultiTag.positions, MultiTag.extents, Feature.data, Section.link,
    Block / DataArray / DataFrame / Tag / MultiTag / Group / Source .metadata

each with `H5Group.create_link` inlined, rendered statement by statement over the vocabulary of
NixModel/Pure/RoleWrite.lean.  The setters branch on the class of the offered object (`is None`, `isinstance`): every
such test is evaluated for each of the five classes of `RoleWrite.Kind`, so a generated setter is a function
`Kind -> list of guards and writes` (the statements on the path that class takes; a `raise` reached on the path is the
guard `.refuse`).  Tests that look at the file (`da not in block.data_arrays`, `"extents" in self._h5group`, the link
type of the feature) become guards / conditional writes.  `Props/C12Roles.lean` evaluates the discipline `safe` of
Pure/Guarded.lean on every path: a membership test moved behind the removal of the previous link (or the same-file
test of `create_link` dropped) changes a list and breaks `role_setters_safe`.  A statement this table does not know
is an ExtractError (broken tie).

The object handed to `Dimension.link_data_array` / `link_data_frame` is rendered as well (`dimensionLink*`: the
statements of harness/extract/linkorder.py that touch the link group, `create_link` inlined; the statements about
the index are those of Generated/LinkOrder.lean).  Parsed with `ast`, never imported.
"""
import ast
import os

from .leanfmt import ExtractError
from . import linkorder as _lo

TARGET = "NixModel/Generated/RoleOrder.lean"
KINDS = ("none", "array", "frame", "section", "other")
CLASS_KIND = {"DataArray": "array", "DataFrame": "frame", "Section": "section"}
ERR = {"TypeError": ".typeError", "RuntimeError": ".runtimeError", "KeyError": ".keyError", "ValueError": ".valueError",
       "UnsupportedLinkType": ".valueError"}
NO_EFFECT = ("parblock = self._parent._parent", "objtype = 'DataArray'", "objtype = 'DataFrame'", "sec = id_or_sec",
             "sec = found[0]", "found = self.file.find_sections(filtr=lambda x: x.id == id_or_sec)")


def _u(n):
    return ast.unparse(n)


def _E(src):
    return ast.unparse(ast.parse(src).body[0])


def _parse(repo, rel):
    try:
        with open(os.path.join(repo, rel), encoding="utf-8") as fh:
            return ast.parse(fh.read())
    except (OSError, SyntaxError) as e:
        raise ExtractError("%s: %s" % (rel, e))


def _setter(tree, cls, name, rel):
    for c in tree.body:
        if isinstance(c, ast.ClassDef) and c.name == cls:
            for f in c.body:
                if isinstance(f, ast.FunctionDef) and f.name == name and \
                        [_u(d) for d in f.decorator_list] == ["%s.setter" % name]:
                    if len(f.args.args) != 2:
                        raise ExtractError("%s: %s.%s setter takes %d arguments" % (rel, cls, name, len(f.args.args)))
                    return f
    raise ExtractError("%s: setter %s.%s not found" % (rel, cls, name))


def _method(tree, cls, name, rel):
    for c in tree.body:
        if isinstance(c, ast.ClassDef) and c.name == cls:
            for f in c.body:
                if isinstance(f, ast.FunctionDef) and f.name == name:
                    return f
    raise ExtractError("%s: %s.%s not found" % (rel, cls, name))


def _body(stmts):
    return [st for st in stmts if not (isinstance(st, ast.Expr) and isinstance(st.value, ast.Constant))]


def _fail(where, st):
    raise ExtractError("%s line %d: statement not modelled: %s" % (where, st.lineno, _u(st)[:110]))


def _kind_test(test, kind, arg):
    """truth value of a test that looks only at the class of the offered object, for an object of `kind`; None when
    the test looks at anything else"""
    if isinstance(test, ast.Compare) and len(test.ops) == 1 and _u(test.left) == arg and \
            isinstance(test.comparators[0], ast.Constant) and test.comparators[0].value is None:
        if isinstance(test.ops[0], ast.Is):
            return kind == "none"
        if isinstance(test.ops[0], ast.IsNot):
            return kind != "none"
        return None
    if isinstance(test, ast.Call) and _u(test.func) == "isinstance" and len(test.args) == 2 and _u(test.args[0]) == arg:
        names = [_u(x) for x in test.args[1].elts] if isinstance(test.args[1], ast.Tuple) else [_u(test.args[1])]
        if all(n in CLASS_KIND for n in names):
            return kind in [CLASS_KIND[n] for n in names]
        return None
    if isinstance(test, ast.UnaryOp) and isinstance(test.op, ast.Not):
        v = _kind_test(test.operand, kind, arg)
        return None if v is None else not v
    if isinstance(test, ast.BoolOp):
        vs = [_kind_test(v, kind, arg) for v in test.values]
        if any(v is None for v in vs):
            return None
        return all(vs) if isinstance(test.op, ast.And) else any(vs)
    return None


def _raise_err(st, where):
    exc = st.exc.func if isinstance(st.exc, ast.Call) else st.exc
    name = _u(exc) if exc is not None else ""
    if name not in ERR:
        raise ExtractError("%s line %d: raise of an exception class the model does not know: %s" % (where, st.lineno, name))
    return ERR[name]


def _only_raise(st):
    return not st.orelse and len(st.body) == 1 and isinstance(st.body[0], ast.Raise)


def _walk(stmts, kind, arg, role, cl, where, env):
    """(steps, the path has ended) of the statements for an object of class `kind`"""
    steps = []
    for st in _body(stmts):
        s = _u(st)
        if isinstance(st, ast.Return) and st.value is None:
            return steps, True
        if isinstance(st, ast.Raise):
            return steps + [".guard (.refuse %s)" % _raise_err(st, where)], True
        if isinstance(st, ast.If):
            v = _kind_test(st.test, kind, arg)
            if v is not None:
                sub, done = _walk(st.body if v else st.orelse, kind, arg, role, cl, where, env)
                steps += sub
                if done:
                    return steps, True
                continue
            t = _u(st.test)
            if _only_raise(st) and t in (_E("%s not in self._parent.data_arrays" % arg), _E("%s not in parblock.data_arrays" % arg),
                                         _E("%s not in parblock.data_frames" % arg)):
                want = "frame" if t.endswith("data_frames") else "array"
                if kind != want:
                    raise ExtractError("%s line %d: membership in %s asked of an object of class %s" % (where, st.lineno, t, kind))
                steps.append(".guard .inBlock")
            elif _only_raise(st) and t == _E("self.link_type == LinkType.Tagged"):
                steps.append(".guard .notTagged")
            elif _only_raise(st) and t == _E("not found") and _raise_err(st.body[0], where) == ".keyError":
                steps.append(".guard .idFound")
            elif not st.orelse and t == _E("'%s' in self._h5group" % role) and \
                    [_u(x) for x in st.body] in ([_E("del self._h5group['%s']" % role)],
                                                 [_E("self._h5group.delete('%s', delete_if_empty=False)" % role)]):
                steps.append(".write .dropLink")
            elif not st.orelse and t == _E("self.file.auto_update_timestamps") and \
                    [_u(x) for x in st.body] in ([_E("self.force_updated_at()")],
                                                 [_E("time = util.now_int()"),
                                                  _E("self._h5group.set_attr('updated_at', util.time_to_str(time))")]):
                steps.append(".write .stamp")
            else:
                _fail(where, st)
        elif s in [_E(x) for x in NO_EFFECT]:
            if s.startswith("objtype = "):
                env["objtype"] = st.value.value
        elif s == _E("self._h5group.set_attr('target_type', objtype)"):
            if env.get("objtype") not in ("DataArray", "DataFrame"):
                raise ExtractError("%s line %d: target_type written without a known objtype" % (where, st.lineno))
            steps.append(".write (.setTargetType %s)" % ("true" if env["objtype"] == "DataFrame" else "false"))
        elif isinstance(st, ast.Expr) and isinstance(st.value, ast.Call) and _u(st.value.func) == "self._h5group.create_link":
            args = [_u(a) for a in st.value.args]
            if st.value.keywords or len(args) != 2 or args[1] != repr(role) or args[0] not in (arg, "sec"):
                _fail(where, st)
            steps += cl
        else:
            _fail(where, st)
    return steps, False


def _create_link(fn, where):
    steps = []
    if [a.arg for a in fn.args.args] != ["self", "target", "name"]:
        raise ExtractError("%s: signature changed" % where)
    for st in _body(fn.body):
        s = _u(st)
        if s == _E("self._create_h5obj()"):
            steps.append(".write .ensureGroup")
        elif s == _E("h5target = target._h5group.group"):
            continue
        elif isinstance(st, ast.If) and _only_raise(st) and _u(st.test) == _E("h5target.file != self.group.file"):
            steps.append(".guard .sameFile")
        elif s == _E("if name in self.group:\n    del self.group[name]"):
            steps.append(".write .dropLink")
        elif s in (_E("self.group[name] = h5target"), _E("self.group[name] = target._h5group.group")):
            steps.append(".write .link")
        else:
            _fail(where, st)
    return steps


SETTERS = [  # (Lean name, file, class, attribute)
    ("multiTagPositions", "nixio/multi_tag.py", "MultiTag", "positions"),
    ("multiTagExtents", "nixio/multi_tag.py", "MultiTag", "extents"),
    ("featureData", "nixio/feature.py", "Feature", "data"),
    ("sectionLink", "nixio/section.py", "Section", "link"),
    ("blockMetadata", "nixio/block.py", "Block", "metadata"),
    ("dataArrayMetadata", "nixio/data_array.py", "DataArray", "metadata"),
    ("dataFrameMetadata", "nixio/data_frame.py", "DataFrame", "metadata"),
    ("tagMetadata", "nixio/tag.py", "Tag", "metadata"),
    ("multiTagMetadata", "nixio/multi_tag.py", "MultiTag", "metadata"),
    ("groupMetadata", "nixio/group.py", "Group", "metadata"),
    ("sourceMetadata", "nixio/source.py", "Source", "metadata"),
]


def _dimension_link(steps, cl, where):
    """the statements of a linkorder step list that touch the link group, in RoleWrite's vocabulary"""
    out = []
    for s in steps:
        if s == ".guard .sameFile":
            out.append(".guard .sameFile")      # the pre-check that is about the object: the test create_link makes
            continue
        if s.startswith(".guard ") or s in (".setIndexAttr", ".setColAttr", ".deleteTicksIfAny"):
            continue                    # about the index / the ticks: Generated/LinkOrder.lean
        if s == ".removeLinkIfAny":
            out.append(".write .dropLink")
        elif s == ".openLinkGroup":
            out.append(".write .newLinkGroup")
        elif s.startswith(".setDotype "):
            out.append(".write (.setTargetType %s)" % ("false" if s.endswith("true") else "true"))
        elif s == ".createTargetLink":
            out += cl
        elif s in (".setCreated", ".setUpdated"):
            out.append(".write .stamp")
        else:
            raise ExtractError("%s: step of linkorder.py not known here: %s" % (where, s))
    return out


def extract(repo):
    cl = _create_link(_method(_parse(repo, "nixio/hdf5/h5group.py"), "H5Group", "create_link", "nixio/hdf5/h5group.py"),
                      "H5Group.create_link")
    trees = {}
    fns = []
    for lname, rel, cls, attr in SETTERS:
        if rel not in trees:
            trees[rel] = _parse(repo, rel)
        fn = _setter(trees[rel], cls, attr, rel)
        arg = fn.args.args[1].arg
        paths = []
        for k in KINDS:
            steps, _ = _walk(fn.body, k, arg, attr, cl, "%s.%s" % (cls, attr), {})
            paths.append((k, steps))
        fns.append((lname, "%s.%s" % (cls, attr), paths))
    dims = _lo._parse(repo, "nixio/dimensions.py")
    dimcls = _lo._cls(dims, "Dimension", "nixio/dimensions.py")
    linkcls = _lo._cls(dims, "DimensionLink", "nixio/dimensions.py")
    lda, _, _, create = _lo._link_data_array(dimcls, linkcls, "Dimension.link_data_array")
    ldf = _lo._link_data_frame(dimcls, create, "Dimension.link_data_frame")

    def lst(xs):
        return "[" + ", ".join(xs) + "]"
    out = ["import NixModel.Pure.RoleWrite",
           "/-! GENERATED by harness/extract/roleorder.py from nixio/multi_tag.py, feature.py, section.py, block.py, data_array.py, "
           "data_frame.py, tag.py, group.py, source.py, hdf5/h5group.py, dimensions.py - do not edit -/",
           "namespace Nix.Generated.RoleOrder", "open Nix.Guarded Nix.RoleWrite", "",
           "/-- `H5Group.create_link(target, name)`: its statements in source order -/",
           "def createLink : List RStep := %s" % lst(cl), ""]
    for lname, pyname, paths in fns:
        out.append("/-- the `%s` setter, `H5Group.create_link` inlined: the statements an object of each class runs through -/" % pyname)
        out.append("def %s : Setter" % lname)
        for k, steps in paths:
            out.append("  | .%s => %s" % (k, lst(steps)))
        out.append("")
    out += ["def all : List (String × Setter) :=",
            "  [" + ", ".join('("%s", %s)' % (py, ln) for ln, py, _ in fns) + "]", "",
            "/-- what `Dimension.link_data_array(data_array, index)` does with the object (callees inlined) -/",
            "def dimensionLinkDataArray : List RStep := %s" % lst(_dimension_link(lda, cl, "Dimension.link_data_array")), "",
            "/-- what `Dimension.link_data_frame(data_frame, index)` does with the object (callees inlined) -/",
            "def dimensionLinkDataFrame : List RStep := %s" % lst(_dimension_link(ldf, cl, "Dimension.link_data_frame")), "",
            "end Nix.Generated.RoleOrder", ""]
    return {TARGET: "\n".join(out)}
