"""Translator: nixio deletion code  ->  NixModel/Generated/DeleteShape.lean      (property C04)

Parses with `ast` (never imports) and renders, in the vocabulary of `NixModel/Store/DelShape.lean`:

  nixio/container.py   `__delitem__` of Container / SectionContainer / SourceContainer / LinkContainer (and, through
                       their single base class, of FeatureContainer (tag.py) and SourceLinkContainer) as `List DStmt`:
                           if not isinstance(item, (A, B)): item = self[item]      -> .resolveUnless [..]
                           if not isinstance(item, self._itemclass): raise TypeError(..)   -> .requireItem
                           v = [s._h5group for s in item.find_sections()]          -> .assign (.subtree "sections")
                           v.append(item._h5group)                                 -> .append .selfObj
                           self._file._h5group.delete_all(v) / ([item._h5group])   -> .fileDeleteAll none / (some .selfObj)
                           self._backend.delete(item.id[, delete_if_empty=b])      -> .backendDelete none / (some b)
  nixio/hdf5/h5group.py  the loop body of `delete_all` (`List ScanStmt`: if child.h5obj in targets / del grp[child.name] /
                       break / continue), around it exactly: `targets` = the HDF5 objects of the handles passed (template),
                       skip non-groups, `for child in grp`, `self._group.visititems`;
                       the default of `delete(…, delete_if_empty=…)` and the bound in `groupdepth > N` (rest of the body
                       compared with a template); `__delitem__`, `__contains__` (templates)
  nixio/util/find.py   `_find_sections` / `_find_sources` statement by statement -> `FindProg` (Store/FindProg.lean):
                           fifo = [] / result = [] / level = N / level += N                -> .initFifo / .initResult / .setLevel N / .incLevel N
                           fifo.append(Cont(with_<sub>, level))                            -> .pushStart
                           fifo += [Cont(e, level) for e in with_<sub>.<attr>]             -> .pushKidsOfStart "<attr>"
                           fifo += [Cont(e, level) for e in child.elem.<attr>]             -> .pushKidsOfChild "<attr>"
                           child = fifo.pop(0) / level = child.level + N                   -> .popFront / .levelFromChild N
                           result.append(child.elem)                                       -> .appendResult
                           if isinstance(with_<sub>, <class>) / level <= limit / filtr(child.elem): … else: …   -> .ite c [..] [..]
                           (nested at most twice), one `while len(fifo) > 0:` loop, `return result`
                       section.py, source.py: the argument defaults of `find_sections` / `find_sources` (templates)
  entity modules       every `Xcontainer("cname", …)` constructor call -> table (owner kind, cname, class, item kind);
                       every `@metadata.deleter`, the `None` branch of `Section.link` / `MultiTag.extents` -> `List RStmt`

Anything else (an extra statement, a fast path, a `break` where none is understood, another receiver) raises ExtractError:
the tie is broken and the check goes looking for a failing input.
"""
import ast
import os

from .leanfmt import ExtractError, lean_bool, lean_str

TARGET = "NixModel/Generated/DeleteShape.lean"

CONT_CLASSES = {"Container": ".container", "FeatureContainer": ".featureContainer",
                "SectionContainer": ".sectionContainer", "SourceContainer": ".sourceContainer",
                "LinkContainer": ".linkContainer", "SourceLinkContainer": ".sourceLinkContainer"}
ITEM_KIND = {"Block": "block", "Section": "section", "Group": "group", "DataArray": "data_array",
             "DataFrame": "data_frame", "Tag": "tag", "MultiTag": "multi_tag", "Source": "source",
             "Property": "property", "Feature": "feature"}
OWNER_KINDS = {"File": ["file"], "Block": ["block"], "Group": ["group"], "DataArray": ["data_array"], "Tag": ["tag"],
               "MultiTag": ["multi_tag"], "BaseTag": ["tag", "multi_tag"], "Section": ["section"],
               "Source": ["source"], "DataFrame": ["data_frame"]}
ENTITY_MODULES = ["file.py", "block.py", "group.py", "data_array.py", "data_frame.py", "tag.py", "multi_tag.py",
                  "section.py", "source.py"]


def _parse(repo, rel):
    path = os.path.join(repo, "nixio", rel)
    try:
        return ast.parse(open(path, encoding="utf-8").read())
    except OSError as e:
        raise ExtractError("cannot read nixio/%s: %s" % (rel, e))


def _classes(tree):
    return {n.name: n for n in tree.body if isinstance(n, ast.ClassDef)}


def _method(cls, name):
    fn = None
    for n in cls.body:
        if isinstance(n, ast.FunctionDef) and n.name == name:
            fn = n
    return fn


def _stmts(fn):
    """body without docstring / string statements"""
    return [s for s in fn.body
            if not (isinstance(s, ast.Expr) and isinstance(s.value, ast.Constant) and isinstance(s.value.value, str))]


def _is_name(n, ident):
    return isinstance(n, ast.Name) and n.id == ident


def _is_attr(n, base, attr):
    """`<base>.<attr>` where base is an identifier"""
    return isinstance(n, ast.Attribute) and n.attr == attr and _is_name(n.value, base)


def _same(a, b):
    return ast.dump(a) == ast.dump(b)


def _tmpl(src):
    return ast.parse(src).body[0]


def _same_body(fn, template_src, what):
    t = _tmpl(template_src)
    a = ast.Module(body=_stmts(fn), type_ignores=[])
    b = ast.Module(body=_stmts(t), type_ignores=[])
    if ast.dump(fn.args) != ast.dump(t.args):
        raise ExtractError("%s: signature changed: %s" % (what, ast.unparse(fn.args)))
    if ast.dump(a) != ast.dump(b):
        raise ExtractError("%s (line %d): body no longer has the shape the model follows" % (what, fn.lineno))


# ---------------------------------------------------------------------------------------------------------
# __delitem__ of the container classes

def _cls_of_isinstance(node, where):
    if _is_name(node, "Entity"):
        return [".entity"]
    if _is_attr(node, "self", "_itemclass"):
        return [".itemclass"]
    if isinstance(node, ast.Tuple):
        out = []
        for e in node.elts:
            out += _cls_of_isinstance(e, where)
        return out
    raise ExtractError("%s: isinstance against %s is not modelled" % (where, ast.unparse(node)))


def _not_isinstance_item(test):
    """`not isinstance(item, X)` -> X"""
    if not (isinstance(test, ast.UnaryOp) and isinstance(test.op, ast.Not) and isinstance(test.operand, ast.Call)):
        return None
    c = test.operand
    if _is_name(c.func, "isinstance") and len(c.args) == 2 and not c.keywords and _is_name(c.args[0], "item"):
        return c.args[1]
    return None


def _item_id(n):
    """`item.id` (the key of an entry of a link list: `self._backend.delete(item.id)`)"""
    return _is_attr(n, "item", "id")


def _item_obj(n):
    """`item._h5group` (the HDF5 object handed to `delete_all`)"""
    return _is_attr(n, "item", "_h5group")


def _delitem(cls, cname):
    fn = _method(cls, "__delitem__")
    where = "%s.__delitem__" % cname
    if fn.decorator_list:
        raise ExtractError("%s is decorated" % where)
    a = fn.args
    if [x.arg for x in a.args] != ["self", "item"] or a.vararg or a.kwarg or a.kwonlyargs or a.defaults:
        raise ExtractError("%s: signature changed" % where)
    out = []
    var = None
    for st in _stmts(fn):
        w = "%s line %d" % (where, st.lineno)
        if isinstance(st, ast.If) and not st.orelse:
            x = _not_isinstance_item(st.test)
            if x is not None and len(st.body) == 1:
                b = st.body[0]
                if (isinstance(b, ast.Assign) and len(b.targets) == 1 and _is_name(b.targets[0], "item")
                        and isinstance(b.value, ast.Subscript) and _is_name(b.value.value, "self")
                        and _is_name(b.value.slice, "item")):
                    out.append(".resolveUnless [%s]" % ", ".join(_cls_of_isinstance(x, w)))
                    continue
                if (isinstance(b, ast.Raise) and isinstance(b.exc, ast.Call) and _is_name(b.exc.func, "TypeError")
                        and b.cause is None and _is_attr(x, "self", "_itemclass")):
                    out.append(".requireItem")
                    continue
            raise ExtractError("%s: this `if` is not modelled: %s" % (w, ast.unparse(st.test)))
        if isinstance(st, ast.Assign) and len(st.targets) == 1 and isinstance(st.targets[0], ast.Name):
            v = st.value
            if (isinstance(v, ast.ListComp) and len(v.generators) == 1 and isinstance(v.elt, ast.Attribute)
                    and v.elt.attr == "_h5group" and isinstance(v.elt.value, ast.Name)):
                gen = v.generators[0]
                it = gen.iter
                if (_is_name(gen.target, v.elt.value.id) and not gen.ifs and not gen.is_async
                        and isinstance(it, ast.Call) and not it.args and not it.keywords
                        and isinstance(it.func, ast.Attribute) and _is_name(it.func.value, "item")
                        and it.func.attr in ("find_sections", "find_sources")):
                    if var is not None and var != st.targets[0].id:
                        raise ExtractError("%s: a second object list" % w)
                    var = st.targets[0].id
                    out.append(".assign (.subtree %s)" % lean_str(it.func.attr[len("find_"):]))
                    continue
            raise ExtractError("%s: assignment is not modelled: %s" % (w, ast.unparse(st)))
        if isinstance(st, ast.Expr) and isinstance(st.value, ast.Call):
            c = st.value
            f = c.func
            if (isinstance(f, ast.Attribute) and f.attr == "append" and var is not None and _is_name(f.value, var)
                    and len(c.args) == 1 and not c.keywords and _item_obj(c.args[0])):
                out.append(".append .selfObj")
                continue
            if (isinstance(f, ast.Attribute) and f.attr == "delete_all" and isinstance(f.value, ast.Attribute)
                    and f.value.attr == "_h5group" and _is_attr(f.value.value, "self", "_file")):
                if len(c.args) != 1 or c.keywords:
                    raise ExtractError("%s: delete_all arguments" % w)
                arg = c.args[0]
                if var is not None and _is_name(arg, var):
                    out.append(".fileDeleteAll none")
                    continue
                if isinstance(arg, ast.List) and len(arg.elts) == 1 and _item_obj(arg.elts[0]):
                    out.append(".fileDeleteAll (some .selfObj)")
                    continue
                raise ExtractError("%s: delete_all(%s) is not modelled" % (w, ast.unparse(arg)))
            if isinstance(f, ast.Attribute) and f.attr == "delete" and _is_attr(f.value, "self", "_backend"):
                if len(c.args) != 1 or not _item_id(c.args[0]):
                    raise ExtractError("%s: delete arguments" % w)
                die = "none"
                for kw in c.keywords:
                    if kw.arg == "delete_if_empty" and isinstance(kw.value, ast.Constant) \
                            and isinstance(kw.value.value, bool):
                        die = "(some %s)" % lean_bool(kw.value.value)
                    else:
                        raise ExtractError("%s: delete keyword %s" % (w, kw.arg))
                out.append(".backendDelete %s" % die)
                continue
        raise ExtractError("%s: statement is not modelled: %s" % (w, ast.unparse(st)[:80]))
    return out


def _resolve_delitem(name, classes, seen=()):
    """the `__delitem__` a class uses (single inheritance inside nixio)"""
    if name in seen or name not in classes:
        raise ExtractError("container class %s: base chain not understood" % name)
    cls = classes[name]
    if _method(cls, "__delitem__") is not None:
        return _delitem(cls, name)
    if len(cls.bases) != 1 or not isinstance(cls.bases[0], ast.Name):
        raise ExtractError("container class %s has no __delitem__ and no single named base" % name)
    return _resolve_delitem(cls.bases[0].id, classes, seen + (name,))


# ---------------------------------------------------------------------------------------------------------
# h5group.py

H5_DELETE = '''
def delete(self, id_or_name, delete_if_empty=True):
    if util.is_uuid(id_or_name):
        name = self.get_by_id_or_name(id_or_name).name
    else:
        name = id_or_name
    try:
        del self.group[name]
    except Exception:
        raise ValueError("Error deleting {} ".format(name))
    groupdepth = len(self.group.name.split("/")) - 1
    if delete_if_empty and not len(self.group) and groupdepth > 1:
        del self.parent.group[self.name]
        self.group = None
'''
DELETE_ALL_TARGETS = '''
targets = []
for obj in objs:
    h5obj = getattr(obj, "group", None)
    if h5obj is None:
        h5obj = getattr(obj, "dataset", None)
    if h5obj is not None:
        targets.append(h5obj)
'''
H5_DELITEM = '''
def __delitem__(self, key):
    del self.group[key]
'''
H5_CONTAINS = '''
def __contains__(self, item):
    if self.group is None:
        return False
    return item in self.group
'''


def _scan(stmts, where):
    out = []
    for st in stmts:
        w = "%s line %d" % (where, st.lineno)
        if isinstance(st, ast.Break):
            out.append(".brk")
        elif isinstance(st, ast.Continue):
            out.append(".cont")
        elif (isinstance(st, ast.Delete) and len(st.targets) == 1 and isinstance(st.targets[0], ast.Subscript)
              and _is_name(st.targets[0].value, "grp") and _is_attr(st.targets[0].slice, "child", "name")):
            out.append(".delChild")
        elif isinstance(st, ast.If) and not st.orelse:
            t = st.test
            if (isinstance(t, ast.Compare) and len(t.ops) == 1 and isinstance(t.ops[0], ast.In)
                    and _is_name(t.comparators[0], "targets") and _is_attr(t.left, "child", "h5obj")):
                out.append("(.ifObjIn [%s])" % ", ".join(_scan(st.body, where)))
            else:
                raise ExtractError("%s: condition is not modelled: %s" % (w, ast.unparse(t)))
        else:
            raise ExtractError("%s: statement is not modelled: %s" % (w, ast.unparse(st)[:80]))
    return out


def _delete_all(cls):
    fn = _method(cls, "delete_all")
    if fn is None:
        raise ExtractError("H5Group has no delete_all")
    where = "H5Group.delete_all"
    if [x.arg for x in fn.args.args] != ["self", "objs"] or fn.args.defaults or fn.decorator_list:
        raise ExtractError("%s: signature changed" % where)
    body = _stmts(fn)
    if len(body) != 4 or not isinstance(body[2], ast.FunctionDef):
        raise ExtractError("%s: expected the target list, a visitor function and one visititems call" % where)
    # `targets`: the HDF5 object (h5py identity) behind every handle passed, group or dataset
    pre = ast.Module(body=body[:2], type_ignores=[])
    if ast.dump(pre) != ast.dump(ast.parse(DELETE_ALL_TARGETS)):
        raise ExtractError("%s: `targets` is no longer the list of the HDF5 objects of the handles passed" % where)
    vis, call = body[2:]
    if [x.arg for x in vis.args.args] != ["_", "obj"] or vis.decorator_list:
        raise ExtractError("%s: visitor signature changed" % where)
    t = _tmpl("self._group.visititems(%s)" % vis.name)
    if not _same(call, t):
        raise ExtractError("%s: traversal is not `self._group.visititems(%s)`" % (where, vis.name))
    vb = _stmts(vis)
    if len(vb) != 3:
        raise ExtractError("%s: visitor body changed" % where)
    if not _same(vb[0], _tmpl("if not isinstance(obj, h5py.Group):\n    return")):
        raise ExtractError("%s: the visitor no longer skips exactly the non-groups" % where)
    if not _same(vb[1], _tmpl("grp = self.create_from_h5obj(obj)")):
        raise ExtractError("%s: `grp` is no longer the visited group" % where)
    loop = vb[2]
    if not (isinstance(loop, ast.For) and _is_name(loop.target, "child") and _is_name(loop.iter, "grp")
            and not loop.orelse):
        raise ExtractError("%s: expected `for child in grp:`" % where)
    return _scan(loop.body, where)


def _h5_delete(cls):
    fn = _method(cls, "delete")
    if fn is None:
        raise ExtractError("H5Group has no delete")
    if len(fn.args.defaults) != 1 or not (isinstance(fn.args.defaults[0], ast.Constant)
                                          and isinstance(fn.args.defaults[0].value, bool)):
        raise ExtractError("H5Group.delete: default of delete_if_empty is not a bool literal")
    default = fn.args.defaults[0].value
    # the bound in `groupdepth > N`
    bound = None
    for n in ast.walk(fn):
        if (isinstance(n, ast.Compare) and _is_name(n.left, "groupdepth") and len(n.ops) == 1
                and isinstance(n.ops[0], ast.Gt) and isinstance(n.comparators[0], ast.Constant)
                and isinstance(n.comparators[0].value, int) and not isinstance(n.comparators[0].value, bool)
                and n.comparators[0].value >= 0):
            bound = n.comparators[0].value
    if bound is None:
        raise ExtractError("H5Group.delete: no `groupdepth > <int>` test")
    src = H5_DELETE.replace("delete_if_empty=True", "delete_if_empty=%s" % default).replace(
        "groupdepth > 1", "groupdepth > %d" % bound)
    _same_body(fn, src, "H5Group.delete")
    return default, bound


# ---------------------------------------------------------------------------------------------------------
# find.py

FIND_METHOD = '''
def find_{sub}(self, filtr=lambda _: True, limit=None):
    if limit is None:
        limit = maxsize
    return finders._find_{sub}(self, filtr, limit)
'''
CONT_INIT = '''
def __init__(self, elem, level):
    self.elem = elem
    self.level = level
'''


def _int_const(n):
    return isinstance(n, ast.Constant) and type(n.value) is int and n.value >= 0


def _find_simple(s, sub, w):
    """one statement of `_find_<sub>` without control flow -> FSimple"""
    if isinstance(s, ast.Assign) and len(s.targets) == 1 and isinstance(s.targets[0], ast.Name):
        tgt, v = s.targets[0].id, s.value
        if tgt == "fifo" and _same(v, _tmpl("[]").value):
            return ".initFifo"
        if tgt == "result" and _same(v, _tmpl("[]").value):
            return ".initResult"
        if tgt == "level" and _int_const(v):
            return ".setLevel %d" % v.value
        if tgt == "level" and isinstance(v, ast.BinOp) and isinstance(v.op, ast.Add) \
                and _is_attr(v.left, "child", "level") and _int_const(v.right):
            return ".levelFromChild %d" % v.right.value
        if tgt == "child" and _same(v, _tmpl("fifo.pop(0)").value):
            return ".popFront"
    if isinstance(s, ast.AugAssign) and isinstance(s.op, ast.Add) and isinstance(s.target, ast.Name):
        if s.target.id == "level" and _int_const(s.value):
            return ".incLevel %d" % s.value.value
        if s.target.id == "fifo" and isinstance(s.value, ast.ListComp) and len(s.value.generators) == 1:
            gen = s.value.generators[0]
            it = gen.iter
            if _same(s.value.elt, _tmpl("Cont(e, level)").value) and _is_name(gen.target, "e") and not gen.ifs \
                    and not gen.is_async and isinstance(it, ast.Attribute):
                if _is_name(it.value, "with_%s" % sub):
                    return ".pushKidsOfStart %s" % lean_str(it.attr)
                if _is_attr(it.value, "child", "elem"):
                    return ".pushKidsOfChild %s" % lean_str(it.attr)
    if isinstance(s, ast.Expr):
        if _same(s.value, _tmpl("fifo.append(Cont(with_%s, level))" % sub).value):
            return ".pushStart"
        if _same(s.value, _tmpl("result.append(child.elem)").value):
            return ".appendResult"
    raise ExtractError("%s line %d: statement is not modelled: %s" % (w, s.lineno, ast.unparse(s).splitlines()[0]))


def _find_cond(t, sub, cls, w):
    if _same(t, _tmpl("isinstance(with_%s, %s)" % (sub, cls)).value):
        return ".startIsEntity"
    if _same(t, _tmpl("level <= limit").value):
        return ".levelLeLimit"
    if _same(t, _tmpl("filtr(child.elem)").value):
        return ".filtrChild"
    raise ExtractError("%s line %d: condition is not modelled: %s" % (w, t.lineno, ast.unparse(t)))


def _find_stmt(s, sub, cls, w, depth):
    """depth 0: FStmt, 1: FInner, 2: FSimple (no further `if`)"""
    if isinstance(s, ast.If):
        if depth >= 2:
            raise ExtractError("%s line %d: `if` nested more than twice" % (w, s.lineno))
        return ".ite %s [%s] [%s]" % (_find_cond(s.test, sub, cls, w),
                                      ", ".join(_find_stmt(x, sub, cls, w, depth + 1) for x in s.body),
                                      ", ".join(_find_stmt(x, sub, cls, w, depth + 1) for x in s.orelse))
    simple = _find_simple(s, sub, w)
    return simple if depth == 2 else ".simple (%s)" % simple if " " in simple else ".simple %s" % simple


def _find_prog(fn, sub, cls):
    """`<prologue>; while len(fifo) > 0: <body>; return result` -> (prologue, body) as lists of FStmt"""
    w = "find._find_%s" % sub
    want = _tmpl("def _find_%s(with_%s, filtr, limit):\n    pass" % (sub, sub))
    if ast.dump(fn.args) != ast.dump(want.args):
        raise ExtractError("%s: signature changed: %s" % (w, ast.unparse(fn.args)))
    body = _stmts(fn)
    loops = [i for i, s in enumerate(body) if isinstance(s, (ast.While, ast.For))]
    if len(body) < 2 or loops != [len(body) - 2] or not isinstance(body[-2], ast.While) \
            or not _same(body[-1], _tmpl("return result")):
        raise ExtractError("%s: not `<statements>; while ...: <body>; return result`" % w)
    loop = body[-2]
    if loop.orelse or not _same(loop.test, _tmpl("len(fifo) > 0").value):
        raise ExtractError("%s line %d: loop is not `while len(fifo) > 0:`" % (w, loop.lineno))
    return ([_find_stmt(s, sub, cls, w, 0) for s in body[:-2]], [_find_stmt(s, sub, cls, w, 0) for s in loop.body])


def _find(repo):
    tree = _parse(repo, os.path.join("util", "find.py"))
    fns = {n.name: n for n in tree.body if isinstance(n, ast.FunctionDef)}
    cl = _classes(tree).get("Cont")
    if cl is None or _method(cl, "__init__") is None:
        raise ExtractError("util/find.py: class Cont changed")
    _same_body(_method(cl, "__init__"), CONT_INIT, "find.Cont.__init__")
    out = {}
    for sub, cls, mod, ent in (("sections", "nixio.Section", "section.py", "Section"),
                               ("sources", "nixio.source.Source", "source.py", "Source")):
        fn = fns.get("_find_%s" % sub)
        if fn is None:
            raise ExtractError("util/find.py has no _find_%s" % sub)
        out[sub] = _find_prog(fn, sub, cls)
        ecls = _classes(_parse(repo, mod)).get(ent)
        m = _method(ecls, "find_%s" % sub) if ecls is not None else None
        if m is None:
            raise ExtractError("%s.find_%s is missing" % (ent, sub))
        _same_body(m, FIND_METHOD.format(sub=sub), "%s.find_%s" % (ent, sub))
    return out


# ---------------------------------------------------------------------------------------------------------
# container table and role deleters

def _walk_classes(tree):
    """(class, function, call) for every call inside a method of a top-level class"""
    for cls in tree.body:
        if isinstance(cls, ast.ClassDef):
            for fn in cls.body:
                if isinstance(fn, ast.FunctionDef):
                    for n in ast.walk(fn):
                        if isinstance(n, ast.Call):
                            yield cls, fn, n


def _container_table(repo):
    # SourceLinkContainer(parent): name and item class from its own __init__
    slc = _classes(_parse(repo, "source_link_container.py")).get("SourceLinkContainer")
    if slc is None or _method(slc, "__init__") is None:
        raise ExtractError("SourceLinkContainer.__init__ is missing")
    sup = [n for n in ast.walk(_method(slc, "__init__")) if isinstance(n, ast.Call) and isinstance(n.func, ast.Attribute)
           and n.func.attr == "__init__"]
    if len(sup) != 1 or len(sup[0].args) != 4 or not isinstance(sup[0].args[0], ast.Constant) \
            or not isinstance(sup[0].args[2], ast.Name):
        raise ExtractError("SourceLinkContainer.__init__: super().__init__ call changed")
    slc_name, slc_item = sup[0].args[0].value, sup[0].args[2].id
    rows = set()
    for mod in ENTITY_MODULES:
        tree = _parse(repo, mod)
        for cls, fn, call in _walk_classes(tree):
            if not (isinstance(call.func, ast.Name) and call.func.id in CONT_CLASSES):
                continue
            w = "%s: %s.%s line %d" % (mod, cls.name, fn.name, call.lineno)
            kind = call.func.id
            if call.keywords:
                raise ExtractError("%s: keyword arguments in a container constructor" % w)
            if kind == "SourceLinkContainer":
                if len(call.args) != 1 or not _is_name(call.args[0], "self"):
                    raise ExtractError("%s: SourceLinkContainer(self) expected" % w)
                cname, item = slc_name, slc_item
            elif kind == "LinkContainer":
                if len(call.args) != 4 or not isinstance(call.args[0], ast.Constant) or not _is_name(call.args[1], "self") \
                        or not isinstance(call.args[2], ast.Name):
                    raise ExtractError("%s: LinkContainer(name, self, cls, store) expected" % w)
                cname, item = call.args[0].value, call.args[2].id
            else:
                if len(call.args) != 4 or not isinstance(call.args[0], ast.Constant) or not _is_name(call.args[2], "self") \
                        or not isinstance(call.args[3], ast.Name):
                    raise ExtractError("%s: %s(name, file, self, cls) expected" % (w, kind))
                cname, item = call.args[0].value, call.args[3].id
            if cls.name not in OWNER_KINDS or item not in ITEM_KIND or not isinstance(cname, str):
                raise ExtractError("%s: owner class %s / item class %s unknown" % (w, cls.name, item))
            for ok in OWNER_KINDS[cls.name]:
                rows.add((ok, cname, CONT_CLASSES[kind], ITEM_KIND[item]))
    keys = [(r[0], r[1]) for r in rows]
    if len(set(keys)) != len(keys):
        raise ExtractError("one owner.container is constructed with two different classes / item classes")
    return sorted(rows)


def _h5group_expr(n):
    return _is_attr(n, "self", "_h5group")


def _role_stmts(stmts, where):
    out = []
    for st in stmts:
        w = "%s line %d" % (where, st.lineno)
        if isinstance(st, ast.Return) and st.value is None:
            continue
        if isinstance(st, ast.If) and not st.orelse:
            t = st.test
            # the timestamp refresh is C19's subject
            if _same(st, _tmpl("if self.file.auto_update_timestamps:\n    self.force_updated_at()")):
                continue
            if (isinstance(t, ast.Compare) and len(t.ops) == 1 and isinstance(t.ops[0], ast.In)
                    and isinstance(t.left, ast.Constant) and isinstance(t.left.value, str)
                    and _h5group_expr(t.comparators[0]) and len(st.body) == 1):
                name = t.left.value
                b = st.body[0]
                if (isinstance(b, ast.Expr) and isinstance(b.value, ast.Call) and isinstance(b.value.func, ast.Attribute)
                        and b.value.func.attr == "delete" and _h5group_expr(b.value.func.value)
                        and len(b.value.args) == 1 and isinstance(b.value.args[0], ast.Constant)
                        and b.value.args[0].value == name):
                    die = "none"
                    for kw in b.value.keywords:
                        if kw.arg == "delete_if_empty" and isinstance(kw.value, ast.Constant) \
                                and isinstance(kw.value.value, bool):
                            die = "(some %s)" % lean_bool(kw.value.value)
                        else:
                            raise ExtractError("%s: delete keyword %s" % (w, kw.arg))
                    out.append(".guardedDelete %s %s" % (lean_str(name), die))
                    continue
                if (isinstance(b, ast.Delete) and len(b.targets) == 1 and isinstance(b.targets[0], ast.Subscript)
                        and _h5group_expr(b.targets[0].value) and isinstance(b.targets[0].slice, ast.Constant)
                        and b.targets[0].slice.value == name):
                    out.append(".guardedDelItem %s" % lean_str(name))
                    continue
        raise ExtractError("%s: statement is not modelled: %s" % (w, ast.unparse(st)[:80]))
    return out


def _decorated(fn, prop, what):
    return any(isinstance(d, ast.Attribute) and d.attr == what and _is_name(d.value, prop) for d in fn.decorator_list)


def _role_table(repo):
    rows = []
    for mod in ENTITY_MODULES:
        tree = _parse(repo, mod)
        for cls in tree.body:
            if not isinstance(cls, ast.ClassDef) or cls.name not in OWNER_KINDS:
                continue
            for fn in cls.body:
                if not isinstance(fn, ast.FunctionDef):
                    continue
                where = "%s: %s.%s" % (mod, cls.name, fn.name)
                if fn.name == "metadata" and _decorated(fn, "metadata", "deleter"):
                    body = _role_stmts(_stmts(fn), where)
                    for k in OWNER_KINDS[cls.name]:
                        rows.append((k, "metadata", body))
                for prop, owner in (("link", "Section"), ("extents", "MultiTag")):
                    if fn.name == prop and cls.name == owner and _decorated(fn, prop, "setter"):
                        st = _stmts(fn)
                        arg = fn.args.args[1].arg if len(fn.args.args) == 2 else None
                        if not st or not isinstance(st[0], ast.If) or arg is None or not _same(
                                st[0].test, _tmpl("%s is None" % arg).value):
                            raise ExtractError("%s: does not start with `if %s is None:`" % (where, arg))
                        body = _role_stmts(st[0].body, where)
                        # what follows the None branch when it does not return: only the timestamp refresh may follow
                        if not (st[0].body and isinstance(st[0].body[-1], ast.Return)):
                            if st[0].orelse:
                                body += _role_stmts(st[1:], where)
                            else:
                                raise ExtractError("%s: the None branch falls through into the linking code" % where)
                        for k in OWNER_KINDS[cls.name]:
                            rows.append((k, prop, body))
    keys = [(r[0], r[1]) for r in rows]
    if len(set(keys)) != len(keys):
        raise ExtractError("two deleters for one (kind, role)")
    return sorted(rows)


# ---------------------------------------------------------------------------------------------------------

def shape(repo):
    ctree = _parse(repo, "container.py")
    classes = dict(_classes(ctree))
    imported_entity = any(isinstance(n, ast.ImportFrom) and n.module == "entity" and n.level == 1
                          and any(a.name == "Entity" and a.asname is None for a in n.names) for n in ctree.body)
    if not imported_entity:
        raise ExtractError("container.py: `Entity` is no longer `from .entity import Entity`")
    for mod, name in (("tag.py", "FeatureContainer"), ("source_link_container.py", "SourceLinkContainer")):
        c = _classes(_parse(repo, mod)).get(name)
        if c is None:
            raise ExtractError("%s: class %s is missing" % (mod, name))
        classes[name] = c
    delitems = {name: _resolve_delitem(name, classes) for name in CONT_CLASSES}
    h5 = _classes(_parse(repo, os.path.join("hdf5", "h5group.py"))).get("H5Group")
    if h5 is None:
        raise ExtractError("hdf5/h5group.py has no class H5Group")
    default, bound = _h5_delete(h5)
    for nm, src in (("__delitem__", H5_DELITEM), ("__contains__", H5_CONTAINS)):
        m = _method(h5, nm)
        if m is None:
            raise ExtractError("H5Group.%s is missing" % nm)
        _same_body(m, src, "H5Group.%s" % nm)
    # `child.h5obj` / the handles' `.group` / `.dataset`: the HDF5 object a handle stands for
    ds = _classes(_parse(repo, os.path.join("hdf5", "h5dataset.py"))).get("H5DataSet")
    if ds is None:
        raise ExtractError("hdf5/h5dataset.py has no class H5DataSet")
    for cls, cname, field in ((h5, "H5Group", "group"), (ds, "H5DataSet", "dataset")):
        assigns = [n for n in ast.walk(cls) if isinstance(n, (ast.Assign, ast.AugAssign, ast.AnnAssign))
                   and any(_is_attr(t, "self", "h5obj") for t in (n.targets if isinstance(n, ast.Assign) else [n.target]))]
        init = _method(cls, "__init__")
        if (init is None or len(assigns) != 1 or not _stmts(init) or _stmts(init)[-1] is not assigns[0]
                or not _same(assigns[0], _tmpl("self.h5obj = self.%s" % field))):
            raise ExtractError("%s: `h5obj` is no longer set once, at the end of __init__, to `self.%s`" % (cname, field))
    return {"delitems": delitems, "scan": _delete_all(h5), "default": default, "bound": bound,
            "find": _find(repo), "table": _container_table(repo), "roles": _role_table(repo)}


def render(sh):
    L = ["import NixModel.Store.DelShape",
         "import NixModel.Store.FindProg",
         "/-! GENERATED by harness/extract/delshape.py from nixio/container.py, nixio/hdf5/h5group.py, nixio/util/find.py",
         "and the entity modules — do not edit. -/",
         "namespace Nix.Store.DelShape.Gen",
         "open Nix.Store.DelShape Nix.Store.FindProg",
         ""]
    L.append("/-- statements of the `__delitem__` each container class uses (own or inherited) -/")
    L.append("def delitemOf : ContClass → List DStmt")
    for name, ctor in CONT_CLASSES.items():
        L.append("  | %s => [%s]" % (ctor, ", ".join(sh["delitems"][name])))
    L.append("")
    L.append("/-- loop body of `H5Group.delete_all` (`for child in grp:` inside the `visititems` visitor) -/")
    L.append("def deleteAllScan : List ScanStmt := [%s]" % ", ".join(sh["scan"]))
    L.append("")
    L.append("/-- `H5Group.delete(id_or_name, delete_if_empty=<default>)`, `groupdepth > <minDepth>` -/")
    L.append("def h5Params : H5DeleteParams := { defaultDeleteIfEmpty := %s, minDepth := %d }"
             % (lean_bool(sh["default"]), sh["bound"]))
    L.append("")
    L.append("/-- the statements of `_find_sections` / `_find_sources` (util/find.py): before the `while len(fifo) > 0:` loop, "
             "and its body -/")
    for sub in ("sections", "sources"):
        pro, body = sh["find"][sub]
        L.append("def find%sProg : FindProg :=" % sub.capitalize())
        L.append("  { prologue := [%s]," % ",\n                ".join(pro))
        L.append("    body := [%s] }" % ",\n            ".join(body))
    L.append("")
    L.append("/-- (owner kind, container name, class, item kind) of every container constructor call -/")
    L.append("def containerTable : List (String × String × ContClass × String) := [")
    L.append(",\n".join("  (%s, %s, %s, %s)" % (lean_str(a), lean_str(b), c, lean_str(d)) for a, b, c, d in sh["table"]))
    L.append("]")
    L.append("")
    L.append("/-- (kind, role, statements) of `del x.metadata`, `section.link = None`, `multi_tag.extents = None` -/")
    L.append("def roleClear : List (String × String × List RStmt) := [")
    L.append(",\n".join("  (%s, %s, [%s])" % (lean_str(k), lean_str(r), ", ".join(b)) for k, r, b in sh["roles"]))
    L.append("]")
    L.append("")
    L.append("end Nix.Store.DelShape.Gen")
    return "\n".join(L) + "\n"


def extract(repo):
    return {TARGET: render(shape(repo))}
