"""Translator: nixio/hdf5/h5group.py, tag.py, data_array.py, property.py  ->  NixModel/Generated/WriteOrder.lean   (C12)

Renders the *order of conversion, resize and write* of the functions through which vector-valued attributes reach
the file, as step lists over the vocabulary of `NixModel/Pure/VecWrite.lean`:

    H5Group.write_data                       -> writeDataSteps   : List Step
    Tag.position / Tag.extent setters        -> tagPosition / tagExtent            : Setter
    DataArray.polynom_coefficients setter    -> polynomCoefficients                : Setter
    Property.values setter                   -> propertyValues                     : Setter
    RangeDimension.ticks setter              -> rangeTicks                         : List Step
          ticks = np.asarray(ticks, dtype=DataType.Double) -> .convertIf []     if np.any(np.diff(ticks) < 0): raise -> .checkOrder
          if self.has_link: self.remove_link() -> .removeLink

Statements are rendered in source order, one step each:

    if <guards>: data = np.ascontiguousarray(data, dtype=dtype)      -> .convertIf [<guard>, ...]
          guards:  dtype is not None -> .dtypeGiven        np.dtype(dtype).kind == "f" -> .dtypeFloat
                   not isinstance(data, np.ndarray) -> .notNdarray     isinstance(data, (list, tuple)) -> .isListOrTuple
    elif dtype is not None and np.dtype(dtype).kind in "OUS": for val in ..: if isinstance(val, str): util.check_text_storable(val)
                                                                     -> .checkText   (only reached when the guards fail)
    data = np.array(vals, dtype=vtype)                               -> .convertIf []
    shape = np.shape(data)                                           -> .takeShape
    if self.has_data(name): dset = self.get_dataset(name); dset.shape = shape
    else: [if dtype is None: dtype = DataType.get_dtype(data[0])]; dset = self.create_dataset(name, shape, dtype, ..)
                                                                     -> .resizeOrCreate
    self._h5dataset.shape = np.shape(data)                           -> .takeShape, .resizeOrCreate
    dset.write_data(data) / self._h5dataset.write_data(data)         -> .write
    if x is not None and not hasattr(x, "__getitem__"): x = [x]      -> .wrapScalar
    if not isinstance(x, (Sequence, Iterable)) or isinstance(x, str): x = [x]   -> .wrapScalar
    vtype = self._check_new_value_types(vals)                        -> .checkTypes
    if np.ndim(x) != 1: raise ...                                    -> .checkFlat
    if x is not None and len(x) != 0 and np.ndim(x) != 1: raise ...  -> .checkFlatNonEmpty
    if vtype == DataType.String: vals = [ensure_text(v) for v in vals]; _check_xxx(vals)
                                                                     -> .checkTypes per `_check_xxx(vals)` call
    dtype = DataType.Double                                          -> (recorded as the dtype of the next write_data)
    self._h5group.write_data(name, x, dtype)                         -> .callWriteData <dtype>
    if self._h5group.has_data(name): del self._h5group[name]         -> .deleteIfPresent
    self.delete_values()                                             -> .deleteValues
    if self.file.auto_update_timestamps: self.force_updated_at()     -> .touch

and the setter's `if x is None or len(x) == 0: <A> else: <B>` (or `if <empty>: <A>; return` followed by <B>) as the
record {pre, whenEmpty := A, otherwise := B, post}.  Anything else raises ExtractError: the tie is broken.
"""
import ast
import os

from .leanfmt import ExtractError, lean_str

TARGET = "NixModel/Generated/WriteOrder.lean"


def _parse(repo, rel):
    path = os.path.join(repo, rel)
    with open(path, encoding="utf-8") as fh:
        return ast.parse(fh.read(), filename=path)


def _cls(tree, name, where):
    for n in tree.body:
        if isinstance(n, ast.ClassDef) and n.name == name:
            return n
    raise ExtractError("%s: class %s not found" % (where, name))


def _method(cls, name, setter=False):
    found = None
    for n in cls.body:
        if isinstance(n, ast.FunctionDef) and n.name == name:
            decs = [ast.unparse(d) for d in n.decorator_list]
            is_setter = ("%s.setter" % name) in decs
            if setter == is_setter:
                found = n
    if found is None:
        raise ExtractError("%s.%s%s not found" % (cls.name, name, " setter" if setter else ""))
    return found


def _strip_doc(body):
    body = list(body)
    while body and isinstance(body[0], ast.Expr) and isinstance(body[0].value, ast.Constant) \
            and isinstance(body[0].value.value, str):
        body = body[1:]
    return body


def _u(node):
    return ast.unparse(node).replace(" ", "")


def _E(src):
    """normal form of an expected expression / statement given as source text"""
    return _u(ast.parse(src).body[0])


def _is_touch(st):
    return (isinstance(st, ast.If) and not st.orelse and _u(st.test) in ("self.file.auto_update_timestamps",)
            and len(st.body) == 1 and _u(st.body[0]) == "self.force_updated_at()")


def _guards(test, var, where):
    conj = test.values if isinstance(test, ast.BoolOp) and isinstance(test.op, ast.And) else [test]
    out = []
    for c in conj:
        s = _u(c)
        if s == _E("dtype is not None"):
            out.append(".dtypeGiven")
        elif s == _E('np.dtype(dtype).kind == "f"'):
            out.append(".dtypeFloat")
        elif s in (_E("not isinstance(%s, np.ndarray)" % var), _E("not isinstance(%s, numpy.ndarray)" % var)):
            out.append(".notNdarray")
        elif s in (_E("isinstance(%s, (list, tuple))" % var), _E("isinstance(%s, (tuple, list))" % var)):
            out.append(".isListOrTuple")
        else:
            raise ExtractError("%s: condition of the conversion not understood: %s" % (where, ast.unparse(c)))
    return out


def _is_convert(st, var):
    """`<var> = np.ascontiguousarray(<var>, dtype=dtype)` / np.asarray / np.array"""
    if not (isinstance(st, ast.Assign) and len(st.targets) == 1 and isinstance(st.value, ast.Call)):
        return False
    f = _u(st.value.func)
    if f not in ("np.ascontiguousarray", "np.asarray", "np.array"):
        return False
    kws = {k.arg for k in st.value.keywords}
    return (len(st.value.args) >= 1 and _u(st.value.args[0]) == var and ("dtype" in kws or len(st.value.args) >= 2))


def _is_text_check(stmts):
    """`for val in np.ravel(np.asarray(data, dtype=object)): if isinstance(val, str): util.check_text_storable(val)`"""
    if len(stmts) != 1 or not isinstance(stmts[0], ast.For):
        return False
    loop = stmts[0]
    if _u(loop.iter) != _E("np.ravel(np.asarray(data, dtype=object))") or loop.orelse or len(loop.body) != 1:
        return False
    t = loop.body[0]
    v = _u(loop.target)
    return (isinstance(t, ast.If) and not t.orelse and len(t.body) == 1 and _u(t.test) == _E("isinstance(%s, str)" % v)
            and _u(t.body[0]) == _E("util.check_text_storable(%s)" % v))


def _is_convert_or_textcheck(st):
    """`if <float guards>: data = np.ascontiguousarray(..)  elif dtype is not None and np.dtype(dtype).kind in "OUS":
    <text check>`"""
    return (isinstance(st, ast.If) and len(st.body) == 1 and _is_convert(st.body[0], "data")
            and _u(st.body[0].targets[0]) == "data" and len(st.orelse) == 1 and isinstance(st.orelse[0], ast.If)
            and not st.orelse[0].orelse
            and _u(st.orelse[0].test) == _E('dtype is not None and np.dtype(dtype).kind in "OUS"')
            and _is_text_check(st.orelse[0].body))


def _write_data_steps(fn):
    where = "H5Group.write_data"
    args = [a.arg for a in fn.args.args]
    if args[:4] != ["self", "name", "data", "dtype"]:
        raise ExtractError("%s: parameters %s" % (where, args))
    steps = []
    for st in _strip_doc(fn.body):
        s = _u(st)
        if isinstance(st, ast.If) and not st.orelse and len(st.body) == 1 and _is_convert(st.body[0], "data") \
                and _u(st.body[0].targets[0]) == "data":
            steps.append(".convertIf [%s]" % ", ".join(_guards(st.test, "data", where)))
        elif _is_convert(st, "data") and _u(st.targets[0]) == "data":
            steps.append(".convertIf []")
        elif _is_convert_or_textcheck(st):
            steps.append(".convertIf [%s]" % ", ".join(_guards(st.test, "data", where)))
            steps.append(".checkText")
        elif s == "shape=np.shape(data)":
            steps.append(".takeShape")
        elif isinstance(st, ast.If) and _u(st.test) == "self.has_data(name)":
            body = [_u(x) for x in st.body]
            if body != ["dset=self.get_dataset(name)", "dset.shape=shape"]:
                raise ExtractError("%s: the branch for an existing dataset is %s" % (where, body))
            orelse = list(st.orelse)
            if orelse and isinstance(orelse[0], ast.If) and _u(orelse[0].test) == "dtypeisNone":
                if [_u(x) for x in orelse[0].body] != ["dtype=DataType.get_dtype(data[0])"] or orelse[0].orelse:
                    raise ExtractError("%s: dtype inference is %s" % (where, ast.unparse(orelse[0])))
                orelse = orelse[1:]
            if [_u(x) for x in orelse] != ["dset=self.create_dataset(name,shape,dtype,compression)"]:
                raise ExtractError("%s: the branch for a new dataset is %s" % (where, [_u(x) for x in orelse]))
            steps.append(".resizeOrCreate")
        elif s == "dset.write_data(data)":
            steps.append(".write")
        else:
            raise ExtractError("%s line %d: statement not modelled: %s" % (where, st.lineno, ast.unparse(st)[:80]))
    return steps


def _EMPTY_TESTS(v):
    return (_E("%s is None or len(%s) == 0" % (v, v)),
            _E("%s is None or (isinstance(%s, (Sequence, Iterable)) and not len(%s))" % (v, v, v)))


def _WRAP_TESTS(v):
    return (_E('%s is not None and not hasattr(%s, "__getitem__")' % (v, v)),
            _E("not isinstance(%s, (Sequence, Iterable)) or isinstance(%s, str)" % (v, v)))


def _is_pure_check(st, var):
    """`_check_<something>(<var>)`: a module-level validation function called for its exception only"""
    return (isinstance(st, ast.Expr) and isinstance(st.value, ast.Call) and isinstance(st.value.func, ast.Name)
            and st.value.func.id.startswith("_check_") and [_u(a) for a in st.value.args] == [var]
            and not st.value.keywords)


def _flat_steps(stmts, var, dsname, where):
    """statements of a setter outside the empty-test"""
    steps = []
    dtype = None
    for st in stmts:
        s = _u(st)
        if _is_touch(st):
            steps.append(".touch")
        elif isinstance(st, ast.If) and not st.orelse and _u(st.test) in _WRAP_TESTS(var) \
                and [_u(x) for x in st.body] == ["%s=[%s]" % (var, var)]:
            steps.append(".wrapScalar")
        elif isinstance(st, ast.If) and not st.orelse and dsname and \
                _u(st.test) == _E('self._h5group.has_data("%s")' % dsname) and \
                [_u(x) for x in st.body] == [_E('del self._h5group["%s"]' % dsname)]:
            steps.append(".deleteIfPresent")
        elif isinstance(st, ast.If) and not st.orelse and _u(st.test) == _E("np.ndim(%s) != 1" % var) and \
                len(st.body) == 1 and isinstance(st.body[0], ast.Raise):
            steps.append(".checkFlat")
        elif isinstance(st, ast.If) and not st.orelse and \
                _u(st.test) == _E("%s is not None and len(%s) != 0 and np.ndim(%s) != 1" % (var, var, var)) and \
                len(st.body) == 1 and isinstance(st.body[0], ast.Raise):
            steps.append(".checkFlatNonEmpty")
        elif s == "self.delete_values()":
            steps.append(".deleteValues")
        elif s == "dtype=DataType.Double":
            dtype = "(some .double)"
        elif s == "dtype=DataType.String":
            dtype = "(some .string)"
        elif dsname and s == _E('self._h5group.write_data("%s", %s, dtype)' % (dsname, var)):
            if dtype is None:
                raise ExtractError("%s: write_data with a dtype the translator has not seen assigned" % where)
            steps.append(".callWriteData %s" % dtype)
        elif dsname and s == _E('self._h5group.write_data("%s", %s)' % (dsname, var)):
            steps.append(".callWriteData none")
        elif s == "vtype=self._check_new_value_types(%s)" % var:
            steps.append(".checkTypes")
        elif isinstance(st, ast.If) and not st.orelse and _u(st.test) == _E("vtype == DataType.String") and \
                st.body and _u(st.body[0]) == _E("%s = [ensure_text(v) for v in %s]" % (var, var)) and \
                all(_is_pure_check(x, var) for x in st.body[1:]):
            # text normalisation of the value (no effect on the file), then validations of the text
            steps += [".checkTypes"] * len(st.body[1:])
        elif _is_convert(st, var) and _u(st.targets[0]) in ("data", var):
            steps.append(".convertIf []")
        elif s == "self._h5dataset.shape=np.shape(data)":
            steps += [".takeShape", ".resizeOrCreate"]
        elif s == "self._h5dataset.write_data(data)":
            steps.append(".write")
        else:
            raise ExtractError("%s line %d: statement not modelled: %s" % (where, st.lineno, ast.unparse(st)[:80]))
    return steps


def _setter(fn, dsname, where):
    args = [a.arg for a in fn.args.args]
    if len(args) != 2 or args[0] != "self":
        raise ExtractError("%s: parameters %s" % (where, args))
    var = args[1]
    body = _strip_doc(fn.body)
    idx = None
    for i, st in enumerate(body):
        if isinstance(st, ast.If) and _u(st.test) in _EMPTY_TESTS(var):
            idx = i
            kind = (".lenZero", ".iterableAndNotLen")[_EMPTY_TESTS(var).index(_u(st.test))]
            break
    if idx is None:
        raise ExtractError("%s: no test for an empty / None value" % where)
    st = body[idx]
    pre = _flat_steps(body[:idx], var, dsname, where)
    if st.orelse:
        when_empty = _flat_steps(st.body, var, dsname, where)
        otherwise = _flat_steps(st.orelse, var, dsname, where)
        post = _flat_steps(body[idx + 1:], var, dsname, where)
    else:
        # `if <empty>: ...; return` followed by the non-empty case
        if not (st.body and isinstance(st.body[-1], ast.Return) and st.body[-1].value is None):
            raise ExtractError("%s: the empty case neither has an else branch nor returns" % where)
        when_empty = _flat_steps(st.body[:-1], var, dsname, where)
        otherwise = _flat_steps(body[idx + 1:], var, dsname, where)
        post = []
    return kind, pre, when_empty, otherwise, post


def _ticks_steps(fn):
    """RangeDimension.ticks setter: a flat statement list (no empty test)"""
    where = "RangeDimension.ticks"
    args = [a.arg for a in fn.args.args]
    if args != ["self", "ticks"]:
        raise ExtractError("%s: parameters %s" % (where, args))
    steps = []
    for st in _strip_doc(fn.body):
        s = _u(st)
        if _is_convert(st, "ticks") and _u(st.targets[0]) == "ticks" and _u(st.value.func) in ("np.asarray", "np.array"):
            steps.append(".convertIf []")
        elif isinstance(st, ast.If) and not st.orelse and _u(st.test) == _E("np.any(np.diff(ticks) < 0)") and \
                len(st.body) == 1 and isinstance(st.body[0], ast.Raise):
            steps.append(".checkOrder")
        elif isinstance(st, ast.If) and not st.orelse and _u(st.test) == _E("self.has_link") and \
                [_u(x) for x in st.body] == [_E("self.remove_link()")]:
            steps.append(".removeLink")
        elif s == _E('self._h5group.write_data("ticks", ticks, dtype=DataType.Double)'):
            steps.append(".callWriteData (some .double)")
        elif s == _E('self._h5group.write_data("ticks", ticks)'):
            steps.append(".callWriteData none")
        else:
            raise ExtractError("%s line %d: statement not modelled: %s" % (where, st.lineno, ast.unparse(st)[:80]))
    return steps


def _render_setter(lname, pyname, parts):
    kind, pre, we, ot, post = parts
    lst = lambda xs: "[" + ", ".join(xs) + "]"      # noqa
    return ("/-- `%s` -/\ndef %s : Setter :=\n  { emptyTest := %s,\n    pre := %s,\n    whenEmpty := %s,\n    otherwise := %s,\n"
            "    post := %s }\n" % (pyname, lname, kind, lst(pre), lst(we), lst(ot), lst(post)))


def extract(repo):
    h5g = _cls(_parse(repo, "nixio/hdf5/h5group.py"), "H5Group", "nixio/hdf5/h5group.py")
    wd = _write_data_steps(_method(h5g, "write_data"))
    tag = _cls(_parse(repo, "nixio/tag.py"), "Tag", "nixio/tag.py")
    da = _cls(_parse(repo, "nixio/data_array.py"), "DataArray", "nixio/data_array.py")
    prop = _cls(_parse(repo, "nixio/property.py"), "Property", "nixio/property.py")
    setters = [
        ("tagPosition", "Tag.position = pos", _setter(_method(tag, "position", True), "position", "Tag.position")),
        ("tagExtent", "Tag.extent = ext", _setter(_method(tag, "extent", True), "extent", "Tag.extent")),
        ("polynomCoefficients", "DataArray.polynom_coefficients = coeff",
         _setter(_method(da, "polynom_coefficients", True), "polynom_coefficients", "DataArray.polynom_coefficients")),
        ("propertyValues", "Property.values = vals", _setter(_method(prop, "values", True), None, "Property.values")),
    ]
    # Property.delete_values: `self._h5dataset.shape = (0,)` then the time stamp
    dv = [_u(x) for x in _strip_doc(_method(prop, "delete_values").body)[:1]]
    if dv != ["self._h5dataset.shape=(0,)"] or not _is_touch(_strip_doc(_method(prop, "delete_values").body)[-1]) \
            or len(_strip_doc(_method(prop, "delete_values").body)) != 2:
        raise ExtractError("Property.delete_values is no longer `shape = (0,)` followed by the time stamp")
    out = ["import NixModel.Pure.VecWrite",
           "/-! GENERATED by harness/extract/writeorder.py from nixio/hdf5/h5group.py, tag.py, data_array.py, "
           "property.py - do not edit -/",
           "namespace Nix.Generated.WriteOrder", "open Nix.VecWrite", "",
           "/-- `H5Group.write_data(name, data, dtype)`: its statements in source order -/",
           "def writeDataSteps : List Step := [%s]" % ", ".join(wd), ""]
    for lname, pyname, parts in setters:
        out.append(_render_setter(lname, pyname, parts))
    dims = _cls(_parse(repo, "nixio/dimensions.py"), "RangeDimension", "nixio/dimensions.py")
    out.append("/-- `RangeDimension.ticks = ticks`: its statements in source order -/\ndef rangeTicks : List Step := [%s]\n"
               % ", ".join(_ticks_steps(_method(dims, "ticks", True))))
    out.append("def floatSetters : List (String × Setter) :=\n  [(%s, tagPosition), (%s, tagExtent), (%s, polynomCoefficients)]"
               % (lean_str("Tag.position"), lean_str("Tag.extent"), lean_str("DataArray.polynom_coefficients")))
    out += ["", "end Nix.Generated.WriteOrder", ""]
    return {TARGET: "\n".join(out)}
