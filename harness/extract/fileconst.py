"""Translator: nixio/file.py  ->  NixModel/Generated/FormatConst.lean
            nixio/hdf5/*.py ->  NixModel/Generated/H5Handlers.lean (the `except` clauses that never raise)

Parses the Python source with `ast` (never imports it) and renders
 * FILE_FORMAT, HDF_FF_VERSION (a triple of ints), the three FileMode letters,
 * map_file_mode as the ordered (mode letter, HDF5 access flag) chain,
 * the comparison in can_write, the length test and the boolean condition of can_read (as a Lean
   expression over the three library and the three file version components),
 * the mode dispatch of File._check_header (which gate function runs for which mode letter),
   the format test, and the id threshold tuple with its comparison operator,
 * File._create_header: which `_set_<x>` run in which order, what each writes, whether it keeps an existing value,
 * the shape of File.__init__: the default of `mode` (also of File.open, and that open hands it on), the guards in
   front of the open (condition over mode / os.path.exists / isfile / getsize == 0, whether the mode is validated
   first, the exception), the create-or-open condition, the letter the create branch rebinds `mode` to, that the
   create branch calls h5f.create and the open branch h5f.open with flags=map_file_mode(mode) outside any `try`,
   and the ordered tail (_check_header, mode, data / metadata groups, created_at / updated_at).
Anything it does not recognise raises ExtractError (a broken tie, handled by the check).
"""
import ast
import os

from .leanfmt import ExtractError, lean_chars, lean_int, lean_list, lean_str

ACC = {"ACC_RDONLY": ".rdonly", "ACC_RDWR": ".rdwr", "ACC_TRUNC": ".trunc"}
CMP = {ast.Eq: ".eq", ast.NotEq: ".ne", ast.Lt: ".lt", ast.LtE: ".le", ast.Gt: ".gt", ast.GtE: ".ge"}
FLIP = {".eq": ".eq", ".ne": ".ne", ".lt": ".gt", ".le": ".ge", ".gt": ".lt", ".ge": ".le"}
LEANOP = {ast.Eq: "=", ast.NotEq: "≠", ast.Lt: "<", ast.LtE: "≤", ast.Gt: ">", ast.GtE: "≥"}
MODE_DEF = {"ReadOnly": "modeReadOnly", "ReadWrite": "modeReadWrite", "Overwrite": "modeOverwrite"}


def _func(body, name, where="file.py"):
    for n in body:
        if isinstance(n, ast.FunctionDef) and n.name == name:
            return n
    raise ExtractError("function %s not found in %s" % (name, where))


def _class(body, name):
    for n in body:
        if isinstance(n, ast.ClassDef) and n.name == name:
            return n
    raise ExtractError("class %s not found in file.py" % name)


def _strip_doc(body):
    if body and isinstance(body[0], ast.Expr) and isinstance(body[0].value, ast.Constant) \
            and isinstance(body[0].value.value, str):
        return body[1:]
    return body


def _int_tuple(node, what):
    if not isinstance(node, ast.Tuple):
        raise ExtractError("%s is not a tuple literal" % what)
    out = []
    for e in node.elts:
        if isinstance(e, ast.UnaryOp) and isinstance(e.op, ast.USub) and isinstance(e.operand, ast.Constant) \
                and type(e.operand.value) is int:
            out.append(-e.operand.value)
        elif isinstance(e, ast.Constant) and type(e.value) is int:
            out.append(e.value)
        else:
            raise ExtractError("%s has a non-integer component" % what)
    return out


def _is_name(n, name):
    return isinstance(n, ast.Name) and n.id == name


def _filemode_attr(n):
    """FileMode.X -> 'X'"""
    if isinstance(n, ast.Attribute) and _is_name(n.value, "FileMode") and n.attr in MODE_DEF:
        return n.attr
    return None


def _raises(stmts, excname):
    """the statement list is exactly `raise <excname>[(...)]`"""
    if len(stmts) != 1 or not isinstance(stmts[0], ast.Raise) or stmts[0].exc is None:
        return False
    e = stmts[0].exc
    if isinstance(e, ast.Call):
        e = e.func
    return _is_name(e, excname)


def _returns_bool(stmts):
    if len(stmts) == 1 and isinstance(stmts[0], ast.Return) and isinstance(stmts[0].value, ast.Constant) \
            and isinstance(stmts[0].value.value, bool):
        return stmts[0].value.value
    return None


def _cond_of_bool_function(stmts, fname):
    """`if C: return True else: return False` | `if C: return True; return False` | `return C`  ->  C"""
    if len(stmts) == 1 and isinstance(stmts[0], ast.Return) and stmts[0].value is not None:
        return stmts[0].value
    if stmts and isinstance(stmts[0], ast.If):
        i = stmts[0]
        t = _returns_bool(i.body)
        rest = i.orelse if i.orelse else stmts[1:]
        if i.orelse and len(stmts) != 1:
            raise ExtractError("%s: statements after the final if/else" % fname)
        e = _returns_bool(rest)
        if t is True and e is False:
            return i.test
        if t is False and e is True:
            return ast.UnaryOp(op=ast.Not(), operand=i.test)
    raise ExtractError("%s: the decision is not of the form `if C: return True else: return False`" % fname)


def _len_check(st, var, fname):
    """`if len(var) != N: raise RuntimeError(...)` -> N"""
    if not (isinstance(st, ast.If) and not st.orelse and _raises(st.body, "RuntimeError")):
        raise ExtractError("%s: length test raising RuntimeError not found" % fname)
    t = st.test
    if not (isinstance(t, ast.Compare) and len(t.ops) == 1 and isinstance(t.ops[0], ast.NotEq)
            and isinstance(t.left, ast.Call) and _is_name(t.left.func, "len") and len(t.left.args) == 1
            and _is_name(t.left.args[0], var) and isinstance(t.comparators[0], ast.Constant)
            and type(t.comparators[0].value) is int):
        raise ExtractError("%s: length test is not `len(%s) != <int>`" % (fname, var))
    return t.comparators[0].value


def _version_var(st, fname):
    """`filever = nixfile.version` -> 'filever'"""
    if not (isinstance(st, ast.Assign) and len(st.targets) == 1 and isinstance(st.targets[0], ast.Name)
            and isinstance(st.value, ast.Attribute) and st.value.attr == "version"
            and isinstance(st.value.value, ast.Name)):
        raise ExtractError("%s: expected `<var> = <file>.version` first" % fname)
    return st.targets[0].id


def _bool_expr(n, env, fname):
    """boolean expression over version components -> Lean Bool term"""
    if isinstance(n, ast.BoolOp):
        op = " && " if isinstance(n.op, ast.And) else " || "
        return "(" + op.join(_bool_expr(v, env, fname) for v in n.values) + ")"
    if isinstance(n, ast.UnaryOp) and isinstance(n.op, ast.Not):
        return "(!" + _bool_expr(n.operand, env, fname) + ")"
    if isinstance(n, ast.Compare):
        parts = []
        left = n.left
        for op, right in zip(n.ops, n.comparators):
            if type(op) not in LEANOP:
                raise ExtractError("%s: unsupported comparison operator" % fname)
            parts.append("decide (%s %s %s)" % (_int_expr(left, env, fname), LEANOP[type(op)],
                                                 _int_expr(right, env, fname)))
            left = right
        return parts[0] if len(parts) == 1 else "(" + " && ".join(parts) + ")"
    if isinstance(n, ast.Constant) and isinstance(n.value, bool):
        return "true" if n.value else "false"
    raise ExtractError("%s: unsupported boolean expression %s" % (fname, ast.dump(n)[:60]))


def _int_expr(n, env, fname):
    if isinstance(n, ast.Name) and n.id in env:
        return env[n.id]
    if isinstance(n, ast.Constant) and type(n.value) is int:
        return "(%d : Int)" % n.value
    if isinstance(n, ast.Subscript) and isinstance(n.value, ast.Name) and isinstance(n.slice, ast.Constant) \
            and type(n.slice.value) is int and 0 <= n.slice.value <= 2:
        base = env.get("@" + n.value.id)
        if base:
            return "%s%d" % (base, n.slice.value)
    raise ExtractError("%s: unsupported operand %s" % (fname, ast.dump(n)[:60]))


# ---- File.__init__ -----------------------------------------------------------------------

EXC = {"RuntimeError": ".runtimeError", "InvalidFile": ".invalidFile", "ValueError": ".valueError",
       "TypeError": ".typeError", "KeyError": ".keyError"}


def _is_call_path(n, dotted, argname):
    """`os.path.exists(path)` and friends"""
    if not (isinstance(n, ast.Call) and len(n.args) == 1 and not n.keywords and _is_name(n.args[0], argname)):
        return False
    parts = []
    f = n.func
    while isinstance(f, ast.Attribute):
        parts.append(f.attr)
        f = f.value
    if not isinstance(f, ast.Name):
        return False
    parts.append(f.id)
    return ".".join(reversed(parts)) == dotted


def _init_cond(n, mpar, ppar):
    """condition of File.__init__ over mode and the path's state -> Lean Bool term over mode ex isf emp"""
    if isinstance(n, ast.BoolOp):
        op = " && " if isinstance(n.op, ast.And) else " || "
        return "(" + op.join(_init_cond(v, mpar, ppar) for v in n.values) + ")"
    if isinstance(n, ast.UnaryOp) and isinstance(n.op, ast.Not):
        return "(!" + _init_cond(n.operand, mpar, ppar) + ")"
    if _is_call_path(n, "os.path.exists", ppar):
        return "ex"
    if _is_call_path(n, "os.path.isfile", ppar):
        return "isf"
    if isinstance(n, ast.Compare) and len(n.ops) == 1 and type(n.ops[0]) in (ast.Eq, ast.NotEq):
        l, r = n.left, n.comparators[0]
        neg = isinstance(n.ops[0], ast.NotEq)
        for a, b in ((l, r), (r, l)):
            if _is_name(a, mpar) and _filemode_attr(b):
                return "decide (mode %s %s)" % ("≠" if neg else "=", MODE_DEF[_filemode_attr(b)])
            if _is_call_path(a, "os.path.getsize", ppar) and isinstance(b, ast.Constant) and b.value == 0 \
                    and type(b.value) is int:
                return "(!emp)" if neg else "emp"
    raise ExtractError("File.__init__: unsupported condition %s" % ast.dump(n)[:80])


def _has_node(stmts, kinds):
    for st in stmts:
        for sub in ast.walk(st):
            if isinstance(sub, kinds):
                return True
    return False


def _self_call(st, slf, name):
    """`self.<name>(...)` as an expression statement -> the Call node"""
    if isinstance(st, ast.Expr) and isinstance(st.value, ast.Call) and isinstance(st.value.func, ast.Attribute) \
            and st.value.func.attr == name and _is_name(st.value.func.value, slf):
        return st.value
    return None


def _map_mode_assign(st, mpar):
    """`<v> = map_file_mode(mode)` -> v"""
    if isinstance(st, ast.Assign) and len(st.targets) == 1 and isinstance(st.targets[0], ast.Name) \
            and isinstance(st.value, ast.Call) and _is_name(st.value.func, "map_file_mode") \
            and len(st.value.args) == 1 and _is_name(st.value.args[0], mpar) and not st.value.keywords:
        return st.targets[0].id
    return None


def _h5f_call(st, which, ppar, flagvar):
    """`<v> = h5py.h5f.<which>(path, flags=<flagvar>, ...)` -> v"""
    if not (isinstance(st, ast.Assign) and len(st.targets) == 1 and isinstance(st.targets[0], ast.Name)
            and isinstance(st.value, ast.Call)):
        return None
    c = st.value
    f = c.func
    if not (isinstance(f, ast.Attribute) and f.attr == which and isinstance(f.value, ast.Attribute)
            and f.value.attr == "h5f" and _is_name(f.value.value, "h5py")):
        return None
    if not (len(c.args) >= 1 and _is_name(c.args[0], ppar)):
        return None
    flags = [k.value for k in c.keywords if k.arg == "flags"] + list(c.args[1:2])
    if len(flags) != 1 or not _is_name(flags[0], flagvar):
        return None
    return st.targets[0].id


def _default_mode(fn, where):
    args = fn.args.args
    names = [a.arg for a in args]
    if "mode" not in names:
        raise ExtractError("%s has no parameter `mode`" % where)
    i = names.index("mode")
    k = i - (len(args) - len(fn.args.defaults))
    if k < 0:
        raise ExtractError("%s: `mode` has no default" % where)
    d = _filemode_attr(fn.args.defaults[k])
    if d is None:
        raise ExtractError("%s: the default of `mode` is not a FileMode member" % where)
    return i, MODE_DEF[d]


def _extract_init(cls):
    fn = _func(cls.body, "__init__", "class File")
    slf = fn.args.args[0].arg
    ipos, default_init = _default_mode(fn, "File.__init__")
    if ipos != 2 or fn.args.args[1].arg != "path":
        raise ExtractError("File.__init__: expected (self, path, mode, ...)")
    mpar, ppar = "mode", "path"
    body = _strip_doc(fn.body)
    # the path encoding try
    k = 0
    if body and isinstance(body[0], ast.Try):
        t = body[0]
        ok = (len(t.body) == 1 and isinstance(t.body[0], ast.Assign) and _is_name(t.body[0].targets[0], ppar)
              and not _has_node(t.body + t.handlers + t.orelse + t.finalbody, (ast.Raise,))
              and all(len(h.body) == 1 and isinstance(h.body[0], ast.Pass) for h in t.handlers)
              and not t.orelse and not t.finalbody)
        call = t.body[0].value if ok else None
        ok = ok and isinstance(call, ast.Call) and isinstance(call.func, ast.Attribute) and call.func.attr == "encode" \
            and _is_name(call.func.value, ppar)
        if not ok:
            raise ExtractError("File.__init__: the leading try is not the path encoding")
        k = 1
    # guards: `if C: [map_file_mode(mode)]; raise E`
    guards = []
    while k < len(body) and isinstance(body[k], ast.If) and not body[k].orelse \
            and isinstance(body[k].body[-1], ast.Raise):
        g = body[k]
        pre = g.body[:-1]
        validates = False
        if pre:
            if not (len(pre) == 1 and isinstance(pre[0], ast.Expr) and isinstance(pre[0].value, ast.Call)
                    and _is_name(pre[0].value.func, "map_file_mode") and len(pre[0].value.args) == 1
                    and _is_name(pre[0].value.args[0], mpar)):
                raise ExtractError("File.__init__: a guard does more than validate the mode and raise")
            validates = True
        e = g.body[-1].exc
        if isinstance(e, ast.Call):
            e = e.func
        if not (isinstance(e, ast.Name) and e.id in EXC):
            raise ExtractError("File.__init__: a guard raises an exception class that is not modelled")
        guards.append((_init_cond(g.test, mpar, ppar), validates, EXC[e.id]))
        k += 1
    # create or open
    if not (k < len(body) and isinstance(body[k], ast.If) and body[k].orelse):
        raise ExtractError("File.__init__: the create-or-open `if ... else` does not follow the guards")
    co = body[k]
    if _has_node([co], (ast.Try, ast.While, ast.For, ast.With)):
        raise ExtractError("File.__init__: try / loop / with inside the create-or-open statement")
    create_cond = _init_cond(co.test, mpar, ppar)
    cb = co.body
    if not (len(cb) >= 3 and isinstance(cb[0], ast.Assign) and len(cb[0].targets) == 1 and _is_name(cb[0].targets[0], mpar)
            and _filemode_attr(cb[0].value)):
        raise ExtractError("File.__init__: the create branch does not start with `mode = FileMode.<X>`")
    create_mode = MODE_DEF[_filemode_attr(cb[0].value)]
    fv = _map_mode_assign(cb[1], mpar)
    if fv is None or _h5f_call(cb[2], "create", ppar, fv) is None:
        raise ExtractError("File.__init__: the create branch is not `h5mode = map_file_mode(mode); "
                           "fid = h5py.h5f.create(path, flags=h5mode, ...)`")
    if not any(_self_call(st, slf, "_create_header") is not None for st in cb[3:]):
        raise ExtractError("File.__init__: the create branch does not call self._create_header()")
    for st in cb[3:]:
        if _self_call(st, slf, "_create_header") is None and not isinstance(st, ast.Assign):
            raise ExtractError("File.__init__: unexpected statement in the create branch")
    ob = co.orelse
    fv = _map_mode_assign(ob[0], mpar) if ob else None
    if fv is None or len(ob) < 2 or _h5f_call(ob[1], "open", ppar, fv) is None:
        raise ExtractError("File.__init__: the open branch is not `h5mode = map_file_mode(mode); "
                           "fid = h5py.h5f.open(path, flags=h5mode, ...)`")
    for st in ob[2:]:
        if not isinstance(st, ast.Assign) or _has_node([st], (ast.Name,)) and any(
                isinstance(x, ast.Name) and x.id == mpar for x in ast.walk(st)):
            raise ExtractError("File.__init__: unexpected statement in the open branch")
    # tail
    tail = []
    for st in body[k + 1:]:
        if _self_call(st, slf, "_check_header") is not None:
            c = _self_call(st, slf, "_check_header")
            if not (len(c.args) == 1 and _is_name(c.args[0], mpar)):
                raise ExtractError("File.__init__: _check_header is not called with the mode")
            tail.append(".checkHeader")
            continue
        if isinstance(st, ast.Assign) and len(st.targets) == 1 and isinstance(st.targets[0], ast.Attribute) \
                and _is_name(st.targets[0].value, slf):
            tgt = st.targets[0].attr
            v = st.value
            if tgt == "mode":
                if not _is_name(v, mpar):
                    raise ExtractError("File.__init__: self.mode is not assigned the mode")
                tail.append(".setMode")
                continue
            if isinstance(v, ast.Call) and isinstance(v.func, ast.Attribute) and v.func.attr == "open_group":
                nm = v.args[0].value if (v.args and isinstance(v.args[0], ast.Constant)) else None
                cr = [kw for kw in v.keywords if kw.arg == "create" and isinstance(kw.value, ast.Constant)
                      and kw.value.value is True]
                if nm not in ("data", "metadata") or not cr:
                    raise ExtractError("File.__init__: open_group call is not (\"data\"|\"metadata\", create=True)")
                tail.append(".ensureData" if nm == "data" else ".ensureMeta")
                continue
            if not _has_node([v], (ast.Call,)):
                continue
            raise ExtractError("File.__init__: unexpected call in the tail: %s" % ast.dump(v)[:80])
        if isinstance(st, ast.If) and not st.orelse and len(st.body) == 1:
            t = st.test
            if isinstance(t, ast.Compare) and len(t.ops) == 1 and isinstance(t.ops[0], ast.NotIn) \
                    and isinstance(t.left, ast.Constant) and t.left.value in ("created_at", "updated_at"):
                want = "force_" + t.left.value
                c = _self_call(st.body[0], slf, want)
                if c is None or c.args or c.keywords:
                    raise ExtractError("File.__init__: `if \"%s\" not in ...` does not call self.%s()" % (t.left.value, want))
                tail.append(".ensureCreated" if t.left.value == "created_at" else ".ensureUpdated")
                continue
            if not _has_node(st.body, (ast.Call, ast.Raise)) and not _has_node([t], (ast.Call,)):
                continue
        raise ExtractError("File.__init__: unexpected statement in the tail (line %d)" % st.lineno)
    if _has_node(body[k + 1:], (ast.Try,)):
        raise ExtractError("File.__init__: try in the tail")
    # File.open
    op = _func(cls.body, "open", "class File")
    opos, default_open = _default_mode(op, "File.open")
    ret = [st for st in op.body if isinstance(st, ast.Return)]
    ok = len(ret) == 1 and isinstance(ret[0].value, ast.Call) and _is_name(ret[0].value.func, op.args.args[0].arg)
    if ok:
        c = ret[0].value
        passed = (len(c.args) >= 2 and _is_name(c.args[0], "path") and _is_name(c.args[1], "mode")) or \
            any(kw.arg == "mode" and _is_name(kw.value, "mode") for kw in c.keywords)
        ok = passed and not any(isinstance(x, (ast.Assign, ast.AugAssign)) and any(
            _is_name(t, "mode") for t in getattr(x, "targets", [getattr(x, "target", None)])) for x in ast.walk(op))
    if not ok:
        raise ExtractError("File.open does not hand its `mode` on to File.__init__ unchanged")
    return {"default_init": default_init, "default_open": default_open, "guards": guards,
            "create_cond": create_cond, "create_mode": create_mode, "tail": tail}


# ---- File._create_header ---------------------------------------------------------------------

HEADER_ATTR = {"format": ".format", "version": ".version", "id": ".id"}


def _mentions(node, pred):
    return any(pred(x) for x in ast.walk(node))


def _extract_create_header(cls):
    """`_create_header` = a sequence of `self._set_<x>()`; each `_set_<x>` = optional `if self._root.get_attr(<a>):
    return`, then `self._root.set_attr(<a>, <value>)` with the value built from FILE_FORMAT / HDF_FF_VERSION /
    util.create_id() -> [(attribute, keeps an existing value)] in call order"""
    fn = _func(cls.body, "_create_header", "class File")
    slf = fn.args.args[0].arg
    steps = []
    for st in _strip_doc(fn.body):
        if not (isinstance(st, ast.Expr) and isinstance(st.value, ast.Call) and isinstance(st.value.func, ast.Attribute)
                and _is_name(st.value.func.value, slf) and not st.value.args and not st.value.keywords):
            raise ExtractError("_create_header: a statement is not `self._set_<x>()`")
        sub = _func(cls.body, st.value.func.attr, "class File")
        sslf = sub.args.args[0].arg
        body = _strip_doc(sub.body)
        keep_attr = None
        k = 0

        def root_call(n, meth):
            return (isinstance(n, ast.Call) and isinstance(n.func, ast.Attribute) and n.func.attr == meth
                    and isinstance(n.func.value, ast.Attribute) and n.func.value.attr == "_root"
                    and _is_name(n.func.value.value, sslf) and n.args and isinstance(n.args[0], ast.Constant))
        if body and isinstance(body[0], ast.If):
            g = body[0]
            if not (root_call(g.test, "get_attr") and not g.orelse and len(g.body) == 1
                    and isinstance(g.body[0], ast.Return) and g.body[0].value is None):
                raise ExtractError("%s: the leading if is not `if self._root.get_attr(<a>): return`" % sub.name)
            keep_attr = g.test.args[0].value
            k = 1
        local = {}
        sets = []
        for st2 in body[k:]:
            if isinstance(st2, ast.Assign) and len(st2.targets) == 1 and isinstance(st2.targets[0], ast.Name):
                local[st2.targets[0].id] = st2.value
                continue
            if isinstance(st2, ast.Expr) and root_call(st2.value, "set_attr") and len(st2.value.args) == 2:
                sets.append(st2.value)
                continue
            raise ExtractError("%s: unexpected statement" % sub.name)
        if len(sets) != 1:
            raise ExtractError("%s: expected exactly one self._root.set_attr(...)" % sub.name)
        attr = sets[0].args[0].value
        val = sets[0].args[1]
        if isinstance(val, ast.Name) and val.id in local:
            val = local[val.id]
        if attr not in HEADER_ATTR or (keep_attr is not None and keep_attr != attr):
            raise ExtractError("%s: sets / tests an attribute that is not format, version or id" % sub.name)
        want = {"format": lambda x: _is_name(x, "FILE_FORMAT"), "version": lambda x: _is_name(x, "HDF_FF_VERSION"),
                "id": lambda x: isinstance(x, ast.Attribute) and x.attr == "create_id"}[attr]
        if not _mentions(val, want):
            raise ExtractError("%s: the value written to %r is not built from the expected constant" % (sub.name, attr))
        if _mentions(val, lambda x: isinstance(x, ast.BinOp) or isinstance(x, ast.Subscript)):
            raise ExtractError("%s: the value written to %r is computed, not the constant itself" % (sub.name, attr))
        steps.append((HEADER_ATTR[attr], keep_attr is not None))
    return steps


# ---- exception handlers of the layer that talks to libhdf5 --------------------------------------

WRITE_METHODS = {"create_group", "create_dataset", "require_group", "require_dataset", "resize", "move", "copy",
                 "create", "modify", "__setitem__", "__delitem__", "set_attr", "write_data", "write", "delete",
                 "delete_all", "create_link", "pop", "clear", "update", "set_by_pos", "open_group", "open_data_set",
                 "create_data_set"}


def _try_writes(body):
    """does a statement list (of a `try`) write to the file: del x[...], x[...] = v, or a call of a writing method"""
    for st in body:
        for n in ast.walk(st):
            if isinstance(n, ast.Delete) and any(isinstance(t, (ast.Subscript, ast.Attribute)) for t in n.targets):
                return True
            if isinstance(n, (ast.Assign, ast.AugAssign)):
                tg = n.targets if isinstance(n, ast.Assign) else [n.target]
                if any(isinstance(t, ast.Subscript) for t in tg):
                    return True
            if isinstance(n, ast.Call) and isinstance(n.func, ast.Attribute) and n.func.attr in WRITE_METHODS:
                return True
    return False


def _extract_handlers(repo):
    """every `except` clause in nixio/hdf5/*.py whose body never raises: (module, function, classes caught, does the
    guarded block write to the file)"""
    out = []
    d = os.path.join(repo, "nixio", "hdf5")
    if not os.path.isdir(d):
        raise ExtractError("nixio/hdf5 not found")
    for fname in sorted(os.listdir(d)):
        if not fname.endswith(".py"):
            continue
        tree = ast.parse(open(os.path.join(d, fname), encoding="utf-8").read())
        for fn in ast.walk(tree):
            if not isinstance(fn, (ast.FunctionDef, ast.AsyncFunctionDef)):
                continue
            for t in ast.walk(fn):
                if not isinstance(t, ast.Try):
                    continue
                for h in t.handlers:
                    if any(isinstance(x, ast.Raise) for st in h.body for x in ast.walk(st)):
                        continue
                    typ = ast.unparse(h.type) if h.type is not None else "<bare>"
                    out.append(("hdf5/" + fname, fn.name, typ, _try_writes(t.body)))
    return sorted(set(out))


def extract(repo):
    path = os.path.join(repo, "nixio", "file.py")
    src = open(path, encoding="utf-8").read()
    tree = ast.parse(src)

    # ---- module constants --------------------------------------------------------------
    file_format = None
    lib = None
    for n in tree.body:
        if isinstance(n, ast.Assign) and len(n.targets) == 1 and isinstance(n.targets[0], ast.Name):
            nm = n.targets[0].id
            if nm == "FILE_FORMAT":
                if not (isinstance(n.value, ast.Constant) and isinstance(n.value.value, str)):
                    raise ExtractError("FILE_FORMAT is not a string literal")
                file_format = n.value.value
            elif nm == "HDF_FF_VERSION":
                lib = _int_tuple(n.value, "HDF_FF_VERSION")
    if file_format is None:
        raise ExtractError("FILE_FORMAT not found")
    if lib is None:
        raise ExtractError("HDF_FF_VERSION not found")
    if len(lib) != 3:
        raise ExtractError("HDF_FF_VERSION is not a triple")

    # ---- FileMode ----------------------------------------------------------------------
    letters = {}
    for st in _class(tree.body, "FileMode").body:
        if isinstance(st, ast.Assign) and len(st.targets) == 1 and isinstance(st.targets[0], ast.Name):
            if not (isinstance(st.value, ast.Constant) and isinstance(st.value.value, str)):
                raise ExtractError("FileMode.%s is not a string literal" % st.targets[0].id)
            letters[st.targets[0].id] = st.value.value
    if set(letters) != set(MODE_DEF):
        raise ExtractError("FileMode members are %s, expected ReadOnly/ReadWrite/Overwrite" % sorted(letters))

    # ---- map_file_mode -----------------------------------------------------------------
    fn = _func(tree.body, "map_file_mode")
    if len(fn.args.args) != 1:
        raise ExtractError("map_file_mode: expected one parameter")
    par = fn.args.args[0].arg
    body = _strip_doc(fn.body)
    chain = []
    if len(body) != 1 or not isinstance(body[0], ast.If):
        raise ExtractError("map_file_mode: expected a single if/elif chain")
    cur = body[0]
    while True:
        t = cur.test
        if not (isinstance(t, ast.Compare) and len(t.ops) == 1 and isinstance(t.ops[0], ast.Eq)
                and _is_name(t.left, par) and _filemode_attr(t.comparators[0])):
            raise ExtractError("map_file_mode: test is not `%s == FileMode.<X>`" % par)
        if not (len(cur.body) == 1 and isinstance(cur.body[0], ast.Return)
                and isinstance(cur.body[0].value, ast.Attribute) and cur.body[0].value.attr in ACC):
            raise ExtractError("map_file_mode: branch does not return an h5py.h5f.ACC_* flag that is modelled")
        chain.append((_filemode_attr(t.comparators[0]), ACC[cur.body[0].value.attr]))
        if len(cur.orelse) == 1 and isinstance(cur.orelse[0], ast.If):
            cur = cur.orelse[0]
            continue
        if not _raises(cur.orelse, "ValueError"):
            raise ExtractError("map_file_mode: final else does not raise ValueError")
        break

    # ---- can_write ---------------------------------------------------------------------
    fn = _func(tree.body, "can_write")
    body = _strip_doc(fn.body)
    if len(body) < 3:
        raise ExtractError("can_write: unexpected shape")
    var = _version_var(body[0], "can_write")
    wlen = _len_check(body[1], var, "can_write")
    cond = _cond_of_bool_function(body[2:], "can_write")
    if not (isinstance(cond, ast.Compare) and len(cond.ops) == 1 and type(cond.ops[0]) in (ast.Eq, ast.NotEq)):
        raise ExtractError("can_write: the decision is not an (in)equality of the two version tuples")
    l, r = cond.left, cond.comparators[0]
    if not ((_is_name(l, "HDF_FF_VERSION") and _is_name(r, var)) or (_is_name(r, "HDF_FF_VERSION") and _is_name(l, var))):
        raise ExtractError("can_write: the decision does not compare HDF_FF_VERSION with the file version")
    can_write_cmp = CMP[type(cond.ops[0])]

    # ---- can_read ----------------------------------------------------------------------
    fn = _func(tree.body, "can_read")
    body = _strip_doc(fn.body)
    if len(body) < 3:
        raise ExtractError("can_read: unexpected shape")
    var = _version_var(body[0], "can_read")
    rlen = _len_check(body[1], var, "can_read")
    env = {"@HDF_FF_VERSION": "lib", "@" + var: "file"}
    k = 2
    while k < len(body) and isinstance(body[k], ast.Assign):
        st = body[k]
        if not (len(st.targets) == 1 and isinstance(st.targets[0], ast.Tuple) and len(st.targets[0].elts) == 3
                and isinstance(st.value, ast.Name) and st.value.id in ("HDF_FF_VERSION", var)):
            raise ExtractError("can_read: expected `a, b, c = HDF_FF_VERSION | %s`" % var)
        base = "lib" if st.value.id == "HDF_FF_VERSION" else "file"
        for i, e in enumerate(st.targets[0].elts):
            if not isinstance(e, ast.Name):
                raise ExtractError("can_read: unpack target is not a name")
            if e.id != "_":
                env[e.id] = "%s%d" % (base, i)
        k += 1
    cond = _cond_of_bool_function(body[k:], "can_read")
    can_read_cond = _bool_expr(cond, env, "can_read")
    if rlen != 3 or wlen != 3:
        raise ExtractError("can_read/can_write: the required version length is not 3")

    # ---- File._check_header ------------------------------------------------------------
    cls = _class(tree.body, "File")
    fn = _func(cls.body, "_check_header", "class File")
    if len(fn.args.args) != 2:
        raise ExtractError("_check_header: expected (self, mode)")
    slf, mpar = fn.args.args[0].arg, fn.args.args[1].arg
    body = _strip_doc(fn.body)
    if len(body) != 3 or not all(isinstance(b, ast.If) for b in body):
        raise ExtractError("_check_header: expected three if statements (format, mode gate, id)")
    f0 = body[0]
    t = f0.test
    if not (isinstance(t, ast.Compare) and len(t.ops) == 1 and isinstance(t.ops[0], ast.NotEq)
            and isinstance(t.left, ast.Attribute) and t.left.attr == "format" and _is_name(t.left.value, slf)
            and _is_name(t.comparators[0], "FILE_FORMAT") and not f0.orelse and _raises(f0.body, "InvalidFile")):
        raise ExtractError("_check_header: format test is not `if self.format != FILE_FORMAT: raise InvalidFile`")
    gates = []
    cur = body[1]
    while True:
        t = cur.test
        if not (isinstance(t, ast.Compare) and len(t.ops) == 1 and isinstance(t.ops[0], ast.Eq)
                and _is_name(t.left, mpar) and _filemode_attr(t.comparators[0])):
            raise ExtractError("_check_header: mode gate test is not `mode == FileMode.<X>`")
        inner = cur.body
        if not (len(inner) == 1 and isinstance(inner[0], ast.If) and not inner[0].orelse
                and _raises(inner[0].body, "RuntimeError")):
            raise ExtractError("_check_header: mode gate body is not `if not can_x(self): raise RuntimeError`")
        it = inner[0].test
        if not (isinstance(it, ast.UnaryOp) and isinstance(it.op, ast.Not) and isinstance(it.operand, ast.Call)
                and isinstance(it.operand.func, ast.Name) and it.operand.func.id in ("can_write", "can_read")
                and len(it.operand.args) == 1 and _is_name(it.operand.args[0], slf)):
            raise ExtractError("_check_header: mode gate does not call can_write(self)/can_read(self)")
        gates.append((_filemode_attr(t.comparators[0]),
                      ".canWrite" if it.operand.func.id == "can_write" else ".canRead"))
        if len(cur.orelse) == 1 and isinstance(cur.orelse[0], ast.If):
            cur = cur.orelse[0]
            continue
        if cur.orelse:
            raise ExtractError("_check_header: unexpected else branch in the mode gate")
        break
    f2 = body[2]
    t = f2.test
    if not (isinstance(t, ast.Compare) and len(t.ops) == 1 and type(t.ops[0]) in CMP and not f2.orelse):
        raise ExtractError("_check_header: id threshold test has an unexpected shape")

    def is_ver(n):
        return isinstance(n, ast.Attribute) and n.attr == "version" and _is_name(n.value, slf)
    if is_ver(t.left) and isinstance(t.comparators[0], ast.Tuple):
        thr = _int_tuple(t.comparators[0], "id threshold")
        thr_cmp = CMP[type(t.ops[0])]
    elif is_ver(t.comparators[0]) and isinstance(t.left, ast.Tuple):
        thr = _int_tuple(t.left, "id threshold")
        thr_cmp = FLIP[CMP[type(t.ops[0])]]
    else:
        raise ExtractError("_check_header: id threshold test is not `self.version <op> (a, b, c)`")
    inner = f2.body
    ok = (len(inner) == 1 and isinstance(inner[0], ast.If) and not inner[0].orelse
          and _raises(inner[0].body, "RuntimeError"))
    if ok:
        it = inner[0].test
        ok = (isinstance(it, ast.UnaryOp) and isinstance(it.op, ast.Not) and isinstance(it.operand, ast.Call)
              and isinstance(it.operand.func, ast.Attribute) and it.operand.func.attr == "is_uuid"
              and len(it.operand.args) == 1 and isinstance(it.operand.args[0], ast.Attribute)
              and it.operand.args[0].attr == "id" and _is_name(it.operand.args[0].value, slf))
    if not ok:
        raise ExtractError("_check_header: id test is not `if not util.is_uuid(self.id): raise RuntimeError`")

    init = _extract_init(cls)
    header_steps = _extract_create_header(cls)

    # ---- render ------------------------------------------------------------------------
    L = []
    L.append("/- GENERATED by harness/extract/fileconst.py from nixio/file.py — do not edit. -/")
    L.append("import NixModel.Basic")
    L.append("set_option linter.unusedVariables false")
    L.append("namespace Nix.Gen.Format")
    L.append("")
    L.append("/-- HDF5 file access flags used by `map_file_mode` -/")
    L.append("inductive Acc where | rdonly | rdwr | trunc")
    L.append("  deriving DecidableEq, Repr")
    L.append("/-- which version gate `_check_header` runs for a mode -/")
    L.append("inductive Gate where | canWrite | canRead")
    L.append("  deriving DecidableEq, Repr")
    L.append("inductive Cmp where | eq | ne | lt | le | gt | ge")
    L.append("  deriving DecidableEq, Repr")
    L.append("")
    L.append("def fileFormat : List Char := " + lean_chars(file_format))
    L.append("def libX : Int := " + lean_int(lib[0]))
    L.append("def libY : Int := " + lean_int(lib[1]))
    L.append("def libZ : Int := " + lean_int(lib[2]))
    L.append("/-- `HDF_FF_VERSION` -/")
    L.append("def libVersion : List Int := [libX, libY, libZ]")
    for k in ("ReadOnly", "ReadWrite", "Overwrite"):
        L.append("def %s : List Char := %s" % (MODE_DEF[k], lean_chars(letters[k])))
    L.append("/-- `map_file_mode`: the if/elif chain in source order; no entry ⇒ ValueError -/")
    L.append("def modeTable : List (List Char × Acc) := " +
             lean_list("(%s, %s)" % (MODE_DEF[m], a) for m, a in chain))
    L.append("/-- `len(filever) != 3` in can_write / can_read -/")
    L.append("def versionLen : Nat := 3")
    L.append("/-- can_write: `HDF_FF_VERSION <cmp> filever` -/")
    L.append("def canWriteCmp : Cmp := " + can_write_cmp)
    L.append("/-- can_read: the decision over the components of HDF_FF_VERSION (lib*) and the file version (file*) -/")
    L.append("def canReadCond (lib0 lib1 lib2 file0 file1 file2 : Int) : Bool := " + can_read_cond)
    L.append("/-- `_check_header`: mode gate, if/elif chain in source order -/")
    L.append("def gateTable : List (List Char × Gate) := " +
             lean_list("(%s, %s)" % (MODE_DEF[m], g) for m, g in gates))
    L.append("/-- `_check_header`: `self.version <cmp> idThreshold` ⇒ the file id must be a UUID -/")
    L.append("def idThreshold : List Int := " + lean_list(lean_int(i) for i in thr))
    L.append("def idThresholdCmp : Cmp := " + thr_cmp)
    L.append("")
    L.append("/-! ### the shape of `File.__init__` / `File.open` -/")
    L.append("/-- default of the parameter `mode` -/")
    L.append("def defaultModeInit : List Char := " + init["default_init"])
    L.append("def defaultModeOpen : List Char := " + init["default_open"])
    L.append("/-- the guards in front of the open, in source order: condition over the mode and the state of the path")
    L.append("(`os.path.exists`, `os.path.isfile`, `os.path.getsize == 0`), whether `map_file_mode(mode)` is evaluated")
    L.append("before the raise, the exception class -/")
    L.append("def initGuards : List ((List Char → Bool → Bool → Bool → Bool) × Bool × Nix.Err) := " + lean_list(
        "(fun mode ex isf emp => %s, %s, %s)" % (c, "true" if v else "false", e) for c, v, e in init["guards"]))
    L.append("/-- the condition of the create-or-open statement: true ⇒ `h5f.create`, false ⇒ `h5f.open`, both with")
    L.append("`flags=map_file_mode(mode)` and outside any `try` -/")
    L.append("def initCreateCond (mode : List Char) (ex isf emp : Bool) : Bool := " + init["create_cond"])
    L.append("/-- the create branch rebinds `mode` to this letter first -/")
    L.append("def initCreateMode : List Char := " + init["create_mode"])
    L.append("/-- what follows the create-or-open statement, in source order -/")
    L.append("inductive InitStep where | checkHeader | setMode | ensureData | ensureMeta | ensureCreated | ensureUpdated")
    L.append("  deriving DecidableEq, Repr")
    L.append("def initTail : List InitStep := " + lean_list(init["tail"]))
    L.append("/-- `_create_header`: the `_set_<x>` calls in source order: the attribute written (format ← FILE_FORMAT,")
    L.append("version ← HDF_FF_VERSION, id ← util.create_id()) and whether an existing value is kept -/")
    L.append("inductive HeaderAttr where | format | version | id")
    L.append("  deriving DecidableEq, Repr")
    L.append("def createHeaderSteps : List (HeaderAttr × Bool) := " + lean_list(
        "(%s, %s)" % (a, "true" if k else "false") for a, k in header_steps))
    L.append("")
    L.append("end Nix.Gen.Format")
    L.append("")
    H = ["/- GENERATED by harness/extract/fileconst.py from nixio/hdf5/*.py — do not edit. -/",
         "namespace Nix.Gen.H5Handlers", "",
         "/-- every `except` clause of the layer that talks to libhdf5 (nixio/hdf5/*.py) whose body never raises:",
         "(module, function, exception classes caught, does the guarded block write to the file: `del x[…]`,",
         "`x[…] = v`, or a call of a creating / writing / deleting method) -/",
         "def swallowing : List (String × String × String × Bool) := " + lean_list(
             "(%s, %s, %s, %s)" % (lean_str(m), lean_str(f), lean_str(t), "true" if w else "false")
             for m, f, t, w in _extract_handlers(repo)),
         "", "end Nix.Gen.H5Handlers", ""]
    return {"NixModel/Generated/FormatConst.lean": "\n".join(L),
            "NixModel/Generated/H5Handlers.lean": "\n".join(H)}
