"""Translator: Section.create_property (values given) + Property.create_new  ->  NixModel/Generated/PropCreateOrder.lean   (C12)

Rendered as a function with one protected section (`Fn` of NixModel/Pure/Guarded.lean) over the vocabulary of
NixModel/Pure/PropCreate.lean: `pre` = everything up to and including `Property.create_new` (inlined), `body` = the
assignment of the values inside `try`, `handler` = the writes of the `except` clause, `post` = what follows.
The block that types the values (from `if isinstance(vals, type)` to `shape = (len(vals),)`) must not contain a
write or a call of a mutator: it is one guard.  Unknown statement = ExtractError (broken tie).  `ast`, never imported.
"""
import ast
import os

from .leanfmt import ExtractError

TARGET = "NixModel/Generated/PropCreateOrder.lean"
WRITE_NAMES = {"set_attr", "write_data", "create_link", "delete", "delete_all", "create_dataset", "open_group", "copy",
               "create_property", "create_section", "create_new", "extend_values", "delete_values", "force_updated_at",
               "force_created_at", "write_direct", "resize"}


def _u(n):
    return ast.unparse(n)


def _E(src):
    return ast.unparse(ast.parse(src).body[0])


def _method(repo, rel, cls, name):
    with open(os.path.join(repo, rel), encoding="utf-8") as fh:
        tree = ast.parse(fh.read())
    for c in tree.body:
        if isinstance(c, ast.ClassDef) and c.name == cls:
            for f in c.body:
                if isinstance(f, ast.FunctionDef) and f.name == name and not any(
                        _u(d).endswith(".setter") for d in f.decorator_list):
                    return f
    raise ExtractError("%s: %s.%s not found" % (rel, cls, name))


def _body(stmts):
    return [st for st in stmts if not (isinstance(st, ast.Expr) and isinstance(st.value, ast.Constant))]


def _pure(st):
    """no write, no mutator call, no assignment to an attribute / subscript of a nix or h5 object"""
    for n in ast.walk(st):
        if isinstance(n, ast.Call):
            f = n.func
            nm = f.attr if isinstance(f, ast.Attribute) else (f.id if isinstance(f, ast.Name) else "")
            if nm in WRITE_NAMES:
                return False
        if isinstance(n, (ast.Assign, ast.AugAssign)):
            for t in (n.targets if isinstance(n, ast.Assign) else [n.target]):
                if isinstance(t, (ast.Attribute, ast.Subscript)):
                    return False
        if isinstance(n, ast.Delete):
            return False
    return True


def _fail(where, st):
    raise ExtractError("%s line %d: statement not modelled: %s" % (where, st.lineno, _u(st)[:100]))


def _create_new(fn):
    where = "Property.create_new"
    steps = []
    for st in _body(fn.body):
        s = _u(st)
        if s in (_E("if shape is None or shape[0] == 0:\n    shape = (8,)"), _E("if not util.is_uuid(oid):\n    oid = util.create_id()"),
                 _E("newentity = cls(nixfile, nixparent, h5dataset)"), _E("return newentity")):
            continue
        if s == _E("util.check_entity_name(name)"):
            steps.append(".guard .nameValid")
        elif s == _E("dtype = cls._make_h5_dtype(dtype)"):
            steps.append(".guard .dtypeOk")
        elif s == _E("h5dataset = h5parent.create_dataset(name, shape=shape, dtype=dtype)"):
            steps.append(".write .createDataset")
        elif s == _E("h5dataset.set_attr('name', name)"):
            steps.append(".write .setName")
        elif s == _E("h5dataset.set_attr('entity_id', str(oid))"):
            steps.append(".write .setId")
        elif s == _E("newentity.force_created_at()"):
            steps.append(".write .stampCreated")
        elif s == _E("newentity.force_updated_at()"):
            steps.append(".write .stampUpdated")
        else:
            _fail(where, st)
    return steps


def extract(repo):
    where = "Section.create_property"
    fn = _method(repo, "nixio/section.py", "Section", "create_property")
    create = _create_new(_method(repo, "nixio/property.py", "Property", "create_new"))
    body = _body(fn.body)
    if not (isinstance(body[0], ast.If) and _u(body[0].test) == _E("copy_from is not None") and
            isinstance(body[0].body[-1], ast.Return)):
        raise ExtractError("%s: the copy branch is no longer first / no longer returns" % where)
    pre, tbody, handler, post = [], [], [], []
    i, rest = 0, body[1:]
    seen_create = False
    typing_block = False
    while i < len(rest):
        st = rest[i]
        s = _u(st)
        if s == _E("vals = values_or_dtype"):
            pass
        elif s == _E("properties = self._h5group.open_group('properties', True)"):
            pre.append(".write .openContainer")
        elif s == _E("if name in properties:\n    raise exceptions.DuplicateName('create_property')"):
            pre.append(".guard .nameFree")
        elif isinstance(st, ast.If) and _u(st.test) == _E("isinstance(vals, type)") and not seen_create:
            if not _pure(st):
                raise ExtractError("%s line %d: the block that types the values writes or calls a mutator" % (where, st.lineno))
            pre.append(".guard .valuesChecked")
            typing_block = True
        elif s == _E("shape = (len(vals),)"):
            pass
        elif s == _E("prop = Property.create_new(self.file, self, properties, name, dtype, shape, oid)"):
            if not typing_block:
                raise ExtractError("%s: the property is created before the values have been typed" % where)
            pre += create
            seen_create = True
        elif isinstance(st, ast.Try) and seen_create:
            if [_u(x) for x in st.body] != [_E("prop.values = vals")] or st.orelse or st.finalbody or len(st.handlers) != 1:
                _fail(where, st)
            h = st.handlers[0]
            if h.type is None or _u(h.type) != "Exception" or [_u(x) for x in h.body] != [_E("del properties[name]"), "raise"]:
                raise ExtractError("%s: the except clause changed: %s" % (where, [_u(x) for x in h.body]))
            tbody.append(".write .setValues")
            handler.append(".deleteByName")
        elif isinstance(st, ast.Return) and s == _E("return prop"):
            break
        else:
            _fail(where, st)
        i += 1
    if not tbody:
        raise ExtractError("%s: no protected assignment of the values" % where)

    def lst(xs):
        return "[" + ", ".join(xs) + "]"
    out = ["import NixModel.Pure.PropCreate",
           "/-! GENERATED by harness/extract/propcreate.py from nixio/section.py, nixio/property.py - do not edit -/",
           "namespace Nix.Generated.PropCreateOrder", "open Nix.Guarded Nix.PropCreate", "",
           "/-- `Property.create_new(nixfile, nixparent, h5parent, name, dtype, shape, oid)`: its statements in source order -/",
           "def propertyCreateNew : List PStep := %s" % lst(create), "",
           "/-- `Section.create_property(name, values_or_dtype, oid)` (no copy_from), `Property.create_new` inlined -/",
           "def createProperty : Fn Guard Write :=",
           "  { pre := %s," % lst(pre), "    body := %s," % lst(tbody), "    handler := %s," % lst(handler),
           "    post := %s }" % lst(post), "", "end Nix.Generated.PropCreateOrder", ""]
    return {TARGET: "\n".join(out)}
