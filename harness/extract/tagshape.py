"""Translator: nixio/tag.py + nixio/multi_tag.py  ->  NixModel/Generated/TagShape.lean

Parses the two sources with `ast` (never imports them) and renders the parts of the region computation that are
*decisions of the code* rather than arithmetic of the dimensions (C07) or of the units (C09):

 computational pieces (used by the model `Pure/Tagging.lean` as they are rendered):
 * `extentKeepsStopRule e`  — the test of `slice_mode = stop_rule if extent[idx] <op> <c> else SliceMode.<M>` in
                              `BaseTag._calc_data_slices`, with `<op>`, `<c>` as written; `extentElseMode` = `<M>`;
                              `noExtentMode` = the mode assigned when the axis has no extent entry
 * `stopPos e sc start`     — the stop position, by symbolic execution of `stop_pos = extent[idx]` and the augmented
                              assignments that follow it (`*= scaling`, `+= start_pos`)
 * `sliceOf a b`            — `slice(range_indices[0], range_indices[1] + 1)`
 * `wholeAxisStart`         — `start_index` of an axis without a position
 * `stopInData s n`         — the comparison inside `np.all(np.<cmp>(stops, dasize))` of `_slices_in_data`
 * `indexedRowBeyond i rows`— the test `posidx <op> data.data_extent[0]` of `MultiTag.feature_data` (indexed)
 * `setNoUnitText`          — the text that counts as "no unit" on a set dimension (`unit and unit != "<text>"`)
 * `invalidUnitBecomes`     — (exception caught, exception raised) around `util.units.scaling`

 guard tables (stated literally by `C08_source_shape`, so that a reordered / added / removed / changed check breaks
 the build on that theorem): for `_calc_data_slices`, `_slices_in_data`, `_scale_position`, `Tag.tagged_data`,
 `Tag.feature_data`, `MultiTag._calc_data_slices_mtag`, `MultiTag.tagged_data`, `MultiTag.feature_data` the list of
 `(test as written, action)` of every `if` in source order (nested ones included, `elif` chains flattened), where
 action is `raise <Exception>`, `return`, or `-` (neither).

Anything it does not recognise raises ExtractError (a broken tie, handled by the check).
"""
import ast
import os
from fractions import Fraction

from .leanfmt import ExtractError, lean_str, lean_list, lean_chars

TAG = os.path.join("nixio", "tag.py")
MTAG = os.path.join("nixio", "multi_tag.py")
OUT = "NixModel/Generated/TagShape.lean"

CMP = {ast.Gt: ">", ast.GtE: "≥", ast.Lt: "<", ast.LtE: "≤", ast.Eq: "=", ast.NotEq: "≠"}
NPCMP = {"less_equal": "≤", "less": "<", "greater_equal": "≥", "greater": ">", "equal": "=", "not_equal": "≠"}


def _cls(tree, name, src):
    for n in tree.body:
        if isinstance(n, ast.ClassDef) and n.name == name:
            return n
    raise ExtractError("class %s not found in %s" % (name, src))


def _fn(cls, name):
    for n in cls.body:
        if isinstance(n, ast.FunctionDef) and n.name == name:
            return n
    raise ExtractError("method %s.%s not found" % (cls.name, name))


def _rat(x):
    fr = Fraction(x)
    n = "(%d : Rat)" % fr.numerator if fr.numerator >= 0 else "((%d) : Rat)" % fr.numerator
    return n if fr.denominator == 1 else "(%s / %d)" % (n, fr.denominator)


def _num(node, what):
    if isinstance(node, ast.UnaryOp) and isinstance(node.op, ast.USub):
        return -_num(node.operand, what)
    if isinstance(node, ast.Constant) and isinstance(node.value, (int, float)) and not isinstance(node.value, bool):
        return node.value
    raise ExtractError("%s is not a numeric constant (line %d)" % (what, getattr(node, "lineno", -1)))


def _is_sub(node, base, index):
    """`base[index]` with plain names"""
    return (isinstance(node, ast.Subscript) and isinstance(node.value, ast.Name) and node.value.id == base
            and isinstance(node.slice, ast.Name) and node.slice.id == index)


def _slicemode(node, what):
    if isinstance(node, ast.Attribute) and isinstance(node.value, ast.Name) and node.value.id == "SliceMode":
        return node.attr
    raise ExtractError("%s is not SliceMode.<member> (line %d)" % (what, getattr(node, "lineno", -1)))


def _action(body):
    st = body[0]
    for x in body:                       # `msg = ...` in front of the raise
        if isinstance(x, (ast.Raise, ast.Return)):
            st = x
            break
        if not isinstance(x, (ast.Assign, ast.Expr)):
            break
    if isinstance(st, ast.Raise):
        exc = st.exc
        if exc is None:
            return "raise"
        if isinstance(exc, ast.Call):
            exc = exc.func
        if isinstance(exc, ast.Name):
            return "raise " + exc.id
        return "raise " + ast.unparse(exc)
    if isinstance(st, ast.Return):
        return "return"
    return "-"


def guards(fn):
    """(test, action) of every `if` statement of a function in source order"""
    out = []

    def walk(stmts):
        for st in stmts:
            if isinstance(st, ast.If):
                out.append((ast.unparse(st.test), _action(st.body)))
                walk(st.body)
                walk(st.orelse)
            elif isinstance(st, (ast.For, ast.While)):
                walk(st.body)
                walk(st.orelse)
            elif isinstance(st, ast.Try):
                walk(st.body)
                for h in st.handlers:
                    out.append(("except " + (ast.unparse(h.type) if h.type is not None else ""), _action(h.body)))
                    walk(h.body)
                walk(st.orelse)
                walk(st.finalbody)
            elif isinstance(st, ast.With):
                walk(st.body)
    walk(fn.body)
    return out


def _calc_data_slices(fn):
    info = {}
    modes = [n for n in ast.walk(fn) if isinstance(n, ast.Assign) and len(n.targets) == 1
             and isinstance(n.targets[0], ast.Name) and n.targets[0].id == "slice_mode"]
    modes.sort(key=lambda n: n.lineno)
    if len(modes) != 2:
        raise ExtractError("_calc_data_slices: expected 2 assignments to slice_mode, found %d" % len(modes))
    cond = [m for m in modes if isinstance(m.value, ast.IfExp)]
    plain = [m for m in modes if not isinstance(m.value, ast.IfExp)]
    if len(cond) != 1 or len(plain) != 1:
        raise ExtractError("_calc_data_slices: slice_mode is not assigned once conditionally and once plainly")
    v = cond[0].value
    t = v.test
    if not (isinstance(t, ast.Compare) and len(t.ops) == 1 and type(t.ops[0]) in CMP and _is_sub(t.left, "extent", "idx")):
        raise ExtractError("_calc_data_slices: the slice mode test is not `extent[idx] <op> <constant>` (line %d): %s"
                           % (v.lineno, ast.unparse(t)))
    c = _num(t.comparators[0], "the constant of the slice mode test")
    if not (isinstance(v.body, ast.Name) and v.body.id == "stop_rule"):
        raise ExtractError("_calc_data_slices: the slice mode is not `stop_rule` when the test holds")
    info["keeps"] = "decide (e %s %s)" % (CMP[type(t.ops[0])], _rat(c))
    info["elseMode"] = _slicemode(v.orelse, "the slice mode when the test fails")
    info["noExtMode"] = _slicemode(plain[0].value, "the slice mode without an extent entry")

    # stop position: `stop_pos = extent[idx]` followed by augmented assignments, in the block of the conditional mode
    block = None
    for n in ast.walk(fn):
        if isinstance(n, ast.If) and cond[0] in n.body:
            block = n
    if block is None:
        raise ExtractError("_calc_data_slices: the conditional slice mode is not inside an `if` block")
    expr = None
    names = {"scaling": "sc", "start_pos": "start"}
    ops = {ast.Mult: "*", ast.Add: "+", ast.Sub: "-"}
    for st in block.body:
        if isinstance(st, ast.Assign) and len(st.targets) == 1 and isinstance(st.targets[0], ast.Name) \
                and st.targets[0].id == "stop_pos":
            if not _is_sub(st.value, "extent", "idx"):
                raise ExtractError("_calc_data_slices: stop_pos does not start from extent[idx]")
            expr = "e"
        elif isinstance(st, ast.AugAssign) and isinstance(st.target, ast.Name) and st.target.id == "stop_pos":
            if expr is None or type(st.op) not in ops or not (isinstance(st.value, ast.Name) and st.value.id in names):
                raise ExtractError("_calc_data_slices: unmodelled update of stop_pos at line %d" % st.lineno)
            expr = "%s %s %s" % (expr if expr == "e" else "(%s)" % expr, ops[type(st.op)], names[st.value.id])
        elif st is cond[0]:
            continue
        else:
            raise ExtractError("_calc_data_slices: unexpected statement in the extent block at line %d" % st.lineno)
    if expr is None:
        raise ExtractError("_calc_data_slices: stop_pos is never assigned from extent[idx]")
    info["stopPos"] = expr
    other = plain[0]
    for n in ast.walk(fn):
        if isinstance(n, ast.If) and other in n.orelse:
            for st in n.orelse:
                if isinstance(st, ast.Assign) and isinstance(st.targets[0], ast.Name) and st.targets[0].id == "stop_pos":
                    if not (isinstance(st.value, ast.Name) and st.value.id == "start_pos"):
                        raise ExtractError("_calc_data_slices: without an extent entry stop_pos is not start_pos")
                    info["noExtStop"] = True
    if not info.get("noExtStop"):
        raise ExtractError("_calc_data_slices: `stop_pos = start_pos` for an axis without an extent entry not found")

    # slice(range_indices[0], range_indices[1] + k)
    sl = [n for n in ast.walk(fn) if isinstance(n, ast.Call) and isinstance(n.func, ast.Name) and n.func.id == "slice"]
    sl.sort(key=lambda n: n.lineno)
    if len(sl) != 2:
        raise ExtractError("_calc_data_slices: expected 2 slice(...) constructions, found %d" % len(sl))
    a, b = sl[0].args if len(sl[0].args) == 2 else (None, None)

    def ri(node, k):
        return (isinstance(node, ast.Subscript) and isinstance(node.value, ast.Name) and node.value.id == "range_indices"
                and isinstance(node.slice, ast.Constant) and node.slice.value == k)
    if not (a is not None and ri(a, 0) and isinstance(b, ast.BinOp) and isinstance(b.op, (ast.Add, ast.Sub))
            and ri(b.left, 1)):
        raise ExtractError("_calc_data_slices: the slice is not slice(range_indices[0], range_indices[1] + k)")
    k = _num(b.right, "the increment of the slice stop")
    if int(k) != k:
        raise ExtractError("_calc_data_slices: non-integer slice stop increment")
    info["sliceOf"] = "(a, b %s %d)" % ("+" if isinstance(b.op, ast.Add) else "-", int(k))
    # the entry is `range_indices if range_indices is None else slice(...)`
    holder = [n for n in ast.walk(fn) if isinstance(n, ast.IfExp) and n.orelse is sl[0]]
    if len(holder) != 1 or ast.unparse(holder[0].test) != "range_indices is None" \
            or ast.unparse(holder[0].body) != "range_indices":
        raise ExtractError("_calc_data_slices: the entry is not `range_indices if range_indices is None else slice(..)`")
    # whole axis
    w = sl[1]
    if not (len(w.args) == 2 and all(isinstance(x, ast.Name) for x in w.args)
            and [x.id for x in w.args] == ["start_index", "stop_index"]):
        raise ExtractError("_calc_data_slices: the whole-axis slice is not slice(start_index, stop_index)")
    vals = {}
    for n in ast.walk(fn):
        if isinstance(n, ast.Assign) and isinstance(n.targets[0], ast.Name) and n.targets[0].id in ("start_index", "stop_index"):
            vals[n.targets[0].id] = n.value
    if ast.unparse(vals.get("stop_index", ast.Constant(None))) != "data.shape[idx]":
        raise ExtractError("_calc_data_slices: stop_index of a whole axis is not data.shape[idx]")
    s0 = _num(vals.get("start_index"), "start_index of a whole axis")
    if int(s0) != s0:
        raise ExtractError("_calc_data_slices: non-integer start_index")
    info["wholeStart"] = int(s0)
    return info


def _slices_in_data(fn):
    rets = sorted([n for n in ast.walk(fn) if isinstance(n, ast.Return)], key=lambda n: n.lineno)
    last = rets[-1].value if rets else None
    if not (isinstance(last, ast.Call) and ast.unparse(last.func) == "np.all" and len(last.args) == 1
            and isinstance(last.args[0], ast.Call) and isinstance(last.args[0].func, ast.Attribute)
            and ast.unparse(last.args[0].func.value) == "np" and last.args[0].func.attr in NPCMP
            and [ast.unparse(a) for a in last.args[0].args] == ["stops", "dasize"]):
        raise ExtractError("_slices_in_data: the result is not np.all(np.<cmp>(stops, dasize))")
    src = ast.unparse(fn)
    if "dasize = data.data_extent" not in src or "stops = tuple((sl.stop for sl in slices))" not in src:
        raise ExtractError("_slices_in_data: stops / dasize are not the slice stops and data.data_extent")
    return "decide (s %s n)" % NPCMP[last.args[0].func.attr]


def _scale_position(fn):
    info = {}
    texts = []
    for n in ast.walk(fn):
        if isinstance(n, ast.If) and isinstance(n.test, ast.BoolOp) and isinstance(n.test.op, ast.And) \
                and len(n.test.values) == 2 and isinstance(n.test.values[0], ast.Name) and n.test.values[0].id == "unit" \
                and isinstance(n.test.values[1], ast.Compare) and isinstance(n.test.values[1].ops[0], ast.NotEq) \
                and isinstance(n.test.values[1].comparators[0], ast.Constant):
            texts.append(n.test.values[1].comparators[0].value)
    if len(texts) != 1 or not isinstance(texts[0], str):
        raise ExtractError("_scale_position: expected exactly one `unit and unit != \"<text>\"` test")
    info["noUnit"] = texts[0]
    tr = [n for n in ast.walk(fn) if isinstance(n, ast.Try)]
    if len(tr) != 1 or len(tr[0].handlers) != 1 or not isinstance(tr[0].handlers[0].type, ast.Name):
        raise ExtractError("_scale_position: expected one try with one typed handler around the scaling")
    if ast.unparse(tr[0].body[0]) != "scaling = util.units.scaling(unit, dimunit)":
        raise ExtractError("_scale_position: the guarded statement is not scaling = util.units.scaling(unit, dimunit)")
    act = _action(tr[0].handlers[0].body)
    if not act.startswith("raise "):
        raise ExtractError("_scale_position: the handler does not raise")
    info["caught"] = (tr[0].handlers[0].type.id, act[6:])
    rets = [n for n in ast.walk(fn) if isinstance(n, ast.Return)]
    if len(rets) != 1 or ast.unparse(rets[0].value) != "(pos * scaling, scaling)":
        raise ExtractError("_scale_position: does not return (pos * scaling, scaling)")
    init = [n for n in fn.body if isinstance(n, ast.Assign) and ast.unparse(n.targets[0]) == "scaling"]
    if len(init) != 1 or _num(init[0].value, "initial scaling") != 1:
        raise ExtractError("_scale_position: scaling does not start at 1.0")
    return info


def _indexed_row_test(fn):
    found = []
    for n in ast.walk(fn):
        if isinstance(n, ast.If) and isinstance(n.test, ast.Compare) and len(n.test.ops) == 1 \
                and isinstance(n.test.left, ast.Name) and n.test.left.id == "posidx" \
                and ast.unparse(n.test.comparators[0]) == "data.data_extent[0]":
            if type(n.test.ops[0]) not in CMP:
                raise ExtractError("MultiTag.feature_data: unmodelled comparison of posidx with the row count")
            found.append(CMP[type(n.test.ops[0])])
    if len(found) != 1:
        raise ExtractError("MultiTag.feature_data: expected one test of posidx against data.data_extent[0]")
    return "decide (i %s rows)" % found[0]


def _default_stop(fn, owner):
    """the default of the `stop_rule` parameter: SliceMode.<member>"""
    args = fn.args.args
    names = [a.arg for a in args]
    if "stop_rule" not in names:
        raise ExtractError("%s.%s has no stop_rule parameter" % (owner, fn.name))
    k = names.index("stop_rule") - (len(args) - len(fn.args.defaults))
    if k < 0:
        raise ExtractError("%s.%s: stop_rule has no default" % (owner, fn.name))
    m = _slicemode(fn.args.defaults[k], "the default stop rule of %s.%s" % (owner, fn.name))
    if m not in ("Exclusive", "Inclusive"):
        raise ExtractError("%s.%s: unknown default stop rule %s" % (owner, fn.name, m))
    return ("%s.%s(%s)" % (owner, fn.name, ", ".join(n for n in names if n != "self")), m)


def _wrapper(fn, owner):
    """a deprecated wrapper: (signature, the call it returns)"""
    rets = [n for n in ast.walk(fn) if isinstance(n, ast.Return)]
    if len(rets) != 1 or not isinstance(rets[0].value, ast.Call):
        raise ExtractError("%s.%s does not return one call" % (owner, fn.name))
    names = [a.arg for a in fn.args.args if a.arg != "self"]
    return ("%s.%s(%s)" % (owner, fn.name, ", ".join(names)), ast.unparse(rets[0].value))


def _table(name, rows):
    return "def %s : List (String × String) :=\n  [%s]" % (
        name, ",\n   ".join("(%s, %s)" % (lean_str(a), lean_str(b)) for a, b in rows))


def read(repo):
    tt = ast.parse(open(os.path.join(repo, TAG), encoding="utf-8").read())
    mt = ast.parse(open(os.path.join(repo, MTAG), encoding="utf-8").read())
    base, tag, mtag = _cls(tt, "BaseTag", TAG), _cls(tt, "Tag", TAG), _cls(mt, "MultiTag", MTAG)
    info = {"calc": _calc_data_slices(_fn(base, "_calc_data_slices")),
            "inData": _slices_in_data(_fn(base, "_slices_in_data")),
            "scale": _scale_position(_fn(base, "_scale_position")),
            "rowTest": _indexed_row_test(_fn(mtag, "feature_data")),
            "defaults": [_default_stop(_fn(tag, "tagged_data"), "Tag"), _default_stop(_fn(tag, "feature_data"), "Tag"),
                         _default_stop(_fn(mtag, "tagged_data"), "MultiTag"),
                         _default_stop(_fn(mtag, "feature_data"), "MultiTag")],
            "wrappers": [_wrapper(_fn(tag, "retrieve_data"), "Tag"), _wrapper(_fn(tag, "retrieve_feature_data"), "Tag"),
                         _wrapper(_fn(mtag, "retrieve_data"), "MultiTag"),
                         _wrapper(_fn(mtag, "retrieve_feature_data"), "MultiTag")],
            "tables": [
                ("guardsCalcDataSlices", guards(_fn(base, "_calc_data_slices"))),
                ("guardsSlicesInData", guards(_fn(base, "_slices_in_data"))),
                ("guardsScalePosition", guards(_fn(base, "_scale_position"))),
                ("guardsTagTaggedData", guards(_fn(tag, "tagged_data"))),
                ("guardsTagFeatureData", guards(_fn(tag, "feature_data"))),
                ("guardsMtagCalcSlices", guards(_fn(mtag, "_calc_data_slices_mtag"))),
                ("guardsMtagTaggedData", guards(_fn(mtag, "tagged_data"))),
                ("guardsMtagFeatureData", guards(_fn(mtag, "feature_data"))),
            ]}
    return info


def render(info):
    c = info["calc"]
    L = ["/- GENERATED by harness/extract/tagshape.py from nixio/tag.py and nixio/multi_tag.py — do not edit. -/",
         "namespace Nix.Tagging.Gen",
         "",
         "/-- `BaseTag._calc_data_slices`: the test of `slice_mode = stop_rule if <test> else SliceMode.<M>` on the",
         "(unscaled) extent entry `e`, as written -/",
         "def extentKeepsStopRule (e : Rat) : Bool := %s" % c["keeps"],
         "/-- `<M>`: the mode when the test fails; the mode of an axis without an extent entry -/",
         "def extentElseMode : String := %s" % lean_str(c["elseMode"]),
         "def noExtentMode : String := %s" % lean_str(c["noExtMode"]),
         "/-- the stop position of an axis with extent entry `e`: `stop_pos = extent[idx]` and the augmented",
         "assignments that follow (`sc` = scaling, `start` = the scaled start position) -/",
         "def stopPos (e sc start : Rat) : Rat := %s" % c["stopPos"],
         "/-- `slice(range_indices[0], range_indices[1] + k)` -/",
         "def sliceOf (a b : Int) : Int × Int := %s" % c["sliceOf"],
         "/-- `start_index` of an axis without a position (`stop_index = data.shape[idx]`) -/",
         "def wholeAxisStart : Int := %d" % c["wholeStart"],
         "/-- `BaseTag._slices_in_data`: the comparison of `np.all(np.<cmp>(stops, dasize))` for one axis -/",
         "def stopInData (s n : Int) : Bool := %s" % info["inData"],
         "/-- `MultiTag.feature_data`, indexed: the test of `posidx` against `data.data_extent[0]` that refuses -/",
         "def indexedRowBeyond (i rows : Nat) : Bool := %s" % info["rowTest"],
         "/-- `BaseTag._scale_position`: the text that counts as no unit on a set dimension -/",
         "def setNoUnitText : List Char := %s" % lean_chars(info["scale"]["noUnit"]),
         "/-- (exception caught around `util.units.scaling`, exception raised instead) -/",
         "def invalidUnitBecomes : String × String := (%s, %s)" % (lean_str(info["scale"]["caught"][0]),
                                                                  lean_str(info["scale"]["caught"][1])),
         "",
         "/-! guard tables: (test as written, action) of every `if` / `except` in source order -/"]
    for name, rows in info["tables"]:
        L.append(_table(name, rows))
    L += ["", "/-- the public methods with their parameters, and the default of `stop_rule` (a `SliceMode` member) -/",
          _table("defaultStopRules", info["defaults"]),
          "/-- the deprecated wrappers: signature and the call they return -/",
          _table("retrieveWrappers", info["wrappers"])]
    L += ["", "end Nix.Tagging.Gen", ""]
    return "\n".join(L)


def extract(repo):
    return {OUT: render(read(repo))}


if __name__ == "__main__":
    import sys
    print(render(read(sys.argv[1] if len(sys.argv) > 1 else "/repo")))
