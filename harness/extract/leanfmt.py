"""Helpers to render Python values as Lean terms."""


def lean_char(c):
    o = ord(c)
    if c == "'":
        return "'\\''"
    if c == "\\":
        return "'\\\\'"
    if 32 <= o < 127:
        return "'%s'" % c
    return "(Char.ofNat %d)" % o


def lean_chars(s):
    """a Python str as a Lean `List Char` literal"""
    return "[" + ", ".join(lean_char(c) for c in s) + "]"


def lean_str(s):
    out = []
    for c in s:
        o = ord(c)
        if c == '"':
            out.append('\\"')
        elif c == "\\":
            out.append("\\\\")
        elif c == "\n":
            out.append("\\n")
        elif 32 <= o < 127:
            out.append(c)
        else:
            out.append("\\u{%x}" % o)
    return '"' + "".join(out) + '"'


def lean_list(items):
    return "[" + ", ".join(items) + "]"


def lean_bool(b):
    return "true" if b else "false"


def lean_int(i):
    return str(i) if i >= 0 else "(%d)" % i


class ExtractError(Exception):
    """The source no longer has the shape the translator understands (broken tie)."""
