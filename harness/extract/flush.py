"""Translator: nixio/file.py  ->  NixModel/Generated/FlushShape.lean      (property C17)

Parses the source with `ast` (never imports it) and renders the *statement lists* of `File.flush`,
`File.close` and `File.__exit__` as `List Prim` constants (vocabulary: `NixModel/Pure/FlushPrim.lean`):

    gc.collect()            -> .gcCollect
    self._h5file.flush()    -> .h5flush
    self._h5file.close()    -> .h5close
    self.flush() / self.close()   -> the callee's list, inlined (recursion is a broken tie)
    docstring / `pass` / bare `return` at the end -> nothing

plus two facts the model relies on: `__enter__` returns `self`, and every assignment of `self._h5file` in
`File.__init__` is `h5py.File(<one positional argument>)` (so `.flush()` / `.close()` on it are h5py's
`File.flush` (H5Fflush on the file id) and `File.close`).

Any other statement (a condition around the flush, a try block, a different receiver, extra arguments) raises
ExtractError: the tie is broken and the check goes looking for a failing input.  The theorems in
`Props/C17.lean` evaluate decidable shape predicates on these constants, so a `close` without a flush before
the h5py close, or a `flush` that no longer flushes, fails `lake build` on a named theorem.
"""
import ast
import os

from .leanfmt import ExtractError, lean_bool

TARGET = "NixModel/Generated/FlushShape.lean"
METHODS = ("flush", "close", "__exit__")


def _is_self_attr(node, attr):
    return (isinstance(node, ast.Attribute) and node.attr == attr and isinstance(node.value, ast.Name)
            and node.value.id == "self")


def _plain_call(node):
    """an expression statement that is a call without arguments: returns the callee node, else None"""
    if isinstance(node, ast.Expr) and isinstance(node.value, ast.Call):
        c = node.value
        if c.args or c.keywords:
            raise ExtractError("line %d: call with arguments is not modelled" % node.lineno)
        return c.func
    return None


def _body(cls, name, stack=()):
    if name in stack:
        raise ExtractError("File.%s calls itself (through %s)" % (name, " -> ".join(stack)))
    fn = None
    for n in cls.body:
        if isinstance(n, ast.FunctionDef) and n.name == name:
            fn = n          # the last definition wins, as in Python
    if fn is None:
        raise ExtractError("class File has no method %s" % name)
    if fn.decorator_list:
        raise ExtractError("File.%s is decorated" % name)
    prims = []
    stmts = list(fn.body)
    for i, st in enumerate(stmts):
        if isinstance(st, ast.Expr) and isinstance(st.value, ast.Constant) and isinstance(st.value.value, str):
            continue                                   # docstring / string statement
        if isinstance(st, ast.Pass):
            continue
        if isinstance(st, ast.Return) and st.value is None and i == len(stmts) - 1:
            continue
        callee = _plain_call(st)
        if callee is None:
            raise ExtractError("File.%s line %d: statement %s is not modelled" % (name, st.lineno,
                                                                                type(st).__name__))
        if (isinstance(callee, ast.Attribute) and callee.attr == "collect" and isinstance(callee.value, ast.Name)
                and callee.value.id == "gc"):
            prims.append(".gcCollect")
        elif isinstance(callee, ast.Attribute) and _is_self_attr(callee.value, "_h5file") and callee.attr == "flush":
            prims.append(".h5flush")
        elif isinstance(callee, ast.Attribute) and _is_self_attr(callee.value, "_h5file") and callee.attr == "close":
            prims.append(".h5close")
        elif _is_self_attr(callee, "flush") or _is_self_attr(callee, "close"):
            prims.extend(_body(cls, callee.attr, stack + (name,)))
        else:
            raise ExtractError("File.%s line %d: call of %s is not modelled" % (name, st.lineno,
                                                                              ast.unparse(callee)))
    return prims


def _enter_returns_self(cls):
    for n in cls.body:
        if isinstance(n, ast.FunctionDef) and n.name == "__enter__":
            body = [s for s in n.body if not (isinstance(s, ast.Expr) and isinstance(s.value, ast.Constant))]
            return (len(body) == 1 and isinstance(body[0], ast.Return) and isinstance(body[0].value, ast.Name)
                    and body[0].value.id == "self")
    raise ExtractError("class File has no __enter__")


def _h5file_is_h5py_file(cls):
    init = None
    for n in cls.body:
        if isinstance(n, ast.FunctionDef) and n.name == "__init__":
            init = n
    if init is None:
        raise ExtractError("class File has no __init__")
    found = 0
    for n in ast.walk(init):
        if isinstance(n, ast.Assign) and any(_is_self_attr(t, "_h5file") for t in n.targets):
            v = n.value
            ok = (isinstance(v, ast.Call) and isinstance(v.func, ast.Attribute) and v.func.attr == "File"
                  and isinstance(v.func.value, ast.Name) and v.func.value.id == "h5py" and len(v.args) == 1
                  and not v.keywords)
            if not ok:
                return False
            found += 1
    # assigned anywhere else in the class?
    for n in ast.walk(cls):
        if isinstance(n, ast.FunctionDef) and n.name != "__init__":
            for m in ast.walk(n):
                if isinstance(m, (ast.Assign, ast.AugAssign, ast.AnnAssign)):
                    tg = m.targets if isinstance(m, ast.Assign) else [m.target]
                    if any(_is_self_attr(t, "_h5file") for t in tg):
                        return False
    return found >= 1


def shape(repo):
    path = os.path.join(repo, "nixio", "file.py")
    tree = ast.parse(open(path, encoding="utf-8").read())
    cls = None
    for n in tree.body:
        if isinstance(n, ast.ClassDef) and n.name == "File":
            cls = n
    if cls is None:
        raise ExtractError("nixio/file.py has no class File")
    # `gc` must be the module (import gc), h5py the module
    imported = set()
    for n in tree.body:
        if isinstance(n, ast.Import):
            for a in n.names:
                imported.add(a.asname or a.name)
    for mod in ("gc", "h5py"):
        if mod not in imported:
            # a flush body that does not mention gc is fine; only complain when it is used
            pass
    return {
        "flush": _body(cls, "flush"),
        "close": _body(cls, "close"),
        "exit": _body(cls, "__exit__"),
        "enter_self": _enter_returns_self(cls),
        "h5py_file": _h5file_is_h5py_file(cls),
    }


def render(sh):
    def lst(ps):
        return "[" + ", ".join(ps) + "]"
    return (
        "import NixModel.Pure.FlushPrim\n"
        "/-! GENERATED by harness/extract/flush.py from nixio/file.py — do not edit. -/\n"
        "namespace Nix.Flush.Gen\n"
        "open Nix.Flush\n\n"
        "/-- statements of `File.flush` -/\n"
        "def fileFlushBody : List Prim := %s\n"
        "/-- statements of `File.close` -/\n"
        "def fileCloseBody : List Prim := %s\n"
        "/-- statements of `File.__exit__` (`self.close()` inlined) -/\n"
        "def fileExitBody : List Prim := %s\n"
        "/-- `File.__enter__` returns `self` -/\n"
        "def enterReturnsSelf : Bool := %s\n"
        "/-- every assignment of `self._h5file` in `File.__init__` is `h5py.File(<file id>)` -/\n"
        "def h5fileIsH5pyFile : Bool := %s\n\n"
        "end Nix.Flush.Gen\n" % (lst(sh["flush"]), lst(sh["close"]), lst(sh["exit"]),
                                 lean_bool(sh["enter_self"]), lean_bool(sh["h5py_file"])))


def extract(repo):
    return {TARGET: render(shape(repo))}
