"""Translator: the single-valued attribute setters  ->  NixModel/Generated/AttrOrder.lean            (property C12)

Every property setter of the anchored modules that ends in `set_attr` (Entity.type / definition, DataArray.unit / label /
expansion_origin, the label / unit / offset / sampling_interval of the dimension descriptors, the Property attributes,
Section.reference / repository, Feature.link_type), with `H5Group.set_attr` / `H5DataSet.set_attr` inlined, rendered
statement by statement over the vocabulary of NixModel/Pure/AttrWrite.lean: one list for the path `set_attr` takes
for None, one for a value.  `Props/C12Attrs.lean` evaluates the discipline `safe` on both: a type check moved behind
`set_attr`, or the text check dropped from `set_attr`, changes a list and breaks `attr_setters_safe`.  The setters
are FOUND, not listed: a new setter that calls set_attr in a shape this table does not know is an ExtractError.
`RangeDimension.label / unit` are rendered for a dimension without link (with a link they go through
DimensionLink: C05's Generated/LinkShape.lean).  Parsed with `ast`, never imported.
"""
import ast
import os

from .leanfmt import ExtractError

TARGET = "NixModel/Generated/AttrOrder.lean"
FILES = ["nixio/entity.py", "nixio/data_array.py", "nixio/dimensions.py", "nixio/property.py", "nixio/section.py",
         "nixio/feature.py", "nixio/source.py", "nixio/group.py", "nixio/tag.py", "nixio/multi_tag.py", "nixio/block.py"]
# setters that call set_attr but are modelled elsewhere (with their own theorems) or are no single-valued attribute
ELSEWHERE = {("DimensionLink", "index"): "Generated/LinkOrder.lean", ("DimensionLink", "unit"): "C05 Generated/LinkShape.lean",
             ("DimensionLink", "label"): "C05 Generated/LinkShape.lean", ("Feature", "data"): "Generated/RoleOrder.lean",
             ("Property", "odml_type"): "validated against the stored values; oracle only",
             ("DataFrame", "units"): "a vector of texts; oracle only"}
STAMP = ("if self.file.auto_update_timestamps:\n    self.force_updated_at()",
         "if self.file.auto_update_timestamps:\n    time = util.now_int()\n    self._h5group.set_attr('updated_at', util.time_to_str(time))")


def _u(n):
    return ast.unparse(n)


def _E(src):
    return ast.unparse(ast.parse(src).body[0])


def _parse(repo, rel):
    try:
        with open(os.path.join(repo, rel), encoding="utf-8") as fh:
            return ast.parse(fh.read())
    except (OSError, SyntaxError) as e:
        raise ExtractError("%s: %s" % (rel, e))


def _body(stmts):
    return [st for st in stmts if not (isinstance(st, ast.Expr) and isinstance(st.value, ast.Constant))]


def _fail(where, st):
    raise ExtractError("%s line %d: statement not modelled: %s" % (where, st.lineno, _u(st)[:110]))


def _set_attr(fn, where, none_branch):
    """H5Group.set_attr / H5DataSet.set_attr -> steps of the branch taken for None / for a value"""
    if [a.arg for a in fn.args.args] != ["self", "name", "value"]:
        raise ExtractError("%s: signature changed" % where)
    steps = []
    for st in _body(fn.body):
        s = _u(st)
        if s == _E("self._create_h5obj()"):
            steps.append(".write .ensureGroup")
        elif isinstance(st, ast.If) and _u(st.test) == _E("value is None"):
            holder = None
            for h in ("self.group.attrs", "self.dataset.attrs"):
                if [_u(x) for x in st.body] == [_E("if name in %s:\n    del %s[name]" % (h, h))]:
                    holder = h
            if holder is None:
                _fail(where, st)
            if none_branch:
                steps.append(".write .delAttr")
                continue
            for x in _body(st.orelse):
                if _u(x) in (_E("if isinstance(value, str):\n    value = str(value)\n    util.check_text_storable(value)"),
                             _E("if isinstance(value, str):\n    value = str(value)\n    util.check_text_storable(value)\n"
                                "elif isinstance(value, (list, tuple, np.ndarray)):\n"
                                "    for val in np.ravel(np.asarray(value, dtype=object)):\n"
                                "        if isinstance(val, str):\n            util.check_text_storable(val)")):
                    # the text - since nixio's units-vector fix also every text of a vector - is checked before h5py sees it
                    steps.append(".guard .textStorable")
                elif _u(x) == _E("%s[name] = value" % holder):
                    steps += [".guard .hasH5Type", ".write .replaceAttr"]
                else:
                    _fail(where, x)
        else:
            _fail(where, st)
    return steps


def _setter_steps(fn, cls, setattr_steps, where):
    arg = fn.args.args[1].arg
    steps = []
    body = _body(fn.body)
    i = 0
    wrote = False
    while i < len(body):
        st = body[i]
        s = _u(st)
        if isinstance(st, ast.Expr) and isinstance(st.value, ast.Call) and _u(st.value.func) == "util.check_attr_type" and \
                len(st.value.args) == 2 and _u(st.value.args[0]) == arg:
            steps.append(".guard .typeOk")
        elif isinstance(st, ast.If) and not st.orelse and _u(st.test) == _E("%s is None" % arg) and \
                len(st.body) == 1 and isinstance(st.body[0], ast.Raise):
            steps.append(".guard .notNone")
        elif s == _E("if %s:\n    %s = util.units.sanitizer(%s)" % (arg, arg, arg)):
            if i + 1 >= len(body) or _u(body[i + 1]) != _E("if %s == '':\n    %s = None" % (arg, arg)):
                raise ExtractError("%s: the sanitised unit is no longer mapped to None when empty" % where)
            steps.append(".guard .normalised")
            i += 1
        elif s == _E("%s = float(%s) if %s is not None else None" % (arg, arg, arg)):
            steps.append(".guard .normalised")
        elif s == _E("if isinstance(%s, str):\n    %s = %s.lower()" % (arg, arg, arg)):
            if i + 1 >= len(body) or _u(body[i + 1]) != _E("%s = LinkType(%s)" % (arg, arg)):
                _fail(where, st)
            steps.append(".guard .normalised")
            i += 1
        elif isinstance(st, ast.Expr) and isinstance(st.value, ast.Call) and \
                _u(st.value.func) in ("self._h5group.set_attr", "self._h5dataset.set_attr") and len(st.value.args) == 2 and \
                isinstance(st.value.args[0], ast.Constant) and _u(st.value.args[1]) in (arg, arg + ".value"):
            if wrote:
                _fail(where, st)
            steps += setattr_steps["dataset" if "_h5dataset" in _u(st.value.func) else "group"]
            wrote = True
        elif isinstance(st, ast.If) and _u(st.test) == _E("self.has_link") and cls == "RangeDimension" and \
                len(st.body) == 1 and _u(st.body[0]) in (_E("self.dimension_link.label = %s" % arg), _E("self.dimension_link.unit = %s" % arg)):
            sub = _setter_steps(ast.FunctionDef(name=fn.name, args=fn.args, body=st.orelse, decorator_list=[], lineno=st.lineno),
                                cls, setattr_steps, where)
            steps += sub
            wrote = True
        elif s in [_E(x) for x in STAMP]:
            steps.append(".write .stamp")
        else:
            _fail(where, st)
        i += 1
    if not wrote:
        raise ExtractError("%s: no set_attr call found" % where)
    return steps


def _lean_name(cls, attr):
    return cls[0].lower() + cls[1:] + "".join(w.capitalize() for w in attr.split("_"))


def extract(repo):
    h5g = _parse(repo, "nixio/hdf5/h5group.py")
    h5d = _parse(repo, "nixio/hdf5/h5dataset.py")

    def meth(tree, cls, name, rel):
        for c in tree.body:
            if isinstance(c, ast.ClassDef) and c.name == cls:
                for f in c.body:
                    if isinstance(f, ast.FunctionDef) and f.name == name:
                        return f
        raise ExtractError("%s: %s.%s not found" % (rel, cls, name))
    sa = {}
    for nb in (True, False):
        sa[nb] = {"group": _set_attr(meth(h5g, "H5Group", "set_attr", "nixio/hdf5/h5group.py"), "H5Group.set_attr", nb),
                  "dataset": _set_attr(meth(h5d, "H5DataSet", "set_attr", "nixio/hdf5/h5dataset.py"), "H5DataSet.set_attr", nb)}
    found = []
    for rel in FILES:
        tree = _parse(repo, rel)
        for c in tree.body:
            if not isinstance(c, ast.ClassDef):
                continue
            for f in c.body:
                if not (isinstance(f, ast.FunctionDef) and [_u(d) for d in f.decorator_list] == ["%s.setter" % f.name]):
                    continue
                src = _u(f)
                if "set_attr" not in src or "write_data" in src or (c.name, f.name) in ELSEWHERE:
                    continue
                where = "%s.%s" % (c.name, f.name)
                paths = {nb: _setter_steps(f, c.name, sa[nb], where) for nb in (True, False)}
                found.append((_lean_name(c.name, f.name), where, paths))
    if len(found) < 20:
        raise ExtractError("only %d attribute setters found" % len(found))

    def lst(xs):
        return "[" + ", ".join(xs) + "]"
    out = ["import NixModel.Pure.AttrWrite",
           "/-! GENERATED by harness/extract/attrorder.py from nixio/entity.py, data_array.py, dimensions.py, property.py, section.py, "
           "feature.py, hdf5/h5group.py, hdf5/h5dataset.py - do not edit -/",
           "namespace Nix.Generated.AttrOrder", "open Nix.Guarded Nix.AttrWrite", "",
           "/-- `H5Group.set_attr(name, value)`: the statements run for `None` / for a value -/",
           "def setAttr : Setter", "  | true => %s" % lst(sa[True]["group"]), "  | false => %s" % lst(sa[False]["group"]), "",
           "/-- `H5DataSet.set_attr(name, value)` -/",
           "def dataSetSetAttr : Setter", "  | true => %s" % lst(sa[True]["dataset"]), "  | false => %s" % lst(sa[False]["dataset"]), ""]
    for lname, pyname, paths in found:
        out += ["/-- the `%s` setter, `set_attr` inlined -/" % pyname, "def %s : Setter" % lname,
                "  | true => %s" % lst(paths[True]), "  | false => %s" % lst(paths[False]), ""]
    out += ["def all : List (String × Setter) :=",
            "  [" + ", ".join('("%s", %s)' % (py, ln) for ln, py, _ in found) + "]", "",
            "end Nix.Generated.AttrOrder", ""]
    return {TARGET: "\n".join(out)}
