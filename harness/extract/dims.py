"""Translator: nixio/dimensions.py  ->  NixModel/Generated/Tolerances.lean

Parses the Python source with `ast` (never imports it) and renders
 * the `rtol` / `atol` actually passed to every `np.isclose` call of `SampledDimension.index_of`
   (two calls: the "position is at the first sample" guard and the "exact hit" test) and of
   `SetDimension.index_of` (one call) -- numpy's defaults 1e-5 / 1e-8 when a tolerance is not passed --
   as the exact rational each double denotes,
 * which expression the first guard tests (`scaled_position` or the raw `position`),
 * the rounding function in front of each hit test (`np.round` / `np.floor` / `np.ceil`),
 * the members of `IndexMode` / `SliceMode`, the `SliceMode.to_index_mode` table and the
   `end_mode = IndexMode.A if mode == SliceMode.X else IndexMode.B` choice in the three `range_indices`.
Anything it does not recognise raises ExtractError (a broken tie, handled by the check).
"""
import ast
import os
from fractions import Fraction

from .leanfmt import ExtractError, lean_str, lean_list, lean_bool

NUMPY_RTOL = 1e-5     # numpy.isclose defaults
NUMPY_ATOL = 1e-8
SRC = os.path.join("nixio", "dimensions.py")
OUT = "NixModel/Generated/Tolerances.lean"


def _cls(tree, name):
    for n in tree.body:
        if isinstance(n, ast.ClassDef) and n.name == name:
            return n
    raise ExtractError("class %s not found in dimensions.py" % name)


def _fn(cls, name):
    for n in cls.body:
        if isinstance(n, ast.FunctionDef) and n.name == name:
            return n
    raise ExtractError("method %s.%s not found" % (cls.name, name))


def _enum_members(cls):
    out = []
    for n in cls.body:
        if isinstance(n, ast.Assign) and len(n.targets) == 1 and isinstance(n.targets[0], ast.Name):
            if not (isinstance(n.value, ast.Constant) and isinstance(n.value.value, str)):
                raise ExtractError("enum member %s.%s is not a string constant" % (cls.name, n.targets[0].id))
            out.append((n.targets[0].id, n.value.value))
    if not out:
        raise ExtractError("enum %s has no members" % cls.name)
    return out


def _attr_of(node, base):
    """`base.X` -> 'X'"""
    if isinstance(node, ast.Attribute) and isinstance(node.value, ast.Name) and node.value.id == base:
        return node.attr
    raise ExtractError("expected %s.<member> at line %d" % (base, getattr(node, "lineno", -1)))


def _to_index_mode(cls):
    fn = _fn(cls, "to_index_mode")
    table = []
    for st in fn.body:
        if isinstance(st, ast.Expr) and isinstance(st.value, ast.Constant):
            continue  # docstring
        if not (isinstance(st, ast.If) and isinstance(st.test, ast.Compare) and len(st.test.ops) == 1
                and isinstance(st.test.ops[0], ast.Eq) and not st.orelse and len(st.body) == 1
                and isinstance(st.body[0], ast.Return)):
            raise ExtractError("SliceMode.to_index_mode: unexpected statement at line %d" % st.lineno)
        left, right = st.test.left, st.test.comparators[0]
        if not (isinstance(left, ast.Name) and left.id == "self"):
            raise ExtractError("SliceMode.to_index_mode: comparison is not `self == self.X`")
        table.append((_attr_of(right, "self"), _attr_of(st.body[0].value, "IndexMode")))
    if not table:
        raise ExtractError("SliceMode.to_index_mode: empty table")
    return table


def _end_mode(cls):
    fn = _fn(cls, "range_indices")
    found = []
    for n in ast.walk(fn):
        if isinstance(n, ast.Assign) and len(n.targets) == 1 and isinstance(n.targets[0], ast.Name) \
                and n.targets[0].id == "end_mode":
            v = n.value
            if not (isinstance(v, ast.IfExp) and isinstance(v.test, ast.Compare) and len(v.test.ops) == 1
                    and isinstance(v.test.ops[0], (ast.Eq, ast.Is)) and isinstance(v.test.left, ast.Name)
                    and v.test.left.id == "mode"):
                raise ExtractError("%s.range_indices: end_mode is not `A if mode == SliceMode.X else B`" % cls.name)
            found.append((_attr_of(v.test.comparators[0], "SliceMode"), _attr_of(v.body, "IndexMode"),
                          _attr_of(v.orelse, "IndexMode")))
    if len(found) != 1:
        raise ExtractError("%s.range_indices: expected exactly one end_mode assignment, found %d"
                           % (cls.name, len(found)))
    return found[0]


def _is_np_call(node, name):
    return (isinstance(node, ast.Call) and isinstance(node.func, ast.Attribute) and node.func.attr == name
            and isinstance(node.func.value, ast.Name) and node.func.value.id == "np")


def _num(node, what):
    if isinstance(node, ast.UnaryOp) and isinstance(node.op, ast.USub):
        return -_num(node.operand, what)
    if isinstance(node, ast.Constant) and isinstance(node.value, (int, float)) and not isinstance(node.value, bool):
        return node.value
    raise ExtractError("%s is not a numeric constant (line %d)" % (what, getattr(node, "lineno", -1)))


def _isclose_calls(fn):
    calls = [n for n in ast.walk(fn) if _is_np_call(n, "isclose")]
    calls.sort(key=lambda n: (n.lineno, n.col_offset))
    out = []
    for c in calls:
        if len(c.args) < 2 or len(c.args) > 4:
            raise ExtractError("np.isclose call with %d positional arguments at line %d" % (len(c.args), c.lineno))
        rtol, atol = NUMPY_RTOL, NUMPY_ATOL
        if len(c.args) >= 3:
            rtol = _num(c.args[2], "rtol")
        if len(c.args) == 4:
            atol = _num(c.args[3], "atol")
        for kw in c.keywords:
            if kw.arg == "rtol":
                rtol = _num(kw.value, "rtol")
            elif kw.arg == "atol":
                atol = _num(kw.value, "atol")
            else:
                raise ExtractError("np.isclose keyword %s is not modelled (line %d)" % (kw.arg, c.lineno))
        out.append((c, rtol, atol))
    return out


def _rounding_before(fn, var):
    """`var = int(np.<f>(x))` -> (f, x-name)"""
    found = []
    for n in ast.walk(fn):
        if isinstance(n, ast.Assign) and len(n.targets) == 1 and isinstance(n.targets[0], ast.Name) \
                and n.targets[0].id == var:
            v = n.value
            if not (isinstance(v, ast.Call) and isinstance(v.func, ast.Name) and v.func.id == "int"
                    and len(v.args) == 1 and isinstance(v.args[0], ast.Call)
                    and isinstance(v.args[0].func, ast.Attribute) and isinstance(v.args[0].func.value, ast.Name)
                    and v.args[0].func.value.id == "np" and len(v.args[0].args) == 1
                    and isinstance(v.args[0].args[0], ast.Name) and not v.args[0].keywords):
                raise ExtractError("%s: `%s = int(np.<round|floor|ceil>(x))` expected at line %d"
                                   % (fn.name, var, n.lineno))
            found.append((v.args[0].func.attr, v.args[0].args[0].id))
    if len(found) != 1:
        raise ExtractError("%s: expected exactly one assignment to `%s`" % (fn.name, var))
    if found[0][0] not in ("round", "floor", "ceil"):
        raise ExtractError("%s: rounding function np.%s is not modelled" % (fn.name, found[0][0]))
    return found[0]


def _name(node, what):
    if isinstance(node, ast.Name):
        return node.id
    raise ExtractError("%s is not a plain name (line %d)" % (what, getattr(node, "lineno", -1)))


def _rat(x):
    fr = Fraction(x)          # the exact value of the double (or int) the code passes
    if fr.denominator == 1:
        return "(%d : Rat)" % fr.numerator if fr.numerator >= 0 else "((%d) : Rat)" % fr.numerator
    n = "(%d : Rat)" % fr.numerator if fr.numerator >= 0 else "((%d) : Rat)" % fr.numerator
    return "%s / %d" % (n, fr.denominator)


def _tol(rtol, atol):
    return "{ rtol := %s, atol := %s }" % (_rat(rtol), _rat(atol))


def _pairs(ps):
    return lean_list(["(%s, %s)" % (lean_str(a), lean_str(b)) for a, b in ps])


def read(repo):
    path = os.path.join(repo, SRC)
    tree = ast.parse(open(path, encoding="utf-8").read())
    info = {}
    info["indexModes"] = _enum_members(_cls(tree, "IndexMode"))
    sm = _cls(tree, "SliceMode")
    info["sliceModes"] = _enum_members(sm)
    info["toIndexMode"] = _to_index_mode(sm)
    sd, rd, st = _cls(tree, "SampledDimension"), _cls(tree, "RangeDimension"), _cls(tree, "SetDimension")
    info["sampledEndMode"] = _end_mode(sd)
    info["rangeEndMode"] = _end_mode(rd)
    info["setEndMode"] = _end_mode(st)

    fn = _fn(sd, "index_of")
    calls = _isclose_calls(fn)
    if len(calls) != 2:
        raise ExtractError("SampledDimension.index_of: expected 2 np.isclose calls, found %d" % len(calls))
    (c0, r0, a0), (c1, r1, a1) = calls
    first = _name(c0.args[0], "first np.isclose argument")
    if first not in ("scaled_position", "position"):
        raise ExtractError("SampledDimension.index_of: the first-sample guard tests `%s`" % first)
    if _num(c0.args[1], "second argument of the first-sample guard") != 0:
        raise ExtractError("SampledDimension.index_of: the first-sample guard does not compare with 0")
    rf, rx = _rounding_before(fn, "index")
    if rx != "scaled_position":
        raise ExtractError("SampledDimension.index_of: index is not rounded from scaled_position")
    if (_name(c1.args[0], "hit test argument"), _name(c1.args[1], "hit test argument")) != ("scaled_position", "index"):
        raise ExtractError("SampledDimension.index_of: the hit test is not np.isclose(scaled_position, index)")
    info["sampledZeroOnScaled"] = first == "scaled_position"
    info["sampledZeroTol"] = (r0, a0)
    info["sampledHitTol"] = (r1, a1)
    info["sampledRounding"] = rf

    fn = _fn(st, "index_of")
    calls = _isclose_calls(fn)
    if len(calls) != 1:
        raise ExtractError("SetDimension.index_of: expected 1 np.isclose call, found %d" % len(calls))
    c, r, a = calls[0]
    if (_name(c.args[0], "hit test argument"), _name(c.args[1], "hit test argument")) != ("position", "index"):
        raise ExtractError("SetDimension.index_of: the hit test is not np.isclose(position, index)")
    rf, rx = _rounding_before(fn, "index")
    if rx != "position":
        raise ExtractError("SetDimension.index_of: index is not rounded from position")
    info["setHitTol"] = (r, a)
    info["setRounding"] = rf
    for k in ("sampledZeroTol", "sampledHitTol", "setHitTol"):
        for v in info[k]:
            if v != v or v in (float("inf"), float("-inf")):
                raise ExtractError("%s: tolerance is not finite" % k)
    return info


def render(info):
    L = []
    L.append("/- GENERATED by harness/extract/dims.py from nixio/dimensions.py — do not edit. -/")
    L.append("namespace Nix.Dim.Gen")
    L.append("")
    L.append("/-- tolerances of one `np.isclose(a, b, rtol, atol)` call: `|a - b| ≤ atol + rtol * |b|` -/")
    L.append("structure Tol where")
    L.append("  rtol : Rat")
    L.append("  atol : Rat")
    L.append("")
    L.append("/-- members of `IndexMode` / `SliceMode` (name, value), in source order, aliases included -/")
    L.append("def indexModes : List (String × String) := %s" % _pairs(info["indexModes"]))
    L.append("def sliceModes : List (String × String) := %s" % _pairs(info["sliceModes"]))
    L.append("/-- `SliceMode.to_index_mode`: (slice mode member, index mode member) -/")
    L.append("def toIndexMode : List (String × String) := %s" % _pairs(info["toIndexMode"]))
    L.append("/-- `end_mode = IndexMode.A if mode == SliceMode.X else IndexMode.B` in `range_indices`: (X, A, B) -/")
    for k in ("sampledEndMode", "rangeEndMode", "setEndMode"):
        x, a, b = info[k]
        L.append("def %s : String × String × String := (%s, %s, %s)" % (k, lean_str(x), lean_str(a), lean_str(b)))
    L.append("")
    L.append("/-- `SampledDimension.index_of`: the guard `np.isclose(<x>, 0, …) and mode == Less`;")
    L.append("`sampledZeroOnScaled` says whether `<x>` is `scaled_position` (true) or the raw `position` -/")
    L.append("def sampledZeroOnScaled : Bool := %s" % lean_bool(info["sampledZeroOnScaled"]))
    L.append("def sampledZeroTol : Tol := %s" % _tol(*info["sampledZeroTol"]))
    L.append("/-- `SampledDimension.index_of`: `np.isclose(scaled_position, index, …)` -/")
    L.append("def sampledHitTol : Tol := %s" % _tol(*info["sampledHitTol"]))
    L.append("/-- `SetDimension.index_of`: `np.isclose(position, index, …)` -/")
    L.append("def setHitTol : Tol := %s" % _tol(*info["setHitTol"]))
    L.append("/-- `index = int(np.<f>(…))` in front of the hit test -/")
    L.append("def sampledRounding : String := %s" % lean_str(info["sampledRounding"]))
    L.append("def setRounding : String := %s" % lean_str(info["setRounding"]))
    L.append("")
    L.append("end Nix.Dim.Gen")
    return "\n".join(L) + "\n"


# ---------------------------------------------------------------------------------------
# decision shape of the three index_of methods  ->  NixModel/Generated/DimShape.lean

OUT_SHAPE = "NixModel/Generated/DimShape.lean"
_VALS = {"position": ".position", "scaled_position": ".scaled", "index": ".index"}
_CMP_WHERE = {ast.LtE: "le", ast.Lt: "lt", ast.GtE: "ge", ast.Gt: "gt"}


def _src_of(node):
    return "line %d" % getattr(node, "lineno", -1)


def _is_len_minus_1(node, seq):
    return (isinstance(node, ast.BinOp) and isinstance(node.op, ast.Sub) and isinstance(node.right, ast.Constant)
            and node.right.value == 1 and _is_len(node.left, seq))


def _is_len(node, seq):
    return (isinstance(node, ast.Call) and isinstance(node.func, ast.Name) and node.func.id == "len"
            and len(node.args) == 1 and isinstance(node.args[0], ast.Name) and node.args[0].id == seq
            and not node.keywords)


def _val(node, seq):
    """numeric operand of a comparison"""
    if isinstance(node, ast.Name) and node.id in _VALS:
        return _VALS[node.id]
    if isinstance(node, ast.Constant) and node.value == 0 and not isinstance(node.value, bool):
        return ".zero"
    if isinstance(node, ast.Subscript) and isinstance(node.value, ast.Name) and node.value.id == seq == "ticks":
        ix = node.slice
        if isinstance(ix, ast.Constant) and ix.value == 0:
            return ".first"
        if isinstance(ix, ast.UnaryOp) and isinstance(ix.op, ast.USub) and isinstance(ix.operand, ast.Constant) \
                and ix.operand.value == 1:
            return ".last"
    if seq and _is_len_minus_1(node, seq):
        return ".lenMinus1"
    raise ExtractError("index_of: operand not recognised (%s)" % _src_of(node))


def _mode_member(node):
    return _attr_of(node, "IndexMode")


def _test(node, seq, closes):
    if isinstance(node, ast.BoolOp) and isinstance(node.op, ast.And):
        parts = [_test(v, seq, closes) for v in node.values]
        out = parts[-1]
        for p in reversed(parts[:-1]):
            out = "(.and %s %s)" % (p, out)
        return out
    if isinstance(node, ast.Name) and node.id == seq == "dim_labels":
        return ".hasLabels"
    if seq == "dim_labels" and _is_len(node, seq):
        return ".hasLabels"
    if _is_np_call(node, "isclose"):
        k = closes.index(node)
        return "(.close %d %s %s)" % (k, _val(node.args[0], seq), _val(node.args[1], seq))
    if isinstance(node, ast.Compare) and len(node.ops) == 1:
        op, left, right = node.ops[0], node.left, node.comparators[0]
        if isinstance(left, ast.Name) and left.id == "mode":
            if isinstance(op, ast.Eq):
                return "(.modeIs %s)" % lean_str(_mode_member(right))
            if isinstance(op, ast.In) and isinstance(right, (ast.Tuple, ast.List)):
                return "(.modeIn %s)" % lean_list([lean_str(_mode_member(e)) for e in right.elts])
            raise ExtractError("index_of: test on mode not recognised (%s)" % _src_of(node))
        a, b = _val(left, seq), _val(right, seq)
        if isinstance(op, ast.Lt):
            return "(.lt %s %s)" % (a, b)
        if isinstance(op, ast.Gt):
            return "(.gt %s %s)" % (a, b)
        if isinstance(op, ast.Eq):
            return "(.eq %s %s)" % (a, b)
        if isinstance(op, ast.LtE):      # a <= b  ==  not (a > b): not in the language on purpose
            raise ExtractError("index_of: `<=` guard is not modelled (%s)" % _src_of(node))
    raise ExtractError("index_of: test not recognised (%s)" % _src_of(node))


def _result(node, seq):
    """expression of a `return`"""
    if isinstance(node, ast.Name) and node.id == "index":
        return ".index"
    if isinstance(node, ast.Constant) and node.value == 0 and not isinstance(node.value, bool):
        return ".zero"
    if isinstance(node, ast.BinOp) and isinstance(node.left, ast.Name) and node.left.id == "index" \
            and isinstance(node.right, ast.Constant) and node.right.value == 1:
        if isinstance(node.op, ast.Add):
            return ".indexPlus1"
        if isinstance(node.op, ast.Sub):
            return ".indexMinus1"
    if seq and _is_len_minus_1(node, seq):
        return ".lenMinus1"
    # np.where(ticks <cmp> position)[0][-1 | 0]
    if isinstance(node, ast.Subscript) and isinstance(node.value, ast.Subscript):
        inner = node.value
        if _is_np_call(inner.value, "where") and isinstance(inner.slice, ast.Constant) and inner.slice.value == 0 \
                and len(inner.value.args) == 1 and isinstance(inner.value.args[0], ast.Compare):
            cmp_ = inner.value.args[0]
            if (len(cmp_.ops) == 1 and type(cmp_.ops[0]) in _CMP_WHERE and isinstance(cmp_.left, ast.Name)
                    and cmp_.left.id == "ticks" and isinstance(cmp_.comparators[0], ast.Name)
                    and cmp_.comparators[0].id == "position"):
                c = _CMP_WHERE[type(cmp_.ops[0])]
                ix = node.slice
                if isinstance(ix, ast.Constant) and ix.value == 0:
                    return "(.whereFirst %s)" % lean_str(c)
                if isinstance(ix, ast.UnaryOp) and isinstance(ix.op, ast.USub) and isinstance(ix.operand, ast.Constant) \
                        and ix.operand.value == 1:
                    return "(.whereLast %s)" % lean_str(c)
    raise ExtractError("index_of: returned expression not recognised (%s)" % _src_of(node))


def _is_prelude(st, seq):
    """statements that only fetch / convert the sequence: `if x is None: x = self.<attr>`, `ticks = np.array(ticks)`,
    `offset = …`, `sample = …`, `scaled_position = (position - offset) / sample`, the docstring"""
    if isinstance(st, ast.Expr) and isinstance(st.value, ast.Constant):
        return True
    if isinstance(st, ast.If) and isinstance(st.test, ast.Compare) and isinstance(st.test.ops[0], ast.Is) \
            and isinstance(st.test.left, ast.Name) and st.test.left.id == seq and not st.orelse \
            and len(st.body) == 1 and isinstance(st.body[0], ast.Assign) \
            and isinstance(st.body[0].targets[0], ast.Name) and st.body[0].targets[0].id == seq \
            and isinstance(st.body[0].value, ast.Attribute) and isinstance(st.body[0].value.value, ast.Name) \
            and st.body[0].value.value.id == "self":
        return True
    if isinstance(st, ast.Assign) and len(st.targets) == 1 and isinstance(st.targets[0], ast.Name):
        t = st.targets[0].id
        if t == seq == "ticks" and _is_np_call(st.value, "array") and len(st.value.args) == 1 \
                and isinstance(st.value.args[0], ast.Name) and st.value.args[0].id == "ticks":
            return True
        if t == "offset":
            # offset = self.offset if self.offset else 0
            v = st.value
            return (isinstance(v, ast.IfExp) and isinstance(v.orelse, ast.Constant) and v.orelse.value == 0
                    and ast.dump(v.test) == ast.dump(v.body) and isinstance(v.body, ast.Attribute)
                    and v.body.attr == "offset")
        if t == "sample":
            return isinstance(st.value, ast.Attribute) and st.value.attr == "sampling_interval"
        if t == "scaled_position":
            v = st.value
            return (isinstance(v, ast.BinOp) and isinstance(v.op, ast.Div) and isinstance(v.right, ast.Name)
                    and v.right.id == "sample" and isinstance(v.left, ast.BinOp) and isinstance(v.left.op, ast.Sub)
                    and isinstance(v.left.left, ast.Name) and v.left.left.id == "position"
                    and isinstance(v.left.right, ast.Name) and v.left.right.id == "offset")
    return False


def _terminates(stmts):
    """does every path through the statement list end in return / raise?"""
    if not stmts:
        return False
    last = stmts[-1]
    if isinstance(last, (ast.Return, ast.Raise)):
        return True
    if isinstance(last, ast.If):
        return bool(last.orelse) and _terminates(last.body) and _terminates(last.orelse)
    return False


def _tree(stmts, seq, closes, where):
    """statement list -> Tree term"""
    if not stmts:
        raise ExtractError("%s: a path ends without return / raise" % where)
    st, rest = stmts[0], stmts[1:]
    if _is_prelude(st, seq):
        return _tree(rest, seq, closes, where)
    if isinstance(st, ast.Return):
        return "(.ret %s)" % _result(st.value, seq)
    if isinstance(st, ast.Raise):
        exc = st.exc
        if isinstance(exc, ast.Call) and isinstance(exc.func, ast.Name):
            return "(.raise %s)" % lean_str(exc.func.id)
        raise ExtractError("%s: raise not recognised (%s)" % (where, _src_of(st)))
    if isinstance(st, ast.Assign) and len(st.targets) == 1 and isinstance(st.targets[0], ast.Name) \
            and st.targets[0].id == "index":
        v = st.value
        if (isinstance(v, ast.Call) and isinstance(v.func, ast.Name) and v.func.id == "int" and len(v.args) == 1
                and isinstance(v.args[0], ast.Call) and isinstance(v.args[0].func, ast.Attribute)
                and isinstance(v.args[0].func.value, ast.Name) and v.args[0].func.value.id == "np"
                and v.args[0].func.attr in ("round", "floor", "ceil") and len(v.args[0].args) == 1):
            return "(.setIndex %s %s %s)" % (lean_str(v.args[0].func.attr), _val(v.args[0].args[0], seq),
                                             _tree(rest, seq, closes, where))
        raise ExtractError("%s: assignment to index not recognised (%s)" % (where, _src_of(st)))
    if isinstance(st, ast.If):
        body = list(st.body) if _terminates(st.body) else list(st.body) + rest
        orelse = (list(st.orelse) if _terminates(st.orelse) else list(st.orelse) + rest) if st.orelse else rest
        return "(.ite %s %s %s)" % (_test(st.test, seq, closes), _tree(body, seq, closes, where),
                                    _tree(orelse, seq, closes, where))
    raise ExtractError("%s: statement not recognised (%s)" % (where, _src_of(st)))


def read_shapes(repo):
    path = os.path.join(repo, SRC)
    tree = ast.parse(open(path, encoding="utf-8").read())
    out = {}
    for cls, seq, name in (("SampledDimension", None, "sampledIndexOfTree"), ("RangeDimension", "ticks", "rangeIndexOfTree"),
                           ("SetDimension", "dim_labels", "setIndexOfTree")):
        fn = _fn(_cls(tree, cls), "index_of")
        closes = [c for c, _, _ in _isclose_calls(fn)]
        out[name] = _tree(list(fn.body), seq, closes, cls + ".index_of")
    return out


def render_shapes(shapes):
    L = ["/- GENERATED by harness/extract/dims.py from nixio/dimensions.py — do not edit. -/",
         "import NixModel.Pure.DimShapeLang", "namespace Nix.Dim.Gen", "open Nix.Dim.Shape", "",
         "/-- decision shape of the three `index_of` methods (order of the guards, comparison per guard, rounding call,",
         "`np.where` scan, result / exception per mode), see `Pure/DimShapeLang.lean` -/"]
    for k in ("sampledIndexOfTree", "rangeIndexOfTree", "setIndexOfTree"):
        L.append("def %s : Tree :=" % k)
        L.append("  " + shapes[k][1:-1] if shapes[k].startswith("(") else "  " + shapes[k])
        L.append("")
    L.append("end Nix.Dim.Gen")
    return "\n".join(L) + "\n"


def extract(repo):
    return {OUT: render(read(repo)), OUT_SHAPE: render_shapes(read_shapes(repo))}


if __name__ == "__main__":
    import sys
    print(render(read(sys.argv[1] if len(sys.argv) > 1 else "/repo")))
    print(render_shapes(read_shapes(sys.argv[1] if len(sys.argv) > 1 else "/repo")))
