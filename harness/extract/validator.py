"""Translator: nixio/validator.py  ->  NixModel/Generated/ValidatorCatalogue.lean

Parses the Python source with `ast` (never imports it) and renders
 * the message catalogue of `class ValidationError` as an inductive `MsgId` (one constructor per class
   attribute, in source order) with its template text and number of `{}` placeholders,
 * the identifiers of `class ValidationWarning` (names only; warnings are outside C14),
 * for every module-level function, the `ValidationError.<X>` identifiers it refers to, in source order
   (`emits`), and which of them are wrapped as "feature {}: {}" / "property {}: {}",
 * the order in which `check_file` visits the containers of a block (`blockOrder`),
 * for every reference to a `ValidationError` identifier the conditions it sits under (`reportSites`: which test
   guards which message, nested in which other test / loop / handler), and the normalised statements of the two
   verdict helpers `get_dim_units`, `tag_units_match_refs_units` (`helperShapes`).
Anything it does not recognise raises ExtractError (a broken tie, handled by the check).
"""
import ast
import os
import re

from .leanfmt import ExtractError, lean_str, lean_list

REL = os.path.join("nixio", "validator.py")
IDENT = re.compile(r"^[A-Za-z_][A-Za-z0-9_]*$")


def _class(tree, name):
    for n in tree.body:
        if isinstance(n, ast.ClassDef) and n.name == name:
            return n
    raise ExtractError("class %s not found in validator.py" % name)


def _str_value(node, where):
    """a (possibly parenthesised / implicitly concatenated / '+'-joined) string constant"""
    if isinstance(node, ast.Constant) and isinstance(node.value, str):
        return node.value
    if isinstance(node, ast.BinOp) and isinstance(node.op, ast.Add):
        return _str_value(node.left, where) + _str_value(node.right, where)
    raise ExtractError("%s is not a string constant" % where)


def catalogue(cls):
    out = []
    for st in cls.body:
        if isinstance(st, ast.Expr) and isinstance(st.value, ast.Constant):
            continue  # docstring
        if isinstance(st, ast.Pass):
            continue
        if not (isinstance(st, ast.Assign) and len(st.targets) == 1 and isinstance(st.targets[0], ast.Name)):
            raise ExtractError("%s: unrecognised class body statement at line %d" % (cls.name, st.lineno))
        name = st.targets[0].id
        if not IDENT.match(name):
            raise ExtractError("%s.%s is not a plain identifier" % (cls.name, name))
        text = _str_value(st.value, "%s.%s" % (cls.name, name))
        stripped = text.replace("{}", "")
        if "{" in stripped or "}" in stripped:
            raise ExtractError("%s.%s uses a format field other than '{}'" % (cls.name, name))
        out.append((name, text, text.count("{}")))
    names = [n for n, _, _ in out]
    if len(set(names)) != len(names):
        raise ExtractError("%s defines an identifier twice" % cls.name)
    return out


def emissions(tree, ids):
    """[(function, [ValidationError identifiers referenced, in source order])]"""
    out = []
    for fn in tree.body:
        if not isinstance(fn, ast.FunctionDef):
            continue
        refs = []
        for n in ast.walk(fn):
            if (isinstance(n, ast.Attribute) and isinstance(n.value, ast.Name)
                    and n.value.id == "ValidationError"):
                if n.attr not in ids:
                    raise ExtractError("%s refers to unknown ValidationError.%s" % (fn.name, n.attr))
                refs.append((n.lineno, n.col_offset, n.attr))
        refs.sort()
        out.append((fn.name, [r[2] for r in refs]))
    return out


def wrappers(tree):
    """the '<word> {}: {}' wrappers used by check_feature / check_property"""
    out = []
    for fn in tree.body:
        if isinstance(fn, ast.FunctionDef):
            for n in ast.walk(fn):
                if (isinstance(n, ast.Call) and isinstance(n.func, ast.Attribute) and n.func.attr == "format"
                        and isinstance(n.func.value, ast.Constant) and isinstance(n.func.value.value, str)):
                    m = re.match(r"^(\w+) \{\}: \{\}$", n.func.value.value)
                    if not m:
                        raise ExtractError("%s: unrecognised message wrapper %r" % (fn.name, n.func.value.value))
                    if (fn.name, m.group(1)) not in out:
                        out.append((fn.name, m.group(1)))
    return out


def block_order(tree):
    """container attribute names visited by the `for block in nixfile.blocks` loop of check_file, in order"""
    cf = None
    for fn in tree.body:
        if isinstance(fn, ast.FunctionDef) and fn.name == "check_file":
            cf = fn
    if cf is None:
        raise ExtractError("check_file not found")
    loop = None
    for st in cf.body:
        if (isinstance(st, ast.For) and isinstance(st.iter, ast.Attribute) and st.iter.attr == "blocks"):
            loop = st
    if loop is None:
        raise ExtractError("check_file: loop over nixfile.blocks not found")
    order = []
    for st in loop.body:
        if isinstance(st, ast.For) and isinstance(st.iter, ast.Attribute):
            order.append(st.iter.attr)
        elif (isinstance(st, ast.Expr) and isinstance(st.value, ast.Call)
              and isinstance(st.value.func, ast.Name) and st.value.func.id == "traverse_sources"):
            order.append("sources")
    tail = []
    seen_loop = False
    for st in cf.body:
        if st is loop:
            seen_loop = True
        elif seen_loop and (isinstance(st, ast.Expr) and isinstance(st.value, ast.Call)
                            and isinstance(st.value.func, ast.Name)):
            tail.append(st.value.func.id)
    return order, tail


def report_sites(tree):
    """[(function, identifier, [enclosing conditions, outermost first])] for every reference to `ValidationError.<X>`
    in a module-level function, in source order.  A condition is the normalised source (`ast.unparse`) of the `if`
    test (prefixed by `not` in the else branch), `for <target> in <iter>` for a loop, `except <class>` for a handler:
    the *shape* of the check functions - which test guards which message, and inside which other test"""
    out = []

    def refs(node):
        found = []
        for n in ast.walk(node):
            if isinstance(n, ast.Attribute) and isinstance(n.value, ast.Name) and n.value.id == "ValidationError":
                found.append((n.lineno, n.col_offset, n.attr))
        return [a for _l, _c, a in sorted(found)]

    def walk(fn, stmts, guards):
        for st in stmts:
            if isinstance(st, ast.If):
                t = ast.unparse(st.test)
                for a in refs(st.test):
                    out.append((fn, a, guards))
                walk(fn, st.body, guards + [t])
                walk(fn, st.orelse, guards + ["not (%s)" % t])
            elif isinstance(st, ast.For):
                g = "for %s in %s" % (ast.unparse(st.target), ast.unparse(st.iter))
                walk(fn, st.body, guards + [g])
                walk(fn, st.orelse, guards)
            elif isinstance(st, ast.Try):
                walk(fn, st.body, guards)
                for h in st.handlers:
                    walk(fn, h.body, guards + ["except %s" % (ast.unparse(h.type) if h.type is not None else "")])
                walk(fn, st.orelse, guards)
                walk(fn, st.finalbody, guards)
            elif isinstance(st, ast.FunctionDef):
                walk(fn, st.body, guards)
            elif isinstance(st, (ast.While, ast.With, ast.Match)):
                if refs(st):
                    raise ExtractError("%s: ValidationError used inside a %s statement (line %d)"
                                       % (fn, type(st).__name__, st.lineno))
            else:
                for a in refs(st):
                    out.append((fn, a, guards))

    for fn in tree.body:
        if isinstance(fn, ast.FunctionDef):
            walk(fn.name, fn.body, [])
    return out


def helper_shapes(tree):
    """normalised source of the helper functions the check functions call for their verdicts (no messages of their
    own): get_dim_units, tag_units_match_refs_units - statement by statement"""
    out = []
    for fn in tree.body:
        if isinstance(fn, ast.FunctionDef) and fn.name in ("get_dim_units", "tag_units_match_refs_units"):
            body = [st for st in fn.body
                    if not (isinstance(st, ast.Expr) and isinstance(st.value, ast.Constant))]   # docstring
            lines = []
            for st in body:
                lines += ast.unparse(st).split("\n")
            out.append((fn.name, [" ".join(l.split()) for l in lines]))
    if len(out) != 2:
        raise ExtractError("helper functions get_dim_units / tag_units_match_refs_units not found")
    return out


def extract(repo):
    path = os.path.join(repo, REL)
    tree = ast.parse(open(path, encoding="utf-8").read())
    errs = catalogue(_class(tree, "ValidationError"))
    warns = catalogue(_class(tree, "ValidationWarning"))
    if not errs:
        raise ExtractError("ValidationError catalogue is empty")
    ids = [n for n, _, _ in errs]
    emits = emissions(tree, set(ids))
    wraps = wrappers(tree)
    order, tail = block_order(tree)
    sites = report_sites(tree)
    for fn_, a, _g in sites:
        if a not in ids:
            raise ExtractError("%s refers to unknown ValidationError.%s" % (fn_, a))
    helpers = helper_shapes(tree)

    L = []
    L.append("/- GENERATED by harness/extract/validator.py from nixio/validator.py — do not edit. -/")
    L.append("namespace Nix.Validator.Gen")
    L.append("")
    L.append("/-- identifiers of `class ValidationError`, in source order -/")
    L.append("inductive MsgId where")
    for n in ids:
        L.append("  | %s" % n)
    L.append("  deriving DecidableEq, Repr")
    L.append("")
    L.append("def MsgId.all : List MsgId := " + lean_list("." + n for n in ids))
    L.append("")
    L.append("def MsgId.name : MsgId → String")
    for n in ids:
        L.append("  | .%s => %s" % (n, lean_str(n)))
    L.append("")
    L.append("/-- the message template (`{}` = one positional format field) -/")
    L.append("def MsgId.template : MsgId → String")
    for n, t, _ in errs:
        L.append("  | .%s => %s" % (n, lean_str(t)))
    L.append("")
    L.append("/-- number of `{}` fields of the template -/")
    L.append("def MsgId.arity : MsgId → Nat")
    for n, _, a in errs:
        L.append("  | .%s => %d" % (n, a))
    L.append("")
    L.append("def warningIds : List String := " + lean_list(lean_str(n) for n, _, _ in warns))
    L.append("")
    L.append("/-- `ValidationError.<X>` identifiers referred to by each module-level function, in source order -/")
    L.append("def emits : List (String × List MsgId) := [")
    L.append(",\n".join("  (%s, %s)" % (lean_str(fn), lean_list("." + r for r in refs)) for fn, refs in emits))
    L.append("]")
    L.append("")
    L.append("/-- `\"<word> {}: {}\".format(idx, msg)` wrappers: (function, word) -/")
    L.append("def wrappers : List (String × String) := " +
             lean_list("(%s, %s)" % (lean_str(f), lean_str(w)) for f, w in wraps))
    L.append("")
    L.append("/-- every reference to `ValidationError.<X>`: (function, identifier, enclosing conditions outermost first) -/")
    L.append("def reportSites : List (String × MsgId × List String) := [")
    L.append(",\n".join("  (%s, .%s, %s)" % (lean_str(fn_), a, lean_list(lean_str(g) for g in gs))
                         for fn_, a, gs in sites))
    L.append("]")
    L.append("")
    L.append("/-- normalised statements of the verdict helpers -/")
    L.append("def helperShapes : List (String × List String) := [")
    L.append(",\n".join("  (%s, %s)" % (lean_str(fn_), lean_list(lean_str(l) for l in ls)) for fn_, ls in helpers))
    L.append("]")
    L.append("")
    L.append("/-- containers visited inside the `for block in nixfile.blocks` loop of check_file, in order -/")
    L.append("def blockOrder : List String := " + lean_list(lean_str(o) for o in order))
    L.append("/-- traversals called after the block loop -/")
    L.append("def afterBlocks : List String := " + lean_list(lean_str(o) for o in tail))
    L.append("")
    L.append("end Nix.Validator.Gen")
    return {"NixModel/Generated/ValidatorCatalogue.lean": "\n".join(L) + "\n"}


if __name__ == "__main__":
    import sys
    for k, v in extract(sys.argv[1] if len(sys.argv) > 1 else "/repo").items():
        print("==", k)
        print(v)
