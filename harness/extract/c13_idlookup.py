"""Translator: nixio/container.py, nixio/hdf5/h5group.py, nixio/section.py, nixio/entity.py, nixio/util/util.py
                 ->  NixModel/Generated/IdLookup.lean                         (property C13)

The look-up chain behind every "is child of" test (`self.id in sect.sections`) and the id texts it meets, in the
vocabulary of `NixModel/Pure/TreeIds.lean`:

  * `H5Group.get_by_id(id_)`: what the stored `entity_id` of each child is compared with - the parameter as given
    (`id_`, `str(id_)`) or its canonical form (`str(UUID(str(id_)))`, `util.canonical_id(id_)`, through one
    optional re-binding statement `id_ = <that>` before the loop)                       -> `idKey`
  * `Section.create_new` (and the `oid` argument `Section.create_section` / `File.create_section` hand to it): what
    is stored as `entity_id` when `util.is_uuid(oid)`                                          -> `stored`

and, matched literally (ExtractError otherwise): `Container.__contains__` for a key that is not an entity
(`if util.is_uuid(item): try: self._backend.get_by_id(item); return True / except KeyError: pass`, then
`return item in self._backend`, `str(item)` allowed), `H5Group.__contains__` (`item in self.group`), the loop of
`get_by_id` (`for item in self: if item.get_attr("entity_id") == <key>: return item`, `raise KeyError`),
`Entity.id` (`return self._h5group.get_attr("entity_id")`), `Entity.__eq__` (`self.id == other.id`),
`util.is_uuid` (`UUID(str(id_str))`, ValueError -> False).
"""
import ast
import os

from .leanfmt import ExtractError

TARGET = "NixModel/Generated/IdLookup.lean"


def _parse(repo, rel):
    with open(os.path.join(repo, rel), encoding="utf-8") as fh:
        return ast.parse(fh.read(), filename=rel)


def _u(node):
    return ast.unparse(node)


def _body(fn):
    return [s for s in fn.body
            if not (isinstance(s, ast.Expr) and isinstance(s.value, ast.Constant) and isinstance(s.value.value, str))]


def _cls(tree, name, rel):
    for n in tree.body:
        if isinstance(n, ast.ClassDef) and n.name == name:
            return n
    raise ExtractError("%s: no class %s" % (rel, name))


def _func(scope, name, where):
    found = None
    for n in scope.body:
        if isinstance(n, ast.FunctionDef) and n.name == name:
            found = n
    if found is None:
        raise ExtractError("%s: no function %s" % (where, name))
    return found


def _same(stmts, texts, where):
    got = [_u(s) for s in stmts]
    want = [_u(ast.parse(t).body[0]) for t in texts]
    if got != want:
        raise ExtractError("%s is no longer\n%s\nbut\n%s" % (where, "\n".join(want), "\n".join(got)))


def _norm(node, var, where):
    """the treatment of the text in variable `var`: `.asGiven` / `.canonical`"""
    t = _u(node)
    if t in (var, "str(%s)" % var):
        return ".asGiven"
    if t in ("str(UUID(str(%s)))" % var, "str(UUID(%s))" % var, "str(uuid.UUID(str(%s)))" % var,
             "str(uuid.UUID(%s))" % var, "util.canonical_id(%s)" % var, "canonical_id(%s)" % var):
        return ".canonical"
    raise ExtractError("%s: cannot express `%s` (expected %s as given or its canonical uuid text)" % (where, t, var))


def _canonical_helper_ok(repo):
    """`canonical_id`, when the code uses it, must be `return str(UUID(str(id_)))`"""
    tree = _parse(repo, "nixio/util/util.py")
    for n in tree.body:
        if isinstance(n, ast.FunctionDef) and n.name == "canonical_id":
            b = _body(n)
            arg = n.args.args[0].arg if n.args.args else "?"
            if len(b) != 1 or _u(b[0]) != "return str(UUID(str(%s)))" % arg:
                raise ExtractError("util.canonical_id is not `return str(UUID(str(x)))`")
            return
    raise ExtractError("util.canonical_id is used but not defined in nixio/util/util.py")


def shapes(repo):
    # ---- util.is_uuid --------------------------------------------------------------------------
    util = _parse(repo, "nixio/util/util.py")
    fn = _func(util, "is_uuid", "nixio/util/util.py")
    _same(_body(fn), ["try:\n    UUID(str(id_str))\n    return True\nexcept ValueError:\n    return False"],
          "util.is_uuid")
    if not any(isinstance(n, ast.ImportFrom) and n.module == "uuid" and any(a.name == "UUID" and a.asname is None
                                                                            for a in n.names) for n in util.body):
        raise ExtractError("nixio/util/util.py: `UUID` is not uuid.UUID")
    # ---- Entity.id / __eq__ --------------------------------------------------------------------
    ent = _cls(_parse(repo, "nixio/entity.py"), "Entity", "nixio/entity.py")
    fn = _func(ent, "id", "Entity")
    if [_u(d) for d in fn.decorator_list] != ["property"]:
        raise ExtractError("Entity.id is not a plain property")
    _same(_body(fn), ["return self._h5group.get_attr('entity_id')"], "Entity.id")
    _same(_body(_func(ent, "__eq__", "Entity")), ["if hasattr(other, 'id'):\n    return self.id == other.id",
                                                   "return False"], "Entity.__eq__")
    # ---- Container.__contains__ (key that is not an entity) ------------------------------------
    cont = _cls(_parse(repo, "nixio/container.py"), "Container", "nixio/container.py")
    fn = _func(cont, "__contains__", "Container")
    b = _body(fn)
    if len(b) != 3 or not isinstance(b[0], ast.If) or _u(b[0].test) != "hasattr(item, 'id')":
        raise ExtractError("Container.__contains__: expected the entity branch, the id branch and the name fall-back")
    if not (b[0].body and isinstance(b[0].body[-1], ast.Raise)):
        raise ExtractError("Container.__contains__: the entity branch no longer ends the call")
    idb = b[1]
    if not isinstance(idb, ast.If) or idb.orelse or _u(idb.test) not in ("util.is_uuid(item)",):
        raise ExtractError("Container.__contains__: the id look-up is not guarded by `util.is_uuid(item)`")
    stmts = list(idb.body)
    if stmts and _u(stmts[-1]) == "item = str(item)":      # re-binding for the name fall-back: no change for a text
        stmts = stmts[:-1]
    if len(stmts) != 1 or not isinstance(stmts[0], ast.Try):
        raise ExtractError("Container.__contains__: unexpected statements in the id branch")
    tr = stmts[0]
    if [_u(s) for s in tr.body] not in (["self._backend.get_by_id(item)", "return True"],
                                        ["self._backend.get_by_id(str(item))", "return True"]) \
            or len(tr.handlers) != 1 or _u(tr.handlers[0].type) != "KeyError" \
            or [_u(s) for s in tr.handlers[0].body] != ["pass"] or tr.orelse or tr.finalbody:
        raise ExtractError("Container.__contains__: the id look-up is not `try: self._backend.get_by_id(item); "
                           "return True / except KeyError: pass`")
    if _u(b[2]) not in ("return item in self._backend", "return str(item) in self._backend"):
        raise ExtractError("Container.__contains__: the fall-back is not `return item in self._backend`")
    # ---- H5Group.__contains__ / get_by_id ------------------------------------------------------
    h5 = _cls(_parse(repo, "nixio/hdf5/h5group.py"), "H5Group", "nixio/hdf5/h5group.py")
    _same(_body(_func(h5, "__contains__", "H5Group")), ["if self.group is None:\n    return False",
                                                        "return item in self.group"], "H5Group.__contains__")
    fn = _func(h5, "get_by_id", "H5Group")
    if [a.arg for a in fn.args.args] != ["self", "id_"]:
        raise ExtractError("H5Group.get_by_id: parameters")
    b = _body(fn)
    id_key = ".asGiven"
    if len(b) == 3:
        st = b[0]
        if not (isinstance(st, ast.Assign) and len(st.targets) == 1 and _u(st.targets[0]) == "id_"):
            raise ExtractError("H5Group.get_by_id: unexpected first statement `%s`" % _u(st))
        id_key = _norm(st.value, "id_", "H5Group.get_by_id")
        b = b[1:]
    if len(b) != 2 or not isinstance(b[0], ast.If) or _u(b[0].test) != "self.group" or b[0].orelse \
            or len(b[0].body) != 1 or not isinstance(b[0].body[0], ast.For):
        raise ExtractError("H5Group.get_by_id: expected `if self.group: for item in self: ...` then `raise KeyError`")
    loop = b[0].body[0]
    if _u(loop.target) != "item" or _u(loop.iter) != "self" or loop.orelse or len(loop.body) != 1 \
            or not isinstance(loop.body[0], ast.If) or loop.body[0].orelse \
            or [_u(s) for s in loop.body[0].body] != ["return item"]:
        raise ExtractError("H5Group.get_by_id: the loop is not `for item in self: if <test>: return item`")
    test = loop.body[0].test
    if not (isinstance(test, ast.Compare) and len(test.ops) == 1 and isinstance(test.ops[0], ast.Eq)):
        raise ExtractError("H5Group.get_by_id: the test is not an `==` comparison")
    left, right = test.left, test.comparators[0]
    if _u(right) in ("item.get_attr('entity_id')",):
        left, right = right, left
    if _u(left) != "item.get_attr('entity_id')":
        raise ExtractError("H5Group.get_by_id: the stored `entity_id` is not compared as it is stored (`%s`)" % _u(left))
    inner = _norm(right, "id_", "H5Group.get_by_id")
    if inner == ".canonical":
        id_key = ".canonical"
    if not (isinstance(b[1], ast.Raise) and _u(b[1].exc).startswith("KeyError(")):
        raise ExtractError("H5Group.get_by_id: does not end with `raise KeyError`")
    # ---- Section.create_new: the id stored for a supplied oid ------------------------------------
    sec = _cls(_parse(repo, "nixio/section.py"), "Section", "nixio/section.py")
    fn = _func(sec, "create_new", "Section")
    if [a.arg for a in fn.args.args] != ["cls", "nixfile", "nixparent", "h5parent", "name", "type_", "oid"]:
        raise ExtractError("Section.create_new: parameters")
    b = _body(fn)
    if len(b) != 3 or _u(b[0]) != "newentity = super(Section, cls).create_new(nixfile, nixparent, h5parent, name, type_)" \
            or _u(b[2]) != "return newentity" or not isinstance(b[1], ast.If) or b[1].orelse \
            or _u(b[1].test) != "util.is_uuid(oid)" or len(b[1].body) != 1:
        raise ExtractError("Section.create_new: expected the base create_new, `if util.is_uuid(oid): <store>`, return")
    call = b[1].body[0]
    if not (isinstance(call, ast.Expr) and isinstance(call.value, ast.Call)
            and _u(call.value.func) == "newentity._h5group.set_attr" and len(call.value.args) == 2
            and _u(call.value.args[0]) == "'entity_id'" and not call.value.keywords):
        raise ExtractError("Section.create_new: the supplied id is not stored with set_attr('entity_id', ...)")
    stored = _norm(call.value.args[1], "oid", "Section.create_new")
    # ---- the two public creators hand the oid on -------------------------------------------------
    filecls = _cls(_parse(repo, "nixio/file.py"), "File", "nixio/file.py")
    for owner, where in ((sec, "Section.create_section"), (filecls, "File.create_section")):
        cfn = _func(owner, "create_section", where)
        if [a.arg for a in cfn.args.args] != ["self", "name", "type_", "oid"]:
            raise ExtractError("%s: parameters" % where)
        calls = [n for n in ast.walk(cfn) if isinstance(n, ast.Call) and _u(n.func) == "Section.create_new"]
        if len(calls) != 1 or len(calls[0].args) != 6 or calls[0].keywords:
            raise ExtractError("%s: expected one call Section.create_new(file, parent, group, name, type_, <oid>)" % where)
        if any(isinstance(n, (ast.Assign, ast.AugAssign, ast.AnnAssign)) and "oid" in
               [_u(t) for t in (n.targets if isinstance(n, ast.Assign) else [n.target])] for n in ast.walk(cfn)):
            raise ExtractError("%s: `oid` is re-bound before it is handed to Section.create_new" % where)
        if _norm(calls[0].args[5], "oid", where) == ".canonical":
            stored = ".canonical"
    if ".canonical" in (id_key, stored):
        _canonical_helper_ok(repo) if "canonical_id" in (_u(fn) + _u(_func(h5, "get_by_id", "H5Group"))) else None
    return {"idKey": id_key, "stored": stored}


def extract(repo):
    s = shapes(repo)
    text = ("import NixModel.Pure.TreeIds\n"
            "/-! GENERATED by harness/extract/c13_idlookup.py from nixio/container.py, hdf5/h5group.py, section.py, "
            "entity.py, util/util.py — do not edit. -/\n"
            "namespace Nix.Generated.IdLookup\nopen Nix.Tree.Ids\n\n"
            "/-- `H5Group.get_by_id` compares the stored `entity_id` with `idKey` of the parameter; "
            "`Section.create_new` stores `stored` of a supplied oid -/\n"
            "def shape : IdLookup := { idKey := %s, stored := %s }\n\n"
            "end Nix.Generated.IdLookup\n" % (s["idKey"], s["stored"]))
    return {TARGET: text}
