"""Translator: nixio/hdf5/h5group.py, block.py, file.py, section.py -> NixModel/Generated/CopyShape.lean  (property C20)

Parses the sources with `ast` (never imports them) and renders the *shape* of the copy code as values of the
types in `NixModel/Store/CopyShape.lean`:

  * `H5Group.copy`: open the destination group, HDF5 object copy, re-open the copy by name, the rename
    (`grp.attrs["name"] = name`), and the `if not keep_id:` branch - fresh id on the root, `visititems(change_id)`
    (guarded by `isinstance(grp, h5py.Group)` or not) and the *guards of the visitor* (`"entity_id" in igrp.attrs`,
    `isinstance(igrp, h5py.Group / h5py.Dataset)`, early returns);
  * the eight entry points (`File.create_block`, `Block.create_data_array / create_data_frame / create_tag /
    create_multi_tag` + `Block._copy_objects`, `Section.create_property`, `File.copy_section`,
    `Section.copy_section`): accepted class, destination container, default name, duplicate test (in which group,
    and *before* the copy), the arguments handed to `H5Group.copy` (`shallow=not children`, `keep_id=<own parameter>`),
    the re-adding loop for `children=False`, and how the result is fetched.

Statements outside this vocabulary (something done to the copy after the HDF5 copy, another lookup key for the
result, a changed order of test and copy ...) raise ExtractError: the tie is broken and the check goes looking
for a failing input. `Lemmas/C20Shape.lean` proves, for all arguments, that the interpretation of the generated
values is the hand-written model, so a changed guard / flag fails `lake build` on a named theorem.
"""
import ast
import os

from .leanfmt import ExtractError, lean_bool, lean_str

TARGET = "NixModel/Generated/CopyShape.lean"

KIND_OF_CLASS = {"Block": "block", "DataArray": "data_array", "DataFrame": "data_frame", "Tag": "tag",
                 "MultiTag": "multi_tag", "Property": "property", "Section": "section"}


def _parse(repo, rel):
    path = os.path.join(repo, *rel.split("/"))
    return ast.parse(open(path, encoding="utf-8").read())


def _cls(tree, name, rel):
    for n in tree.body:
        if isinstance(n, ast.ClassDef) and n.name == name:
            return n
    raise ExtractError("%s has no class %s" % (rel, name))


def _method(cls, name):
    fn = None
    for n in cls.body:
        if isinstance(n, ast.FunctionDef) and n.name == name:
            fn = n
    if fn is None:
        raise ExtractError("class %s has no method %s" % (cls.name, name))
    if fn.decorator_list:
        raise ExtractError("%s.%s is decorated" % (cls.name, name))
    return fn


def _stmts(body):
    """statements without docstrings / string statements / pass"""
    return [s for s in body if not (isinstance(s, ast.Expr) and isinstance(s.value, ast.Constant))
            and not isinstance(s, ast.Pass)]


def _u(node):
    return ast.unparse(node)


def _defaults(fn):
    """parameter name -> default (unparsed) for positional parameters"""
    a = fn.args
    if a.vararg or a.kwarg or a.kwonlyargs or a.posonlyargs:
        raise ExtractError("%s: unexpected parameter kinds" % fn.name)
    names = [x.arg for x in a.args]
    d = {}
    for nm, df in zip(names[len(names) - len(a.defaults):], a.defaults):
        d[nm] = _u(df)
    return names, d


# ------------------------------------------------------------------------------------------------
# H5Group.copy
# ------------------------------------------------------------------------------------------------


def _atom(test, var):
    """(VCond, outcome) list for a conjunction of visitor tests on `var`"""
    if isinstance(test, ast.BoolOp) and isinstance(test.op, ast.And):
        out = []
        for v in test.values:
            out += _atom(v, var)
        return out
    if isinstance(test, ast.UnaryOp) and isinstance(test.op, ast.Not):
        inner = _atom(test.operand, var)
        if len(inner) != 1:
            raise ExtractError("line %d: negated conjunction in the id visitor" % test.lineno)
        return [(inner[0][0], not inner[0][1])]
    s = _u(test)
    table = {"'entity_id' in %s.attrs" % var: (".hasEntityId", True),
             "'entity_id' not in %s.attrs" % var: (".hasEntityId", False),
             "isinstance(%s, h5py.Group)" % var: (".isGroup", True),
             "isinstance(%s, h5py.Dataset)" % var: (".isDataset", True)}
    if s not in table:
        raise ExtractError("line %d: test `%s` of the id visitor is not modelled" % (test.lineno, s))
    return [table[s]]


def _is_fresh_id_pair(stmts, var):
    """`id_ = util.create_id()` ; `<var>.attrs.modify('entity_id', np.bytes_(id_))`"""
    if len(stmts) != 2:
        return False
    a, b = stmts
    if not (isinstance(a, ast.Assign) and len(a.targets) == 1 and isinstance(a.targets[0], ast.Name)
            and _u(a.value) == "util.create_id()"):
        return False
    idv = a.targets[0].id
    return isinstance(b, ast.Expr) and _u(b.value) in (
        "%s.attrs.modify('entity_id', np.bytes_(%s))" % (var, idv),
        "%s.attrs.modify('entity_id', np.string_(%s))" % (var, idv))


def _visitor(fn):
    names, d = _defaults(fn)
    if len(names) != 2 or d:
        raise ExtractError("the id visitor must take (name, object)")
    var = names[1]
    body = _stmts(fn.body)
    if len(body) >= 2 and _is_fresh_id_pair(body[-2:], var):
        early, final = body[:-2], []
    elif body and isinstance(body[-1], ast.If) and not body[-1].orelse \
            and _is_fresh_id_pair(_stmts(body[-1].body), var):
        early, final = body[:-1], _atom(body[-1].test, var)
    else:
        raise ExtractError("line %d: the id visitor does not end with the assignment of a fresh id" % fn.lineno)
    guards = []
    for st in early:
        if isinstance(st, ast.If) and not st.orelse and len(st.body) == 1 and isinstance(st.body[0], ast.Return) \
                and st.body[0].value is None:
            inner = _atom(st.test, var)
            if len(inner) != 1:
                raise ExtractError("line %d: early return on a conjunction in the id visitor" % st.lineno)
            guards.append((inner[0][0], not inner[0][1]))
        else:
            raise ExtractError("line %d: id visitor statement `%s` is not modelled" % (st.lineno, _u(st)[:60]))
    return guards + final


def _h5copy_shape(repo):
    rel = "nixio/hdf5/h5group.py"
    fn = _method(_cls(_parse(repo, rel), "H5Group", rel), "copy")
    names, d = _defaults(fn)
    if names != ["self", "source", "dest", "name", "cls", "shallow", "keep_id"] or d.get("shallow") != "False" \
            or d.get("keep_id") != "True":
        raise ExtractError("H5Group.copy: signature changed: (%s) %s" % (", ".join(names), d))
    body = _stmts(fn.body)
    # argument checks in front of the copy (fix 6e5e1c9, f4ba150: asked before anything is copied) are pure: they
    # normalise / refuse an argument and write nothing. The model's flag is a Bool and its names are storable texts,
    # on which both are the identity, so they are dropped here (any other statement in that place breaks the tie).
    PRECHECKS = {"keep_id = bool(keep_id)",
                 "if isinstance(name, str):\n    name = str(name)\n    util.check_text_storable(name)"}
    if body and _u(body[0]) == "grp = self.group":
        k = 1
        while k < len(body) and _u(body[k]) in PRECHECKS:
            k += 1
        body = body[:1] + body[k:]
    expected_head = ["grp = self.group", "dest.open_group(cls, create=True)", "dest_grp = dest.group[cls]",
                     "grp.copy(source=source, dest=dest_grp, name=name, shallow=shallow)", "grp = dest_grp[name]"]
    head = [_u(s) for s in body[:5]]
    if head != expected_head:
        for h, e in zip(head + [""] * 5, expected_head):
            if h != e:
                raise ExtractError("H5Group.copy: expected `%s`, found `%s`" % (e, h))
    rest = body[5:]
    if not rest or _u(rest[-1]) != "return grp":
        raise ExtractError("H5Group.copy does not end with `return grp`")
    rest = rest[:-1]
    renames = False
    regen = None
    for st in rest:
        s = _u(st)
        if s == "grp.attrs['name'] = name" and not renames and regen is None:
            renames = True
        elif isinstance(st, ast.If) and _u(st.test) == "not keep_id" and not st.orelse and regen is None:
            regen = _regen(st.body)
        else:
            raise ExtractError("H5Group.copy line %d: statement `%s` is not modelled" % (st.lineno, s[:70]))
    return {"renames": renames, "regen": regen}


def _regen(stmts):
    stmts = _stmts(stmts)
    visitor = None
    root_fresh = False
    visits = False
    only_group = False
    i = 0
    while i < len(stmts):
        st = stmts[i]
        if isinstance(st, ast.FunctionDef) and visitor is None and not visits:
            visitor = st
            i += 1
        elif i + 1 < len(stmts) and _is_fresh_id_pair(stmts[i:i + 2], "grp") and not root_fresh and not visits:
            root_fresh = True
            i += 2
        elif visitor is not None and not visits and isinstance(st, ast.Expr) \
                and _u(st.value) == "grp.visititems(%s)" % visitor.name:
            visits = True
            i += 1
        elif visitor is not None and not visits and isinstance(st, ast.If) and not st.orelse \
                and _u(st.test) == "isinstance(grp, h5py.Group)" and len(_stmts(st.body)) == 1 \
                and _u(_stmts(st.body)[0]) == "grp.visititems(%s)" % visitor.name:
            visits = True
            only_group = True
            i += 1
        else:
            raise ExtractError("H5Group.copy line %d: statement `%s` under `if not keep_id` is not modelled"
                               % (st.lineno, _u(st)[:70]))
    guards = _visitor(visitor) if visitor is not None else []
    return {"rootFresh": root_fresh, "visits": visits, "visitOnlyGroupRoot": only_group, "guards": guards}


# ------------------------------------------------------------------------------------------------
# the entry points
# ------------------------------------------------------------------------------------------------

NAME_ERROR = "NameError"


def _file_handles(repo):
    """`self._data` / `self._metadata` of File are the root groups `data` / `metadata`, opened with create=True"""
    rel = "nixio/file.py"
    cls = _cls(_parse(repo, rel), "File", rel)
    init = _method(cls, "__init__")
    found = {}
    for n in ast.walk(init):
        if isinstance(n, ast.Assign) and len(n.targets) == 1:
            t = _u(n.targets[0])
            if t in ("self._data", "self._metadata"):
                v = _u(n.value)
                want = "self._root.open_group('%s', create=True)" % t.split("_")[-1]
                if v != want:
                    raise ExtractError("File.__init__: %s = %s (expected %s)" % (t, v, want))
                found[t] = t.split("_")[-1]
    for n in ast.walk(cls):
        if isinstance(n, ast.FunctionDef) and n.name != "__init__":
            for m in ast.walk(n):
                if isinstance(m, ast.Assign) and any(_u(t) in ("self._data", "self._metadata") for t in m.targets):
                    raise ExtractError("File.%s re-assigns a root group handle" % n.name)
    if set(found) != {"self._data", "self._metadata"}:
        raise ExtractError("File.__init__ does not open both root groups")
    return found


def _caller_body(where, stmts, obj, name, keep, children, handles, fixed_cls=None, cont_of_cls=None):
    """Walk the statements of one copy routine in order. Returns the CallerShape fields (without srcKind when the
    isinstance test is made by the caller of this routine). `fixed_cls`: name of a *parameter* that carries clsname."""
    sh = {"srcKind": None, "cls": None, "defaultsName": False, "dupGroup": "", "depth": ".deep",
          "forwardsKeepId": False, "readdsProps": False, "returnsByName": False, "returnExpr": None, "srcAddr": None}
    clsvar = fixed_cls
    cls_lit = None
    groups = dict(handles)          # expression -> group name (literal) or ("var", clsvar)
    copied = False
    src_ok = False
    stmts = _stmts(stmts)
    for i, st in enumerate(stmts):
        s = _u(st)
        last = i == len(stmts) - 1
        # --- isinstance test --------------------------------------------------------------------
        if isinstance(st, ast.If) and not st.orelse and s.startswith("if not isinstance(%s, " % obj) \
                and len(st.body) == 1 and isinstance(st.body[0], ast.Raise) and not copied:
            clsname = _u(st.test.operand.args[1])
            if clsname not in KIND_OF_CLASS:
                raise ExtractError("%s: isinstance test against %s" % (where, clsname))
            exc = _u(st.body[0].exc)
            if not exc.startswith("TypeError("):
                raise ExtractError("%s: wrong kind raises %s" % (where, exc[:30]))
            sh["srcKind"] = KIND_OF_CLASS[clsname]
        # --- clsname = "<literal>" ----------------------------------------------------------------
        elif isinstance(st, ast.Assign) and len(st.targets) == 1 and isinstance(st.targets[0], ast.Name) \
                and st.targets[0].id == "clsname" and isinstance(st.value, ast.Constant) \
                and isinstance(st.value.value, str) and not copied and clsvar is None:
            clsvar, cls_lit = "clsname", st.value.value
        # --- src = "<cls>/<name of the source>" ------------------------------------------------------
        # (a path: looked up from the group of the handle's `_parent`, see the receiver of the copy call below)
        elif s == "src = '{}/{}'.format(clsname, %s.name)" % obj and clsvar is not None and not copied and not src_ok:
            src_ok = True
            sh["srcAddr"] = ".parentPath"
        # --- src = the HDF5 object the handle of the source stands for ----------------------------------
        elif s == "src = %s._h5group.group" % obj and not copied and not src_ok:
            src_ok = True
            sh["srcAddr"] = ".object"
        # --- default name ---------------------------------------------------------------------------
        elif isinstance(st, ast.If) and not st.orelse and _u(st.test) == "not %s" % name \
                and [_u(x) for x in st.body] == ["%s = str(%s.name)" % (name, obj)] and not copied:
            sh["defaultsName"] = True
        # --- destination group opened ------------------------------------------------------------------
        elif isinstance(st, ast.Assign) and len(st.targets) == 1 and isinstance(st.targets[0], ast.Name) \
                and isinstance(st.value, ast.Call) and _u(st.value.func) == "self._h5group.open_group" and not copied:
            c = st.value
            args = [_u(a) for a in c.args] + ["%s=%s" % (k.arg, _u(k.value)) for k in c.keywords]
            if len(args) != 2 or args[1] not in ("True", "create=True"):
                raise ExtractError("%s: destination group opened without create=True: %s" % (where, s))
            a0 = c.args[0]
            if isinstance(a0, ast.Constant) and isinstance(a0.value, str):
                groups[st.targets[0].id] = a0.value
            elif isinstance(a0, ast.Name) and a0.id == clsvar:
                groups[st.targets[0].id] = ("var", clsvar)
            else:
                raise ExtractError("%s: destination group `%s` is not modelled" % (where, _u(a0)))
        # --- duplicate test ------------------------------------------------------------------------------
        elif isinstance(st, ast.If) and not st.orelse and isinstance(st.test, ast.Compare) and len(st.test.ops) == 1 \
                and isinstance(st.test.ops[0], ast.In) and _u(st.test.left) == name and len(st.body) == 1 \
                and isinstance(st.body[0], ast.Raise):
            if copied:
                raise ExtractError("%s: the duplicate test comes after the copy" % where)
            g = _u(st.test.comparators[0])
            if g not in groups:
                raise ExtractError("%s: duplicate test in `%s`, which is not an opened destination group" % (where, g))
            exc = _u(st.body[0].exc)
            if not exc.startswith(NAME_ERROR + "("):
                raise ExtractError("%s: existing name raises %s" % (where, exc[:30]))
            sh["dupGroup"] = groups[g]
        # --- the copy --------------------------------------------------------------------------------------
        elif isinstance(st, ast.Expr) and isinstance(st.value, ast.Call) \
                and _u(st.value.func) in ("%s._parent._h5group.copy" % obj, "%s._h5group.copy" % obj) and not copied:
            c = st.value
            if c.args:
                raise ExtractError("%s: positional arguments to H5Group.copy" % where)
            kw = {k.arg: _u(k.value) for k in c.keywords}
            if kw.get("source") != "src" or not src_ok:
                raise ExtractError("%s: the source of the copy is neither `<container>/<source name>` nor the HDF5 "
                                   "object of the source handle" % where)
            # a path is resolved by h5py from the receiver's group: it must be the group of the handle's parent;
            # an object is taken as it is (h5py ignores the receiver): the receiver is the handle's own group
            by_parent = _u(c.func) == "%s._parent._h5group.copy" % obj
            if by_parent != (sh["srcAddr"] == ".parentPath"):
                raise ExtractError("%s: source `%s` handed to `%s`: this way of naming the source is not modelled"
                                   % (where, sh["srcAddr"], _u(c.func)))
            if kw.get("dest") != "self._h5group" or kw.get("name") != name or kw.get("cls") != clsvar:
                raise ExtractError("%s: arguments of H5Group.copy changed: %s" % (where, kw))
            if "shallow" in kw:
                if children is None or kw["shallow"] != "not %s" % children:
                    raise ExtractError("%s: shallow=%s is not modelled" % (where, kw["shallow"]))
                sh["depth"] = ".notChildren"
            if "keep_id" in kw:
                if kw["keep_id"] != keep:
                    raise ExtractError("%s: keep_id=%s is not the caller's id policy" % (where, kw["keep_id"]))
                sh["forwardsKeepId"] = True
            if set(kw) - {"source", "dest", "name", "cls", "shallow", "keep_id"}:
                raise ExtractError("%s: unknown arguments to H5Group.copy: %s" % (where, sorted(kw)))
            copied = True
        # --- re-adding the properties of a shallow section copy ---------------------------------------------
        elif copied and children is not None and isinstance(st, ast.If) and not st.orelse \
                and _u(st.test) == "not %s" % children and len(st.body) == 1 and isinstance(st.body[0], ast.For) \
                and _u(st.body[0].iter) == "%s.props" % obj and not st.body[0].orelse \
                and [_u(x) for x in st.body[0].body] == [
                    "self.sections[%s].create_property(copy_from=%s, keep_copy_id=%s)" % (
                        name, _u(st.body[0].target), keep)]:
            sh["readdsProps"] = True
        # --- result -------------------------------------------------------------------------------------------
        elif copied and last and isinstance(st, ast.Return) and st.value is not None:
            sh["returnExpr"] = _u(st.value)
        else:
            raise ExtractError("%s line %d: statement `%s` is not modelled" % (where, st.lineno, s[:70]))
    if not copied:
        raise ExtractError("%s: no call of H5Group.copy" % where)
    if sh["returnExpr"] is None:
        raise ExtractError("%s: no result" % where)
    if isinstance(sh["dupGroup"], tuple):
        sh["dupGroup"] = ("var", clsvar)
    sh["cls"] = cls_lit if cls_lit is not None else ("var", clsvar)
    return sh


def _copy_branch(fn, where):
    """the body of the leading `if copy_from is not None:` of a create_* method"""
    body = _stmts(fn.body)
    if not body or not isinstance(body[0], ast.If) or _u(body[0].test) != "copy_from is not None" or body[0].orelse:
        raise ExtractError("%s does not start with `if copy_from is not None:`" % where)
    names, d = _defaults(fn)
    for p in ("name", "copy_from", "keep_copy_id"):
        if p not in names:
            raise ExtractError("%s has no parameter %s" % (where, p))
    if d.get("keep_copy_id") != "True" or d.get("copy_from") != "None":
        raise ExtractError("%s: defaults of copy_from / keep_copy_id changed" % where)
    return body[0].body


CONTAINER_PROPERTY = {"data": "blocks", "data_arrays": "data_arrays", "data_frames": "data_frames", "tags": "tags",
                      "multi_tags": "multi_tags", "properties": "props", "metadata": "sections", "sections": "sections"}


def _finish(where, sh, name):
    """the result must be `self.<container of cls>[<name of the copy>]`"""
    cls = sh["cls"]
    want = "self.%s[%s]" % (CONTAINER_PROPERTY.get(cls, "?"), name)
    sh["returnsByName"] = sh["returnExpr"] == want
    if not sh["returnsByName"]:
        raise ExtractError("%s returns `%s` (expected `%s`: the copy is identified by its name, its id may be "
                           "that of the original)" % (where, sh["returnExpr"], want))
    if sh["srcKind"] is None:
        raise ExtractError("%s: no isinstance test of the source" % where)
    if isinstance(sh["dupGroup"], tuple):
        sh["dupGroup"] = cls
    return sh


def shapes(repo):
    handles = _file_handles(repo)
    out = {"h5GroupCopy": _h5copy_shape(repo)}

    # File.create_block / File.copy_section
    rel = "nixio/file.py"
    fcls = _cls(_parse(repo, rel), "File", rel)
    fn = _method(fcls, "create_block")
    sh = _caller_body("File.create_block", _copy_branch(fn, "File.create_block"), "copy_from", "name",
                      "keep_copy_id", None, handles)
    out["fileCreateBlock"] = _finish("File.create_block", sh, "name")
    fn = _method(fcls, "copy_section")
    names, d = _defaults(fn)
    if names != ["self", "obj", "children", "keep_id", "name"] or d != {"children": "True", "keep_id": "True",
                                                                        "name": "''"}:
        raise ExtractError("File.copy_section: signature changed")
    sh = _caller_body("File.copy_section", fn.body, "obj", "name", "keep_id", "children", handles)
    out["fileCopySection"] = _finish("File.copy_section", sh, "name")

    # Section.create_property / Section.copy_section
    rel = "nixio/section.py"
    scls = _cls(_parse(repo, rel), "Section", rel)
    fn = _method(scls, "create_property")
    sh = _caller_body("Section.create_property", _copy_branch(fn, "Section.create_property"), "copy_from", "name",
                      "keep_copy_id", None, {})
    out["sectionCreateProperty"] = _finish("Section.create_property", sh, "name")
    fn = _method(scls, "copy_section")
    names, d = _defaults(fn)
    if names != ["self", "obj", "children", "keep_id", "name"] or d != {"children": "True", "keep_id": "True",
                                                                        "name": "''"}:
        raise ExtractError("Section.copy_section: signature changed")
    sh = _caller_body("Section.copy_section", fn.body, "obj", "name", "keep_id", "children", {})
    out["sectionCopySection"] = _finish("Section.copy_section", sh, "name")

    # Block._copy_objects and its four callers
    rel = "nixio/block.py"
    bcls = _cls(_parse(repo, rel), "Block", rel)
    co = _method(bcls, "_copy_objects")
    names, d = _defaults(co)
    if names != ["self", "obj", "clsname", "keep_id", "name"] or d != {"keep_id": "True", "name": "''"}:
        raise ExtractError("Block._copy_objects: signature changed")
    base = _caller_body("Block._copy_objects", co.body, "obj", "name", "keep_id", None, {}, fixed_cls="clsname")
    if base["returnExpr"] != "name":
        raise ExtractError("Block._copy_objects returns `%s` (expected the name of the copy)" % base["returnExpr"])
    for meth, key, klass, cls in (("create_data_array", "blockCreateDataArray", "DataArray", "data_arrays"),
                                  ("create_data_frame", "blockCreateDataFrame", "DataFrame", "data_frames"),
                                  ("create_tag", "blockCreateTag", "Tag", "tags"),
                                  ("create_multi_tag", "blockCreateMultiTag", "MultiTag", "multi_tags")):
        where = "Block.%s" % meth
        br = _stmts(_copy_branch(_method(bcls, meth), where))
        if len(br) != 3:
            raise ExtractError("%s: the copy branch has %d statements (expected 3)" % (where, len(br)))
        t = br[0]
        if not (isinstance(t, ast.If) and not t.orelse and _u(t.test) == "not isinstance(copy_from, %s)" % klass
                and len(t.body) == 1 and isinstance(t.body[0], ast.Raise) and _u(t.body[0].exc).startswith("TypeError(")):
            raise ExtractError("%s: the source is not tested with isinstance(copy_from, %s) / TypeError" % (where, klass))
        a = br[1]
        if not (isinstance(a, ast.Assign) and len(a.targets) == 1 and isinstance(a.targets[0], ast.Name)
                and _u(a.value) == "self._copy_objects(copy_from, '%s', keep_copy_id, name)" % cls):
            raise ExtractError("%s: `%s` (expected self._copy_objects(copy_from, '%s', keep_copy_id, name))"
                               % (where, _u(a)[:80], cls))
        var = a.targets[0].id
        sh = dict(base)
        sh["srcKind"] = KIND_OF_CLASS[klass]
        sh["cls"] = cls
        sh["dupGroup"] = cls if isinstance(base["dupGroup"], tuple) else base["dupGroup"]
        if not isinstance(br[2], ast.Return) or br[2].value is None:
            raise ExtractError("%s: no result" % where)
        sh["returnExpr"] = _u(br[2].value).replace("[%s]" % var, "[name]")
        out[key] = _finish(where, sh, "name")
    return out


# ------------------------------------------------------------------------------------------------
# rendering
# ------------------------------------------------------------------------------------------------


def _render_h5(sh):
    r = sh["regen"]
    if r is None:
        regen = "none"
    else:
        guards = "[" + ", ".join("(%s, %s)" % (c, lean_bool(b)) for c, b in r["guards"]) + "]"
        regen = "some { rootFresh := %s, visits := %s, visitOnlyGroupRoot := %s, guards := %s }" % (
            lean_bool(r["rootFresh"]), lean_bool(r["visits"]), lean_bool(r["visitOnlyGroupRoot"]), guards)
    return "{ renames := %s, regen := %s }" % (lean_bool(sh["renames"]), regen)


def _render_caller(sh):
    return ("{ srcKind := %s, cls := %s, defaultsName := %s, dupGroup := %s, depth := %s,\n"
            "    forwardsKeepId := %s, readdsProps := %s, returnsByName := %s, srcAddr := %s }" % (
                lean_str(sh["srcKind"]), lean_str(sh["cls"]), lean_bool(sh["defaultsName"]), lean_str(sh["dupGroup"]),
                sh["depth"], lean_bool(sh["forwardsKeepId"]), lean_bool(sh["readdsProps"]),
                lean_bool(sh["returnsByName"]), sh["srcAddr"]))


DOC = {"fileCreateBlock": "File.create_block(copy_from=…)", "fileCopySection": "File.copy_section",
       "sectionCreateProperty": "Section.create_property(copy_from=…)", "sectionCopySection": "Section.copy_section",
       "blockCreateDataArray": "Block.create_data_array(copy_from=…) through Block._copy_objects",
       "blockCreateDataFrame": "Block.create_data_frame(copy_from=…) through Block._copy_objects",
       "blockCreateTag": "Block.create_tag(copy_from=…) through Block._copy_objects",
       "blockCreateMultiTag": "Block.create_multi_tag(copy_from=…) through Block._copy_objects"}


def render(sh):
    lines = ["import NixModel.Store.CopyShape",
             "/-! GENERATED by harness/extract/copyshape.py from nixio/hdf5/h5group.py, block.py, file.py, section.py"
             " — do not edit. -/",
             "namespace Nix.Store.CopyShape.Gen", "open Nix.Store.CopyShape", "",
             "/-- `H5Group.copy` after the HDF5 object copy: rename, id regeneration -/",
             "def h5GroupCopy : H5CopyShape :=", "  " + _render_h5(sh["h5GroupCopy"]), ""]
    for key in ("fileCreateBlock", "blockCreateDataArray", "blockCreateDataFrame", "blockCreateTag",
                "blockCreateMultiTag", "sectionCreateProperty", "fileCopySection", "sectionCopySection"):
        lines += ["/-- `%s` -/" % DOC[key], "def %s : CallerShape :=" % key, "  " + _render_caller(sh[key]), ""]
    lines += ["end Nix.Store.CopyShape.Gen", ""]
    return "\n".join(lines)


def extract(repo):
    return {TARGET: render(shapes(repo))}
