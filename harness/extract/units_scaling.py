"""Translator: nixio/util/units.py scaling()  ->  NixModel/Generated/UnitsScaling.lean

Parses the source with `ast` (never imports it) and renders the *shape* of scaling(): the initial value, the
scalable guard, the `return scale` shortcut (which of prefix / power it compares), the if/elif chain on the two
prefixes (each condition as a conjunction of "prefix is (not) empty" literals, each assigned expression as a term
over PREFIX_FACTORS[org_prefix], PREFIX_FACTORS[dest_prefix], 1.0, `/`, `*`), and which power text is applied.
Anything it does not recognise raises ExtractError (a broken tie, handled by the check).
"""
import ast
import os

from .leanfmt import ExtractError, lean_list, lean_bool
from .units import _func


def _is_name(n, name):
    return isinstance(n, ast.Name) and n.id == name


def _expr(n):
    if isinstance(n, ast.Constant) and isinstance(n.value, float) and n.value == 1.0:
        return ".one"
    if (isinstance(n, ast.Subscript) and _is_name(n.value, "PREFIX_FACTORS") and isinstance(n.slice, ast.Name)
            and n.slice.id in ("org_prefix", "dest_prefix")):
        return ".orgF" if n.slice.id == "org_prefix" else ".destF"
    if isinstance(n, ast.BinOp) and isinstance(n.op, (ast.Div, ast.Mult)):
        return "(.%s %s %s)" % ("div" if isinstance(n.op, ast.Div) else "mul", _expr(n.left), _expr(n.right))
    raise ExtractError("scaling(): unrecognised expression assigned to scale at line %d" % n.lineno)


def _literal(n):
    neg = False
    if isinstance(n, ast.UnaryOp) and isinstance(n.op, ast.Not):
        neg = True
        n = n.operand
    if not (isinstance(n, ast.Name) and n.id in ("org_prefix", "dest_prefix")):
        raise ExtractError("scaling(): unrecognised operand in a prefix branch condition")
    return "{ org := %s, nonEmpty := %s }" % (lean_bool(n.id == "org_prefix"), lean_bool(not neg))


def _cond(test):
    if isinstance(test, ast.BoolOp) and isinstance(test.op, ast.And):
        return lean_list(_literal(v) for v in test.values)
    return lean_list([_literal(test)])


def _assign_scale(body):
    if (len(body) == 1 and isinstance(body[0], ast.Assign) and len(body[0].targets) == 1
            and _is_name(body[0].targets[0], "scale")):
        return _expr(body[0].value)
    raise ExtractError("scaling(): a prefix branch does more than assign scale")


def _split_assign(st, arg, names):
    ok = (isinstance(st, ast.Assign) and len(st.targets) == 1 and isinstance(st.targets[0], ast.Tuple)
          and [getattr(e, "id", None) for e in st.targets[0].elts] == names
          and isinstance(st.value, ast.Call) and _is_name(st.value.func, "split")
          and len(st.value.args) == 1 and _is_name(st.value.args[0], arg) and not st.value.keywords)
    if not ok:
        raise ExtractError("scaling(): expected %s = split(%s)" % (", ".join(names), arg))


def _si_expr(n):
    """`unit and (is_atomic(unit) or is_compound(unit))` -> SiExpr term"""
    if isinstance(n, ast.BoolOp):
        op = ".and" if isinstance(n.op, ast.And) else ".or"
        terms = [_si_expr(v) for v in n.values]
        out = terms[-1]
        for t in reversed(terms[:-1]):
            out = "(%s %s %s)" % (op, t, out)
        return out
    if _is_name(n, "unit"):
        return ".nonEmpty"
    if (isinstance(n, ast.Call) and isinstance(n.func, ast.Name) and n.func.id in ("is_atomic", "is_compound")
            and len(n.args) == 1 and _is_name(n.args[0], "unit") and not n.keywords):
        return ".atomic" if n.func.id == "is_atomic" else ".compound"
    raise ExtractError("is_si(): unrecognised term in the returned expression")


def _is_si_shape(tree):
    fn = _func(tree, "is_si")
    body = [s for s in fn.body if not (isinstance(s, ast.Expr) and isinstance(s.value, ast.Constant))]
    if [a.arg for a in fn.args.args] != ["unit"] or len(body) != 1 or not isinstance(body[0], ast.Return):
        raise ExtractError("is_si(): expected a single return statement over `unit`")
    return _si_expr(body[0].value)


def _ret_const(st, val):
    return isinstance(st, ast.Return) and isinstance(st.value, ast.Constant) and st.value.value is val


def _scalable_shape(tree):
    fn = _func(tree, "scalable")
    if [a.arg for a in fn.args.args] != ["units_a", "units_b"]:
        raise ExtractError("scalable(): unexpected parameters")
    body = [s for s in fn.body if not (isinstance(s, ast.Expr) and isinstance(s.value, ast.Constant))]
    if len(body) != 6:
        raise ExtractError("scalable(): expected 6 statements (list branch, SI guard, 2 splits, comparison, return "
                           "True), found %d" % len(body))
    s_list, s_si, s_sp1, s_sp2, s_cmp, s_ret = body
    # list branch: length test, pairwise loop, return True
    if not (isinstance(s_list, ast.If) and not s_list.orelse and len(s_list.body) == 3):
        raise ExtractError("scalable(): list branch not recognised")
    l_len, l_for, l_ret = s_list.body
    ok_len = (isinstance(l_len, ast.If) and isinstance(l_len.test, ast.Compare) and len(l_len.test.ops) == 1
              and isinstance(l_len.test.ops[0], ast.NotEq) and len(l_len.body) == 1 and _ret_const(l_len.body[0], False)
              and ast.dump(l_len.test.left) == ast.dump(ast.parse("len(units_a)", mode="eval").body)
              and ast.dump(l_len.test.comparators[0]) == ast.dump(ast.parse("len(units_b)", mode="eval").body))
    ok_for = (isinstance(l_for, ast.For) and not l_for.orelse
              and ast.dump(l_for.iter) == ast.dump(ast.parse("zip(units_a, units_b)", mode="eval").body)
              and len(l_for.body) == 1 and isinstance(l_for.body[0], ast.If) and not l_for.body[0].orelse
              and ast.dump(l_for.body[0].test) == ast.dump(ast.parse("not scalable(unit_a, unit_b)", mode="eval").body)
              and len(l_for.body[0].body) == 1 and _ret_const(l_for.body[0].body[0], False))
    if not (ok_len and ok_for and _ret_const(l_ret, True)):
        raise ExtractError("scalable(): list branch is not length test / pairwise loop / return True")
    # if not (is_si(units_a) and is_si(units_b)): return False
    t = s_si.test if isinstance(s_si, ast.If) else None
    if not (t is not None and isinstance(t, ast.UnaryOp) and isinstance(t.op, ast.Not) and not s_si.orelse
            and len(s_si.body) == 1 and _ret_const(s_si.body[0], False)):
        raise ExtractError("scalable(): `if not (is_si(..) and is_si(..)): return False` not found")
    terms = t.operand.values if (isinstance(t.operand, ast.BoolOp) and isinstance(t.operand.op, ast.And)) \
        else [t.operand]
    si = set()
    for c in terms:
        if not (isinstance(c, ast.Call) and _is_name(c.func, "is_si") and len(c.args) == 1
                and isinstance(c.args[0], ast.Name) and c.args[0].id in ("units_a", "units_b")):
            raise ExtractError("scalable(): unrecognised term in the SI guard")
        si.add(c.args[0].id)
    _split_assign(s_sp1, "units_a", ["_", "a_unit", "a_power"])
    _split_assign(s_sp2, "units_b", ["_", "b_unit", "b_power"])
    if not (isinstance(s_cmp, ast.If) and not s_cmp.orelse and len(s_cmp.body) == 1 and _ret_const(s_cmp.body[0], False)):
        raise ExtractError("scalable(): `if <components differ>: return False` not found")
    terms = s_cmp.test.values if (isinstance(s_cmp.test, ast.BoolOp) and isinstance(s_cmp.test.op, ast.Or)) \
        else [s_cmp.test]
    cmp_ = set()
    for c in terms:
        if not (isinstance(c, ast.Compare) and len(c.ops) == 1 and isinstance(c.ops[0], ast.NotEq)
                and isinstance(c.left, ast.Name) and isinstance(c.comparators[0], ast.Name)):
            raise ExtractError("scalable(): unrecognised term in the comparison")
        pair = {c.left.id, c.comparators[0].id}
        if pair == {"a_unit", "b_unit"}:
            cmp_.add("unit")
        elif pair == {"a_power", "b_power"}:
            cmp_.add("power")
        else:
            raise ExtractError("scalable(): compares %s" % sorted(pair))
    if not _ret_const(s_ret, True):
        raise ExtractError("scalable(): final `return True` not found")
    return si, cmp_


def extract(repo):
    path = os.path.join(repo, "nixio", "util", "units.py")
    tree = ast.parse(open(path, encoding="utf-8").read())
    si_shape = _is_si_shape(tree)
    sc_si, sc_cmp = _scalable_shape(tree)
    fn = _func(tree, "scaling")
    if [a.arg for a in fn.args.args] != ["origin", "destination"]:
        raise ExtractError("scaling(): unexpected parameters")
    body = [s for s in fn.body if not (isinstance(s, ast.Expr) and isinstance(s.value, ast.Constant))]
    if len(body) != 8:
        raise ExtractError("scaling(): expected 8 statements (init, guard, 2 splits, shortcut, prefix chain, power, "
                           "return), found %d" % len(body))
    s_init, s_guard, s_sp1, s_sp2, s_short, s_chain, s_pow, s_ret = body
    # scale = 1.0
    if not (isinstance(s_init, ast.Assign) and _is_name(s_init.targets[0], "scale") and _expr(s_init.value) == ".one"):
        raise ExtractError("scaling(): does not start with scale = 1.0")
    # if not scalable(origin, destination): raise InvalidUnit(...)
    t = s_guard.test if isinstance(s_guard, ast.If) else None
    okg = (t is not None and isinstance(t, ast.UnaryOp) and isinstance(t.op, ast.Not)
           and isinstance(t.operand, ast.Call) and _is_name(t.operand.func, "scalable")
           and [getattr(a, "id", None) for a in t.operand.args] == ["origin", "destination"]
           and not s_guard.orelse and len(s_guard.body) == 1 and isinstance(s_guard.body[0], ast.Raise)
           and isinstance(s_guard.body[0].exc, ast.Call) and _is_name(s_guard.body[0].exc.func, "InvalidUnit"))
    if not okg:
        raise ExtractError("scaling(): `if not scalable(origin, destination): raise InvalidUnit(...)` not found")
    _split_assign(s_sp1, "origin", ["org_prefix", "_", "org_power"])
    _split_assign(s_sp2, "destination", ["dest_prefix", "_", "dest_power"])
    # shortcut
    if not (isinstance(s_short, ast.If) and not s_short.orelse and len(s_short.body) == 1
            and isinstance(s_short.body[0], ast.Return) and _is_name(s_short.body[0].value, "scale")):
        raise ExtractError("scaling(): `if ...: return scale` shortcut not found")
    terms = s_short.test.values if (isinstance(s_short.test, ast.BoolOp) and isinstance(s_short.test.op, ast.And)) \
        else [s_short.test]
    short = set()
    for c in terms:
        if not (isinstance(c, ast.Compare) and len(c.ops) == 1 and isinstance(c.ops[0], ast.Eq)
                and isinstance(c.left, ast.Name) and isinstance(c.comparators[0], ast.Name)):
            raise ExtractError("scaling(): unrecognised term in the shortcut condition")
        pair = {c.left.id, c.comparators[0].id}
        if pair == {"org_prefix", "dest_prefix"}:
            short.add("prefix")
        elif pair == {"org_power", "dest_power"}:
            short.add("power")
        else:
            raise ExtractError("scaling(): shortcut compares %s" % sorted(pair))
    # prefix chain
    chain = []
    other = None
    node = s_chain
    while True:
        if not isinstance(node, ast.If):
            raise ExtractError("scaling(): if/elif prefix chain not found")
        chain.append((_cond(node.test), _assign_scale(node.body)))
        if not node.orelse:
            break
        if len(node.orelse) == 1 and isinstance(node.orelse[0], ast.If):
            node = node.orelse[0]
            continue
        other = _assign_scale(node.orelse)
        break
    # power
    okp = (isinstance(s_pow, ast.If) and isinstance(s_pow.test, ast.Name)
           and s_pow.test.id in ("org_power", "dest_power") and not s_pow.orelse and len(s_pow.body) == 2)
    if okp:
        a, b = s_pow.body
        okp = (isinstance(a, ast.Assign) and _is_name(a.targets[0], "power") and isinstance(a.value, ast.Call)
               and _is_name(a.value.func, "int") and len(a.value.args) == 1
               and _is_name(a.value.args[0], s_pow.test.id)
               and isinstance(b, ast.AugAssign) and isinstance(b.op, ast.Pow) and _is_name(b.target, "scale")
               and _is_name(b.value, "power"))
    if not okp:
        raise ExtractError("scaling(): `if <power>: power = int(<power>); scale **= power` not found")
    if not (isinstance(s_ret, ast.Return) and _is_name(s_ret.value, "scale")):
        raise ExtractError("scaling(): final `return scale` not found")

    L = []
    L.append("/- GENERATED by harness/extract/units_scaling.py from nixio/util/units.py — do not edit. -/")
    L.append("namespace Nix.Units.Gen")
    L.append("")
    L.append("/-- expressions assigned to `scale` in the prefix chain of scaling() -/")
    L.append("inductive ScaleExpr where")
    L.append("  | one | orgF | destF | div (a b : ScaleExpr) | mul (a b : ScaleExpr)")
    L.append("  deriving DecidableEq, Repr")
    L.append("/-- literal of a branch condition: `org_prefix` / `dest_prefix` is (not) empty -/")
    L.append("structure ScaleLit where")
    L.append("  org : Bool")
    L.append("  nonEmpty : Bool")
    L.append("  deriving DecidableEq, Repr")
    L.append("")
    L.append("/-- `if <prefixes equal> and <powers equal>: return scale`: which comparisons the shortcut makes -/")
    L.append("def scaleShortcutPrefix : Bool := " + lean_bool("prefix" in short))
    L.append("def scaleShortcutPower : Bool := " + lean_bool("power" in short))
    L.append("/-- the if/elif chain on the prefixes, in source order: (conjunction of literals, assigned expression) -/")
    L.append("def scaleChain : List (List ScaleLit × ScaleExpr) := " +
             lean_list("(%s, %s)" % (c, e) for c, e in chain))
    L.append("/-- the else branch of the chain, if any (otherwise `scale` keeps its initial value 1.0) -/")
    L.append("def scaleElse : Option ScaleExpr := " + ("none" if other is None else "some " + other))
    L.append("/-- `if org_power: scale **= int(org_power)` (true) or the destination's power (false) -/")
    L.append("def scalePowerFromOrg : Bool := " + lean_bool(s_pow.test.id == "org_power"))
    L.append("")
    L.append("/-- the expression `is_si` returns (its truth value) -/")
    L.append("inductive SiExpr where")
    L.append("  | nonEmpty | atomic | compound | and (a b : SiExpr) | or (a b : SiExpr)")
    L.append("  deriving DecidableEq, Repr")
    L.append("def isSiShape : SiExpr := " + si_shape)
    L.append("/-- scalable(): `if not (is_si(units_a) and is_si(units_b)): return False` — which operands are tested -/")
    L.append("def scalableNeedsSiA : Bool := " + lean_bool("units_a" in sc_si))
    L.append("def scalableNeedsSiB : Bool := " + lean_bool("units_b" in sc_si))
    L.append("/-- scalable(): `if a_unit != b_unit or a_power != b_power: return False` — which components are compared -/")
    L.append("def scalableComparesUnit : Bool := " + lean_bool("unit" in sc_cmp))
    L.append("def scalableComparesPower : Bool := " + lean_bool("power" in sc_cmp))
    L.append("")
    L.append("end Nix.Units.Gen")
    return {"NixModel/Generated/UnitsScaling.lean": "\n".join(L) + "\n"}


if __name__ == "__main__":
    import sys
    for k, v in extract(sys.argv[1] if len(sys.argv) > 1 else "/repo").items():
        print("==", k)
        print(v)
