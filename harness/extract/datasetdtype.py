"""Translator: nixio/datatype.py, nixio/block.py, nixio/data_array.py, nixio/hdf5/h5group.py, nixio/hdf5/h5dataset.py
      ->  NixModel/Generated/DataSetDType.lean                                                   (property C01)

The way of the `dtype` argument of `Block.create_data_array` down to h5py, over the vocabulary of
`NixModel/Pure/NdSpell.lean`:

  dataTypeMembers   `class DataType`: every member bound to a NumPy scalar type, as (member, numpy attribute name);
                    for the `String` member the branch for NumPy >= 2 is read (`np.str_`)
  dataTypeOther     the other names the class body defines (type groups, methods): a translation table or a
                    conversion helper added to the class shows up here
  dtypeHops         the calls that carry the element type from `create_data_array` to `require_dataset`:
                    (caller -> callee, the caller's own variable, the expression bound to the callee's dtype
                    parameter, names assigned in the caller before the call)
  h5InitDtype       `H5DataSet.__init__`: the statement(s) that rebind `dtype` before `require_dataset`, compiled:
                    `if dtype == DataType.String: dtype = util.vlen_str_dtype`
  h5InitCreateArgs  the keyword arguments of `require_dataset`
  h5DtypeGetter     `H5DataSet.dtype`; dsGetDtype / dsDataType / daDtype: `DataSet._get_dtype`, `DataSet.data_type`,
                    `DataArray.dtype` (what the array reports as its element type)

`ast` only; anything else raises ExtractError (a broken tie).
"""
import ast

from .leanfmt import ExtractError, lean_str
from .datasetshape import _parse, _cls, _fn, _body, _u

TARGET = "NixModel/Generated/DataSetDType.lean"


def _strs(xs):
    return "[" + ", ".join(lean_str(x) for x in xs) + "]"


def _classmethod(cls, name):
    for n in cls.body:
        if isinstance(n, ast.FunctionDef) and n.name == name:
            return n
    raise ExtractError("%s.%s not found" % (cls.name, name))


def _np_attr(node, where):
    if isinstance(node, ast.Attribute) and isinstance(node.value, ast.Name) and node.value.id == "np":
        return node.attr
    raise ExtractError("%s: expected `np.<scalar type>`, found `%s`" % (where, _u(node)[:60]))


def datatype_members(repo):
    rel = "nixio/datatype.py"
    cls = _cls(_parse(repo, rel), "DataType", rel)
    members, other = [], []
    for n in cls.body:
        if isinstance(n, ast.Expr) and isinstance(n.value, ast.Constant):
            continue
        if isinstance(n, ast.Assign) and len(n.targets) == 1 and isinstance(n.targets[0], ast.Name):
            name = n.targets[0].id
            if isinstance(n.value, ast.Attribute):
                members.append((name, _np_attr(n.value, "DataType.%s" % name)))
            else:
                other.append("%s = %s" % (name, _u(n.value)))
        elif isinstance(n, ast.If):
            # `if version.parse(np.__version__) < version.parse("2.0"): String = np.unicode_ else: String = np.str_`
            t = _u(n.test).replace('"', "'")
            if t != "version.parse(np.__version__) < version.parse('2.0')":
                raise ExtractError("DataType: unexpected condition `%s`" % t[:80])
            if not (len(n.body) == 1 and len(n.orelse) == 1 and all(
                    isinstance(x, ast.Assign) and len(x.targets) == 1 and isinstance(x.targets[0], ast.Name)
                    for x in n.body + n.orelse) and n.body[0].targets[0].id == n.orelse[0].targets[0].id):
                raise ExtractError("DataType: unexpected version branch")
            name = n.orelse[0].targets[0].id
            members.append((name, _np_attr(n.orelse[0].value, "DataType.%s" % name)))
        elif isinstance(n, ast.FunctionDef):
            other.append("def %s(%s)" % (n.name, ", ".join(a.arg for a in n.args.args)))
        else:
            raise ExtractError("DataType: unsupported statement `%s`" % _u(n)[:80])
    return members, other


def _assigned_before(stmts, stop):
    """names assigned (anywhere, also in nested blocks) in the statements before `stop`"""
    out = []
    for st in stmts:
        if st is stop:
            break
        for n in ast.walk(st):
            if isinstance(n, (ast.Assign, ast.AugAssign, ast.AnnAssign)):
                for t in (n.targets if isinstance(n, ast.Assign) else [n.target]):
                    for m in ast.walk(t):
                        if isinstance(m, ast.Name):
                            out.append(m.id)
    return sorted(set(out))


def _find_call(stmts, pred, where):
    """the unique call satisfying pred in the statement list: (top-level statement, call node)"""
    hits = []
    for st in stmts:
        for n in ast.walk(st):
            if isinstance(n, ast.Call) and pred(_u(n.func)):
                hits.append((st, n))
    if len(hits) != 1:
        raise ExtractError("%s: expected exactly one call, found %d" % (where, len(hits)))
    return hits[0]


def _bound(call, params, want, where):
    """the expression bound to parameter `want` of a callee with positional parameters `params`"""
    if any(isinstance(a, ast.Starred) for a in call.args) or any(k.arg is None for k in call.keywords):
        raise ExtractError("%s: star arguments" % where)
    for k in call.keywords:
        if k.arg == want:
            return _u(k.value)
    i = params.index(want)
    if i < len(call.args):
        return _u(call.args[i])
    raise ExtractError("%s: no argument for `%s`" % (where, want))


def extract(repo):
    members, other = datatype_members(repo)
    blk = _cls(_parse(repo, "nixio/block.py"), "Block", "nixio/block.py")
    da = _cls(_parse(repo, "nixio/data_array.py"), "DataArray", "nixio/data_array.py")
    h5g = _cls(_parse(repo, "nixio/hdf5/h5group.py"), "H5Group", "nixio/hdf5/h5group.py")
    h5d = _cls(_parse(repo, "nixio/hdf5/h5dataset.py"), "H5DataSet", "nixio/hdf5/h5dataset.py")
    hops = []

    # 1. Block.create_data_array -> DataArray.create_new (the rebinds of `dtype` before it are the compiled
    #    createRules of Generated/DataSetShape.lean; here: what is passed)
    fn = _fn(blk, "create_data_array")
    cn = _classmethod(da, "create_new")
    cn_params = [a.arg for a in cn.args.args][1:]            # without cls
    st, call = _find_call(_body(fn), lambda f: f == "DataArray.create_new", "Block.create_data_array")
    hops.append(("Block.create_data_array -> DataArray.create_new", "dtype",
                 _bound(call, cn_params, "data_type", "Block.create_data_array"), []))
    # 2. DataArray.create_new -> H5Group.create_dataset
    cd = _fn(h5g, "create_dataset")
    cd_params = [a.arg for a in cd.args.args][1:]
    body = _body(cn)
    st, call = _find_call(body, lambda f: f.endswith("._h5group.create_dataset"), "DataArray.create_new")
    hops.append(("DataArray.create_new -> H5Group.create_dataset", "data_type",
                 _bound(call, cd_params, "dtype", "DataArray.create_new"),
                 [x for x in _assigned_before(body, st) if x == "data_type"]))
    # 3. H5Group.create_dataset -> H5DataSet(...)
    init = _fn(h5d, "__init__")
    init_params = [a.arg for a in init.args.args][1:]
    body = _body(cd)
    st, call = _find_call(body, lambda f: f == "H5DataSet", "H5Group.create_dataset")
    hops.append(("H5Group.create_dataset -> H5DataSet", "dtype",
                 _bound(call, init_params, "dtype", "H5Group.create_dataset"),
                 [x for x in _assigned_before(body, st) if x == "dtype"]))
    # 4. H5DataSet.__init__: the creating branch
    body = _body(init)
    creating = None
    for stx in body:
        if isinstance(stx, ast.If) and _u(stx.test) == "dtype is None or shape is None":
            creating = stx.orelse
            opening = [_u(x) for x in stx.body]
    if creating is None:
        raise ExtractError("H5DataSet.__init__: expected `if (dtype is None) or (shape is None): … else: …`")
    if opening != ["self.dataset = self._parent[name]"]:
        raise ExtractError("H5DataSet.__init__: unexpected opening branch")
    st, call = _find_call(creating, lambda f: f == "self._parent.require_dataset", "H5DataSet.__init__")
    if call.args and _u(call.args[0]) != "name" or len(call.args) > 1:
        raise ExtractError("H5DataSet.__init__: unexpected positional arguments of require_dataset")
    kwargs = []
    for k in call.keywords:
        kwargs.append("%s=%s" % (k.arg if k.arg is not None else "**", _u(k.value)))
    passed = [_u(k.value) for k in call.keywords if k.arg == "dtype"]
    if len(passed) != 1:
        raise ExtractError("H5DataSet.__init__: require_dataset without dtype=")
    hops.append(("H5DataSet.__init__ -> require_dataset", "dtype", passed[0], []))
    # the statements that rebind `dtype` before the call: compiled
    rebinds = []
    for stx in creating:
        if stx is st:
            break
        names = _assigned_before([stx, None], None)
        if "dtype" not in names:
            continue
        if not (isinstance(stx, ast.If) and not stx.orelse and len(stx.body) == 1
                and isinstance(stx.body[0], ast.Assign) and _u(stx.body[0].targets[0]) == "dtype"
                and isinstance(stx.test, ast.Compare) and len(stx.test.ops) == 1
                and isinstance(stx.test.ops[0], ast.Eq) and _u(stx.test.left) == "dtype"):
            raise ExtractError("H5DataSet.__init__: unsupported rebinding of dtype `%s`" % _u(stx)[:80])
        rhs = stx.test.comparators[0]
        if not (isinstance(rhs, ast.Attribute) and _u(rhs.value) == "DataType"):
            raise ExtractError("H5DataSet.__init__: dtype compared with `%s`" % _u(rhs)[:60])
        val = _u(stx.body[0].value)
        if val != "util.vlen_str_dtype":
            raise ExtractError("H5DataSet.__init__: dtype rebound to `%s`" % val[:60])
        rebinds.append(rhs.attr)
    term = "dtype"
    lets = []
    for member in rebinds:
        lets.append("let dtype := if DtypeVal.pyEq dataTypeMembers dtype %s then DtypeVal.vlenStr else dtype" %
                    lean_str(member))
    init_term = "\n  ".join(lets + [term])

    # the getters that report the element type
    ds = _cls(_parse(repo, "nixio/data_set.py"), "DataSet", "nixio/data_set.py")
    g = [_u(x) for x in _body(_fn(h5d, "dtype", "getter"))]
    if not (len(g) == 3 and g[0] == "dtype = self.dataset.dtype" and g[2] == "return dtype"):
        raise ExtractError("H5DataSet.dtype: unexpected body `%s`" % "; ".join(g)[:100])
    st = _body(_fn(h5d, "dtype", "getter"))[1]
    if not (isinstance(st, ast.If) and not st.orelse and _u(st.test) == "dtype == util.vlen_str_dtype"
            and len(st.body) == 1 and isinstance(st.body[0], ast.Return)
            and isinstance(st.body[0].value, ast.Attribute) and _u(st.body[0].value.value) == "DataType"):
        raise ExtractError("H5DataSet.dtype: unexpected statement `%s`" % _u(st)[:100])
    getter_member = st.body[0].value.attr
    g = [_u(x) for x in _body(_fn(ds, "_get_dtype"))]
    if g != ["dataset = self._h5group.get_dataset('data')", "return dataset.dtype"]:
        raise ExtractError("DataSet._get_dtype: unexpected body `%s`" % "; ".join(g)[:100])
    g = [_u(x) for x in _body(_fn(ds, "data_type", "getter"))]
    if g != ["return self._get_dtype()"]:
        raise ExtractError("DataSet.data_type: unexpected body `%s`" % "; ".join(g)[:100])
    g = [_u(x) for x in _body(_fn(ds, "dtype", "getter"))]
    if g != ["return np.dtype(self._get_dtype())"]:
        raise ExtractError("DataSet.dtype: unexpected body `%s`" % "; ".join(g)[:100])
    g = [_u(x) for x in _body(_fn(da, "dtype", "getter"))]
    if g != ["return self._h5group.group['data'].dtype"]:
        raise ExtractError("DataArray.dtype: unexpected body `%s`" % "; ".join(g)[:100])

    L = []
    L.append("-- generated by harness/extract/datasetdtype.py from nixio/datatype.py, nixio/block.py, nixio/data_array.py, "
             "nixio/hdf5/h5group.py, nixio/hdf5/h5dataset.py — do not edit")
    L.append("import NixModel.Pure.NdSpell")
    L.append("")
    L.append("namespace Nix.Gen.DataSetDType")
    L.append("open Nix Nix.Nd Nix.NdGen Nix.NdSpell")
    L.append("")
    L.append("/-- `class DataType`: (member, NumPy scalar type it is bound to) -/")
    L.append("def dataTypeMembers : List (String × String) :=\n  [%s]" % ", ".join(
        "(%s, %s)" % (lean_str(a), lean_str(b)) for a, b in members))
    L.append("")
    L.append("/-- whatever else the class body of `DataType` defines -/")
    L.append("def dataTypeOther : List String :=\n  %s" % _strs(other))
    L.append("")
    L.append("/-- the calls that carry the element type from `create_data_array` to h5py: (caller -> callee, the "
             "caller's variable, the expression bound to the callee's dtype parameter, rebinds of the variable in the "
             "caller before the call that are not compiled elsewhere) -/")
    L.append("def dtypeHops : List (String × String × String × List String) :=\n  [%s]" % ",\n   ".join(
        "(%s, %s, %s, %s)" % (lean_str(a), lean_str(b), lean_str(c), _strs(d)) for a, b, c, d in hops))
    L.append("")
    L.append("/-- `H5DataSet.__init__` (creating branch): the value of `dtype` handed to `require_dataset` -/")
    L.append("def h5InitDtype (dtype : DtypeVal) : DtypeVal :=\n  %s" % init_term)
    L.append("")
    L.append("/-- `H5DataSet.__init__`: the keyword arguments of `require_dataset` -/")
    L.append("def h5InitCreateArgs : List String :=\n  %s" % _strs(kwargs))
    L.append("")
    L.append("/-- `H5DataSet.dtype` (getter) on h5py's `self.dataset.dtype` -/")
    L.append("def h5DtypeGetter (stored : DtypeVal) : DtypeVal :=\n  let dtype := stored\n"
             "  if DtypeVal.isVlenStr dtype then DtypeVal.spelled (Spelling.nix %s) else\n  dtype" %
             lean_str(getter_member))
    L.append("")
    L.append("/-- `DataSet._get_dtype`: `dataset = self._h5group.get_dataset('data'); return dataset.dtype` -/")
    L.append("def dsGetDtype (stored : DtypeVal) : DtypeVal :=\n  h5DtypeGetter stored")
    L.append("")
    L.append("/-- `DataSet.data_type` (= `DataArray.data_type`): `return self._get_dtype()` -/")
    L.append("def dsDataType (stored : DtypeVal) : DtypeVal :=\n  dsGetDtype stored")
    L.append("")
    L.append("/-- `DataArray.dtype` (overrides `DataSet.dtype` = `np.dtype(self._get_dtype())`): "
             "`return self._h5group.group['data'].dtype` -/")
    L.append("def daDtype (stored : DtypeVal) : DtypeVal :=\n  stored")
    L.append("")
    L.append("end Nix.Gen.DataSetDType")
    return {TARGET: "\n".join(L) + "\n"}
