"""Translator: nixio/util/units.py  ->  NixModel/Generated/UnitsTables.lean

Parses the Python source with `ast` (never imports it) and renders
 * the PREFIXES / UNITS alternations (ordered), the POWER grammar (recognised, fixed shape),
   PREFIX_FACTORS as exact powers of ten,
 * the *shape* of every regular expression assembled in is_atomic, is_compound, split,
   split_compound (pieces, `?` markers, `$` anchor, match vs search),
 * the condition of the "both prefixed" branch of scaling(),
 * the replace chain / loop of sanitizer().
Anything it does not recognise raises ExtractError (a broken tie, handled by the check).
"""
import ast
import os
import re

from .leanfmt import ExtractError, lean_chars, lean_list, lean_bool, lean_int

SENT = {"PREFIXES": "", "UNITS": "", "POWER": ""}
POWER_EXPECTED = "(\\^[+-]?[1-9]\\d*)"
META = set("\\^$.|?*+()[]{}")
# `(?= *(\*|/|$))`: an atom of split_compound ends where a separator follows or the string ends
SEP_LOOKAHEAD = "(?= *(\\*|/|$))"


def _const_str(node):
    if isinstance(node, ast.Constant) and isinstance(node.value, str):
        return node.value
    raise ExtractError("expected a string constant at line %d" % getattr(node, "lineno", -1))


class StrEval:
    """tiny symbolic evaluator for the string-building expressions of units.py"""

    def __init__(self, env):
        self.env = dict(env)

    def ev(self, node):
        if isinstance(node, ast.Constant) and isinstance(node.value, str):
            return node.value
        if isinstance(node, ast.Name):
            if node.id in self.env:
                return self.env[node.id]
            raise ExtractError("unknown name %s in regex expression" % node.id)
        if isinstance(node, ast.BinOp) and isinstance(node.op, ast.Add):
            return self.ev(node.left) + self.ev(node.right)
        if isinstance(node, ast.Call) and isinstance(node.func, ast.Attribute):
            f = node.func
            if f.attr == "format":
                fmt = self.ev(f.value)
                args = [self.ev(a) for a in node.args]
                kw = {k.arg: self.ev(k.value) for k in node.keywords}
                return fmt.format(*args, **kw)
            if f.attr == "compile" and isinstance(f.value, ast.Name) and f.value.id == "re":
                if len(node.args) != 1 or node.keywords:
                    raise ExtractError("re.compile with flags is not modelled")
                return self.ev(node.args[0])
        raise ExtractError("unsupported expression in regex construction: %s" % ast.dump(node)[:80])


def parse_shape(rx):
    """sentinel regex -> (pieces, start_anchor, end_anchor)"""
    start = rx.startswith("^")
    if start:
        rx = rx[1:]
    end = rx.endswith("$")
    if end:
        rx = rx[:-1]
    pieces = []
    names = {"": "pre", "": "unit", "": "pow"}
    gnames = {"prefix": "", "unit": "", "power": ""}
    i = 0
    while i < len(rx):
        m = re.match(r"\(\?P<(\w+)>([-])\)", rx[i:])
        if m:
            if gnames.get(m.group(1)) != m.group(2):
                raise ExtractError("named group %s wraps an unexpected table" % m.group(1))
            kind = names[m.group(2)]
            i += m.end()
        elif rx[i] in names:
            kind = names[rx[i]]
            i += 1
        else:
            raise ExtractError("unrecognised regex fragment %r" % rx[i:i + 20])
        if i < len(rx) and rx[i] == "?":
            i += 1
            if kind == "unit":
                raise ExtractError("optional unit group is not modelled")
            kind = "opt" + kind.capitalize()
        pieces.append(kind)
    return pieces, start, end


def shape_term(pieces, end):
    return "{ pieces := %s, endAnchor := %s }" % (lean_list("." + p for p in pieces), lean_bool(end))


def _func(tree, name):
    for n in tree.body:
        if isinstance(n, ast.FunctionDef) and n.name == name:
            return n
    raise ExtractError("function %s not found in units.py" % name)


def _local_env(fn, base):
    """evaluate the simple `name = <string expr>` assignments of a function in order"""
    se = StrEval(base)
    for st in ast.walk(fn):
        pass
    for st in fn.body:
        if isinstance(st, ast.Assign) and len(st.targets) == 1 and isinstance(st.targets[0], ast.Name):
            try:
                se.env[st.targets[0].id] = se.ev(st.value)
            except ExtractError:
                continue
    return se


def _methods(fn):
    """{regex variable name: set of methods called on it}"""
    out = {}
    for n in ast.walk(fn):
        if isinstance(n, ast.Call) and isinstance(n.func, ast.Attribute) and isinstance(n.func.value, ast.Name):
            if n.func.attr in ("match", "search", "fullmatch", "findall", "finditer"):
                out.setdefault(n.func.value.id, set()).add(n.func.attr)
    return out


def _cond_term(test):
    """`org_prefix and dest_prefix`-style test -> Lean Bool term over orgEmpty destEmpty"""
    def operand(n):
        neg = False
        if isinstance(n, ast.UnaryOp) and isinstance(n.op, ast.Not):
            neg = True
            n = n.operand
        if not isinstance(n, ast.Name) or n.id not in ("org_prefix", "dest_prefix"):
            raise ExtractError("scaling(): unrecognised operand in prefix branch condition")
        v = "orgEmpty" if n.id == "org_prefix" else "destEmpty"
        # truthiness of a str: non-empty
        return v if neg else "!" + v
    if isinstance(test, ast.BoolOp) and isinstance(test.op, ast.And) and len(test.values) == 2:
        return "(%s && %s)" % (operand(test.values[0]), operand(test.values[1]))
    raise ExtractError("scaling(): branch condition has an unrecognised shape")


def extract(repo):
    path = os.path.join(repo, "nixio", "util", "units.py")
    src = open(path, encoding="utf-8").read()
    tree = ast.parse(src)
    consts = {}
    factors = None
    for n in tree.body:
        if isinstance(n, ast.Assign) and len(n.targets) == 1 and isinstance(n.targets[0], ast.Name):
            name = n.targets[0].id
            if name in ("PREFIXES", "UNITS", "POWER"):
                consts[name] = _const_str(n.value)
            elif name == "PREFIX_FACTORS":
                if not isinstance(n.value, ast.Dict):
                    raise ExtractError("PREFIX_FACTORS is not a dict literal")
                factors = []
                for k, v in zip(n.value.keys, n.value.values):
                    key = _const_str(k)
                    if not (isinstance(v, ast.Constant) and isinstance(v.value, float)):
                        raise ExtractError("PREFIX_FACTORS[%s] is not a float literal" % key)
                    exp = None
                    for e in range(-40, 41):
                        if float("1e%d" % e) == v.value:
                            exp = e
                            break
                    if exp is None:
                        raise ExtractError("PREFIX_FACTORS[%s]=%r is not a power of ten" % (key, v.value))
                    factors.append((key, exp))
    for k in ("PREFIXES", "UNITS", "POWER"):
        if k not in consts:
            raise ExtractError("module constant %s not found" % k)
    if factors is None:
        raise ExtractError("PREFIX_FACTORS not found")
    if consts["POWER"] != POWER_EXPECTED:
        raise ExtractError("POWER grammar changed: %r" % consts["POWER"])

    def alts(name):
        s = consts[name]
        if not (s.startswith("(") and s.endswith(")")):
            raise ExtractError("%s is not a parenthesised alternation" % name)
        parts = s[1:-1].split("|")
        for p in parts:
            if not p or any(c in META for c in p):
                raise ExtractError("%s alternative %r is not a plain literal" % (name, p))
        return parts

    prefixes = alts("PREFIXES")
    units = alts("UNITS")

    # --- regex shapes ---
    f_atomic = _func(tree, "is_atomic")
    se = _local_env(f_atomic, SENT)
    meth = _methods(f_atomic)
    if meth.get("atomic_unit") != {"match"} or "atomic_unit" not in se.env:
        raise ExtractError("is_atomic: expected atomic_unit.match(...)")
    pcs, st, en = parse_shape(se.env["atomic_unit"])
    atomic_shape = shape_term(pcs, en)

    f_comp = _func(tree, "is_compound")
    se = _local_env(f_comp, SENT)
    meth = _methods(f_comp)
    if "compound_unit" not in se.env or meth.get("compound_unit") not in ({"search"}, {"match"}):
        raise ExtractError("is_compound: expected compound_unit.search(...)")
    rx = se.env["compound_unit"]
    m = re.match(r"^\((.*)\(\\\*\|/\)\)\+(.*)$", rx, re.S)
    if not m or m.group(1) != m.group(2):
        raise ExtractError("is_compound: regex is not (atomic(\\*|/))+atomic")
    pcs, st, en = parse_shape(m.group(1))
    if st or en:
        raise ExtractError("is_compound: anchors inside the atom are not modelled")
    comp_atom_shape = shape_term(pcs, False)
    comp_search = meth["compound_unit"] == {"search"}

    f_split = _func(tree, "split")
    se = _local_env(f_split, SENT)
    meth = _methods(f_split)
    shapes = {}
    for var in ("pup", "unit_matcher", "prefix_matcher"):
        if var not in se.env or meth.get(var) != {"match"}:
            raise ExtractError("split: expected %s = re.compile(...) used with .match" % var)
        pcs, st, en = parse_shape(se.env[var])
        shapes[var] = (pcs, en)
    if [p for p in shapes["pup"][0]] != ["pre", "unit", "pow"]:
        raise ExtractError("split: pup is not prefix unit power")
    if shapes["unit_matcher"][0] != ["unit", "pow"]:
        raise ExtractError("split: unit_matcher is not unit power")
    if shapes["prefix_matcher"][0] != ["pre", "unit"]:
        raise ExtractError("split: prefix_matcher is not prefix unit")

    f_sc = _func(tree, "split_compound")
    se = _local_env(f_sc, SENT)
    meth = _methods(f_sc)
    if "opt_pup" not in se.env or meth.get("opt_pup") != {"match"}:
        raise ExtractError("split_compound: expected opt_pup.match")
    rx_sc = se.env["opt_pup"]
    if rx_sc.endswith(SEP_LOOKAHEAD):
        # the separator lookahead is rendered by extract/units_compound.py (Generated/UnitsCompound.lean)
        rx_sc = rx_sc[:-len(SEP_LOOKAHEAD)]
    pcs, st, en = parse_shape(rx_sc)
    comp_split_shape = shape_term(pcs, en)

    # --- scaling(): condition of the third prefix branch ---
    f_scal = _func(tree, "scaling")
    chain = None
    for st_ in f_scal.body:
        if isinstance(st_, ast.If) and st_.orelse and isinstance(st_.orelse[0], ast.If):
            second = st_.orelse[0]
            if second.orelse and isinstance(second.orelse[0], ast.If):
                chain = (st_, second, second.orelse[0])
    if chain is None:
        raise ExtractError("scaling(): if/elif/elif prefix chain not found")
    both_cond = _cond_term(chain[2].test)
    if chain[2].orelse:
        raise ExtractError("scaling(): unexpected else branch in prefix chain")

    # --- sanitizer(): replace chain + optional fixpoint loop ---
    f_san = _func(tree, "sanitizer")
    lenv = {}
    chain_pairs = []
    loop = None

    def sval(n):
        if isinstance(n, ast.Constant) and isinstance(n.value, str):
            return n.value
        if isinstance(n, ast.Name) and n.id in lenv:
            return lenv[n.id]
        raise ExtractError("sanitizer(): unrecognised replace argument")

    def replace_chain(n):
        """x.replace(a,b).replace(c,d)... rooted at Name 'unit' -> [(a,b),(c,d)]"""
        out = []
        while isinstance(n, ast.Call) and isinstance(n.func, ast.Attribute) and n.func.attr == "replace":
            if len(n.args) != 2:
                raise ExtractError("sanitizer(): replace with count is not modelled")
            out.append((sval(n.args[0]), sval(n.args[1])))
            n = n.func.value
        if not (isinstance(n, ast.Name) and n.id == "unit"):
            raise ExtractError("sanitizer(): replace chain is not rooted at `unit`")
        return list(reversed(out))

    returned = False
    for st_ in f_san.body:
        if isinstance(st_, ast.Expr) and isinstance(st_.value, ast.Constant):
            continue
        if isinstance(st_, ast.Assign) and isinstance(st_.targets[0], ast.Name):
            tgt = st_.targets[0].id
            if tgt == "unit":
                if loop is not None:
                    raise ExtractError("sanitizer(): replace after the loop is not modelled")
                chain_pairs += replace_chain(st_.value)
            else:
                lenv[tgt] = _const_str(st_.value)
            continue
        if isinstance(st_, ast.While):
            t = st_.test
            if not (isinstance(t, ast.Compare) and len(t.ops) == 1 and isinstance(t.ops[0], ast.In)
                    and isinstance(t.comparators[0], ast.Name) and t.comparators[0].id == "unit"):
                raise ExtractError("sanitizer(): unrecognised loop condition")
            pat = sval(t.left)
            if len(st_.body) != 1 or not isinstance(st_.body[0], ast.Assign):
                raise ExtractError("sanitizer(): unrecognised loop body")
            body_pairs = replace_chain(st_.body[0].value)
            if len(body_pairs) != 1 or body_pairs[0][0] != pat or loop is not None:
                raise ExtractError("sanitizer(): loop does not replace its own condition pattern")
            loop = body_pairs[0]
            continue
        if isinstance(st_, ast.Return):
            if isinstance(st_.value, ast.Name) and st_.value.id == "unit":
                returned = True
            else:
                if loop is not None:
                    raise ExtractError("sanitizer(): replace after the loop is not modelled")
                chain_pairs += replace_chain(st_.value)
                returned = True
            continue
        raise ExtractError("sanitizer(): unrecognised statement at line %d" % st_.lineno)
    if not returned:
        raise ExtractError("sanitizer(): no return found")
    for a, b in chain_pairs + ([loop] if loop else []):
        if a == "":
            raise ExtractError("sanitizer(): replace of the empty string is not modelled")

    L = []
    L.append("/- GENERATED by harness/extract/units.py from nixio/util/units.py — do not edit. -/")
    L.append("namespace Nix.Units.Gen")
    L.append("")
    L.append("inductive Piece where | pre | unit | pow | optPre | optPow")
    L.append("  deriving DecidableEq, Repr")
    L.append("structure Shape where")
    L.append("  pieces : List Piece")
    L.append("  endAnchor : Bool")
    L.append("  deriving DecidableEq, Repr")
    L.append("")
    L.append("def prefixes : List (List Char) := " + lean_list(lean_chars(p) for p in prefixes))
    L.append("def units : List (List Char) := " + lean_list(lean_chars(u) for u in units))
    L.append("def prefixExp : List (List Char × Int) := " +
             lean_list("(%s, %s)" % (lean_chars(k), lean_int(e)) for k, e in factors))
    L.append("")
    L.append("def atomicShape : Shape := " + atomic_shape)
    L.append("def compoundAtomShape : Shape := " + comp_atom_shape)
    L.append("def compoundUsesSearch : Bool := " + lean_bool(comp_search))
    L.append("def pupShape : Shape := " + shape_term(*shapes["pup"]))
    L.append("def unitPowShape : Shape := " + shape_term(*shapes["unit_matcher"]))
    L.append("def preUnitShape : Shape := " + shape_term(*shapes["prefix_matcher"]))
    L.append("def compoundSplitShape : Shape := " + comp_split_shape)
    L.append("")
    L.append("/-- test of the third branch of the prefix chain in `scaling`, as a function of")
    L.append("`org_prefix == \"\"` and `dest_prefix == \"\"` -/")
    L.append("def bothPrefixedBranch (orgEmpty destEmpty : Bool) : Bool := " + both_cond)
    L.append("")
    L.append("def sanitizerChain : List (List Char × List Char) := " +
             lean_list("(%s, %s)" % (lean_chars(a), lean_chars(b)) for a, b in chain_pairs))
    L.append("def sanitizerLoop : Option (List Char × List Char) := " +
             ("some (%s, %s)" % (lean_chars(loop[0]), lean_chars(loop[1])) if loop else "none"))
    L.append("")
    L.append("end Nix.Units.Gen")
    return {"NixModel/Generated/UnitsTables.lean": "\n".join(L) + "\n"}


if __name__ == "__main__":
    import sys
    for k, v in extract(sys.argv[1] if len(sys.argv) > 1 else "/repo").items():
        print("==", k)
        print(v)
