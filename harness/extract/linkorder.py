"""Translator: nixio/dimensions.py, nixio/data_array.py  ->  NixModel/Generated/LinkOrder.lean      (property C12)

The functions that build a dimension link hand the `index` argument on to each other; a refused call leaves the
dimension alone only if everything the late validations ask for has been asked before the first write.  Rendered
here, in statement order and with the callees inlined, as step lists over the vocabulary of
NixModel/Pure/LinkWrite.lean:

    Dimension.link_data_array            (pre-checks incl. the file of the object, remove_link,
                                          DimensionLink.create_new incl. the index setter)
    RangeDimension.link_data_array       (the above, then the ticks are deleted)
    Dimension.link_data_frame / RangeDimension.link_data_frame
    DataArray.append_range_dimension_using_self

Every statement of these functions and of the helpers they call (`_check_link_dimensionality`, `_check_index`,
`DimensionLink.create_new`, the `DimensionLink.index` setter, `remove_link`, `has_link`) must be one the table
below knows (compared as `ast.unparse` text, so layout and comments do not matter): a new, changed or re-ordered
statement either changes the generated lists (and `lake build` fails on the `*_refused_unchanged` theorems of
Props/C12.lean, which evaluate the discipline `safe` on them) or raises ExtractError (broken tie).
Parsed with `ast`, never imported.
"""
import ast
import os

from .leanfmt import ExtractError

TARGET = "NixModel/Generated/LinkOrder.lean"


def _u(n):
    return ast.unparse(n)


def _E(src):
    return ast.unparse(ast.parse(src).body[0])


def _parse(repo, rel):
    with open(os.path.join(repo, rel), encoding="utf-8") as fh:
        return ast.parse(fh.read())


def _cls(tree, name, rel):
    for n in tree.body:
        if isinstance(n, ast.ClassDef) and n.name == name:
            return n
    raise ExtractError("%s: class %s not found" % (rel, name))


def _method(cls, name, setter=False):
    for n in cls.body:
        if isinstance(n, ast.FunctionDef) and n.name == name:
            decs = [_u(d) for d in n.decorator_list]
            if setter == (name + ".setter" in decs) and (setter or "property" not in decs or True):
                if not setter and (name + ".setter") in decs:
                    continue
                return n
    raise ExtractError("%s.%s%s not found" % (cls.name, name, " (setter)" if setter else ""))


def _body(fn):
    return [st for st in fn.body if not (isinstance(st, ast.Expr) and isinstance(st.value, ast.Constant))]


def _const_assign(st):
    """`name = <text built from constants / .format(...) of len()s>`: a message, no effect"""
    if not (isinstance(st, ast.Assign) and len(st.targets) == 1 and isinstance(st.targets[0], ast.Name)):
        return False
    v = st.value
    if isinstance(v, ast.Constant) and isinstance(v.value, str):
        return True
    return (isinstance(v, ast.Call) and isinstance(v.func, ast.Attribute) and v.func.attr == "format" and
            isinstance(v.func.value, ast.Constant) and st.targets[0].id.endswith("_msg"))


def _fail(where, st):
    raise ExtractError("%s line %d: statement not modelled: %s" % (where, st.lineno, _u(st)[:90]))


def _guard_if(st, cond, arg_names):
    """`if <cond>: return <message>` of a `_check_*` helper"""
    if not (isinstance(st, ast.If) and not st.orelse and len(st.body) == 1 and isinstance(st.body[0], ast.Return)):
        return False
    return _u(st.test) == _E(cond)


def _check_dimensionality(fn, where):
    """`_check_link_dimensionality(data_array, index)` -> [rankMatches]"""
    steps = []
    for st in _body(fn):
        if _const_assign(st):
            continue
        if _guard_if(st, "len(data_array.data_extent) != len(index)", None):
            steps.append(".guard .rankMatches")
        elif isinstance(st, ast.Return) and _u(st) == "return None":
            continue
        else:
            _fail(where, st)
    if steps != [".guard .rankMatches"]:
        raise ExtractError("%s: no longer exactly the rank comparison" % where)
    return steps


def _check_index(fn, where):
    """`_check_index(index)` -> its validations in order"""
    steps = []
    for st in _body(fn):
        if _const_assign(st):
            continue
        if _u(st) == _E("util.check_attr_type(index, Sequence)"):
            steps.append(".guard .isSequence")
        elif isinstance(st, ast.For) and _u(st.target) == "idx" and _u(st.iter) == "index" and not st.orelse and \
                len(st.body) == 1 and _guard_if(st.body[0], "not isinstance(idx, (int, float, np.integer, np.floating))", None):
            steps.append(".guard .entriesPlain")
        elif _guard_if(st, "np.asarray(list(index)).dtype.kind not in 'iufb'", None):
            steps.append(".guard .entriesStorable")
        elif _guard_if(st, "index.count(-1) != 1 or sum((idx < 0 for idx in index)) != 1", None):
            steps += [".guard .oneMinusOne", ".guard .oneNegative"]
        elif _guard_if(st, "index.count(-1) != 1", None):
            steps.append(".guard .oneMinusOne")
        elif _guard_if(st, "sum((idx < 0 for idx in index)) != 1", None):
            steps.append(".guard .oneNegative")
        elif isinstance(st, ast.Return) and _u(st) == "return None":
            continue
        else:
            _fail(where, st)
    return steps


def _index_setter(fn, where):
    """the `DimensionLink.index` setter: {dotype: steps}"""
    body = _body(fn)
    if len(body) != 1 or not isinstance(body[0], ast.If):
        raise ExtractError("%s: no longer one if / elif / else over the data object type" % where)
    out = {}
    node = body[0]
    while True:
        t = _u(node.test)
        if t == _E("self._data_object_type == 'DataArray'"):
            key = "DataArray"
        elif t == _E("self._data_object_type == 'DataFrame'"):
            key = "DataFrame"
        else:
            raise ExtractError("%s: unknown branch %s" % (where, t))
        steps = []
        for st in node.body:
            s = _u(st)
            if s == _E("util.check_attr_type(index, Sequence)"):
                steps.append(".guard .isSequence")
            elif s == _E("util.check_attr_type(index, int)"):
                steps.append(".guard .colIsInt")
            elif isinstance(st, ast.If) and not st.orelse and _u(st.test) == _E("index.count(-1) != 1") and \
                    len(st.body) == 1 and isinstance(st.body[0], ast.Raise):
                steps.append(".guard .oneMinusOne")
            elif s == _E("self._h5group.set_attr('index', list(index))"):
                steps.append(".setIndexAttr")
            elif s == _E("self._h5group.set_attr('index', index)"):
                steps.append(".setColAttr")
            else:
                _fail(where, st)
        out[key] = steps
        if len(node.orelse) == 1 and isinstance(node.orelse[0], ast.If):
            node = node.orelse[0]
            continue
        if not (len(node.orelse) == 1 and isinstance(node.orelse[0], ast.Raise)):
            raise ExtractError("%s: the final else no longer just raises" % where)
        break
    if set(out) != {"DataArray", "DataFrame"}:
        raise ExtractError("%s: branches %s" % (where, sorted(out)))
    return out


def _create_new(fn, setter, where):
    """`DimensionLink.create_new(.., dataobj, dotype, index)` -> function of the dotype literal"""
    def steps_for(dotype):
        steps = []
        for st in _body(fn):
            s = _u(st)
            if s in (_E("id_ = util.create_id()"), _E("newdimlink = cls(nixfile, nixparent, h5group)"),
                     _E("now = util.time_to_str(util.now_int())"), _E("return newdimlink")):
                continue
            if s == _E("h5group = h5parent.open_group('link', True)"):
                steps.append(".openLinkGroup")
            elif s == _E("h5group.set_attr('entity_id', id_)"):
                if not steps or steps[-1] != ".openLinkGroup":
                    raise ExtractError("%s: entity_id is no longer written right after the group is opened" % where)
            elif s == _E("newdimlink._h5group.set_attr('data_object_type', dotype)"):
                steps.append(".setDotype %s" % ("true" if dotype == "DataArray" else "false"))
            elif s == _E("newdimlink._h5group.create_link(dataobj, dataobj.id)"):
                steps.append(".createTargetLink")
            elif s == _E("newdimlink.index = index"):
                if not any(x.startswith(".setDotype") for x in steps):
                    raise ExtractError("%s: the index is assigned before data_object_type is written" % where)
                steps += setter[dotype]
            elif s == _E("newdimlink._h5group.set_attr('created_at', now)"):
                steps.append(".setCreated")
            elif s == _E("newdimlink._h5group.set_attr('updated_at', now)"):
                steps.append(".setUpdated")
            else:
                _fail(where, st)
        return steps
    return steps_for


def _is_raise_if_msg(st):
    return isinstance(st, ast.If) and not st.orelse and _u(st.test) == _E("msg is not None") and \
        len(st.body) == 1 and isinstance(st.body[0], ast.Raise)


def _remove_link_if_any(st, dimcls, where):
    """`if self.has_link: self.remove_link()` with has_link / remove_link of the expected shape"""
    if not (isinstance(st, ast.If) and not st.orelse and _u(st.test) == _E("self.has_link") and
            [_u(x) for x in st.body] == [_E("self.remove_link()")]):
        return False
    rl = [_u(x) for x in _body(_method(dimcls, "remove_link"))]
    if rl != [_E("if not self.has_link:\n    raise RuntimeError('Dimension has no link')"),
              _E("self._h5group.delete('link', False)")]:
        raise ExtractError("%s: Dimension.remove_link changed: %s" % (where, rl))
    hl = [_u(x) for x in _body(_method(dimcls, "has_link"))]
    if hl != [_E("if 'link' in self._h5group:\n    return True"), _E("return False")]:
        raise ExtractError("%s: Dimension.has_link changed: %s" % (where, hl))
    return True


def _same_file_test(st, obj):
    """`if <obj>._h5group.group.file != self._h5group.group.file: raise ValueError(..)`: the test H5Group.create_link
    makes of the object (in the middle of DimensionLink.create_new), asked up front"""
    return isinstance(st, ast.If) and not st.orelse and len(st.body) == 1 and isinstance(st.body[0], ast.Raise) and \
        isinstance(st.body[0].exc, ast.Call) and _u(st.body[0].exc.func) == "ValueError" and \
        _u(st.test) == _E("%s._h5group.group.file != self._h5group.group.file" % obj)


def _pairs(body, where):
    """statements with `msg = <helper>(..)` + `if msg is not None: raise` folded into ('call', helper text)"""
    out, i = [], 0
    while i < len(body):
        st = body[i]
        if isinstance(st, ast.Assign) and _u(st.targets[0]) == "msg" and isinstance(st.value, ast.Call):
            if i + 1 >= len(body) or not _is_raise_if_msg(body[i + 1]):
                raise ExtractError("%s line %d: the result of %s is not tested right away" % (where, st.lineno, _u(st.value)))
            out.append(("msgcall", _u(st.value), st))
            i += 2
        else:
            out.append(("stmt", _u(st), st))
            i += 1
    return out


def _link_data_array(dimcls, linkcls, where):
    dimn = _check_dimensionality(_method(dimcls, "_check_link_dimensionality"), "Dimension._check_link_dimensionality")
    cidx = _check_index(_method(dimcls, "_check_index"), "Dimension._check_index")
    setter = _index_setter(_method(linkcls, "index", True), "DimensionLink.index.setter")
    create = _create_new(_method(linkcls, "create_new"), setter, "DimensionLink.create_new")
    steps = []
    for kind, s, st in _pairs(_body(_method(dimcls, "link_data_array")), where):
        if kind == "msgcall" and s == _E("RangeDimension._check_link_dimensionality(data_array, index)"):
            steps += dimn
        elif kind == "msgcall" and s in (_E("self._check_index(index)"), _E("RangeDimension._check_index(index)")):
            steps += cidx
        elif kind == "stmt" and _remove_link_if_any(st, dimcls, where):
            steps.append(".removeLinkIfAny")
        elif kind == "stmt" and s == _E("DimensionLink.create_new(self._file, self, self._h5group, data_array, "
                                        "'DataArray', index)"):
            steps += create("DataArray")
        elif kind == "stmt" and s == _E("util.check_attr_type(index, Sequence)"):
            steps.append(".guard .isSequence")
        elif kind == "stmt" and _same_file_test(st, "data_array"):
            steps.append(".guard .sameFile")
        else:
            _fail(where, st)
    return steps, dimn, cidx, create


def _link_data_frame(dimcls, create, where):
    steps = []
    for kind, s, st in _pairs(_body(_method(dimcls, "link_data_frame")), where):
        if kind == "stmt" and s == _E("util.check_attr_type(index, int)"):
            steps.append(".guard .colIsInt")
        elif kind == "stmt" and isinstance(st, ast.If) and not st.orelse and \
                _u(st.test) == _E("not 0 <= index < len(data_frame.columns)") and len(st.body) == 1 and \
                isinstance(st.body[0], ast.Raise):
            steps.append(".guard .colInRange")
        elif kind == "stmt" and _same_file_test(st, "data_frame"):
            steps.append(".guard .sameFile")
        elif kind == "stmt" and _remove_link_if_any(st, dimcls, where):
            steps.append(".removeLinkIfAny")
        elif kind == "stmt" and s == _E("DimensionLink.create_new(self._file, self, self._h5group, data_frame, "
                                        "'DataFrame', index)"):
            steps += create("DataFrame")
        else:
            _fail(where, st)
    return steps


def _range_override(rcls, name, arg, base, where):
    steps = []
    for st in _body(_method(rcls, name)):
        s = _u(st)
        if s == _E("super(RangeDimension, self).%s(%s, index)" % (name, arg)):
            steps += base
        elif isinstance(st, ast.If) and not st.orelse and _u(st.test) == _E("'ticks' in self._h5group") and \
                [_u(x) for x in st.body] == [_E("self._h5group.delete('ticks', False)")]:
            steps.append(".deleteTicksIfAny")
        else:
            _fail(where, st)
    return steps


def _using_self(dacls, rcls, dimn, cidx, range_lda, where):
    steps = []
    # RangeDimension.create_new(self, dim_index, None): with ticks None it opens the descriptor and sets its type
    cn = [_u(x) for x in _body(_method(rcls, "create_new"))]
    if cn != [_E("newdim = cls(data_array, index)"), _E("newdim._set_dimension_type(DimensionType.Range)"),
              _E("if ticks is not None:\n    newdim._h5group.write_data('ticks', ticks, dtype=DataType.Double)"),
              _E("return newdim")]:
        raise ExtractError("%s: RangeDimension.create_new changed: %s" % (where, cn))
    for kind, s, st in _pairs(_body(_method(dacls, "append_range_dimension_using_self")), where):
        if kind == "stmt" and s == _E("if index is None:\n    index = [0] * len(self.shape)\n    index[0] = -1"):
            continue                                    # the default argument: a list, built before anything else
        if kind == "msgcall" and s == _E("RangeDimension._check_index(index)"):
            steps += cidx
        elif kind == "msgcall" and s == _E("RangeDimension._check_link_dimensionality(self, index)"):
            steps += dimn
        elif kind == "stmt" and s == _E("dim_index = len(self.dimensions) + 1"):
            continue
        elif kind == "stmt" and s == _E("rdim = RangeDimension.create_new(self, dim_index, None)"):
            steps.append(".createDim")
        elif kind == "stmt" and s == _E("rdim.link_data_array(self, index)"):
            # the object handed over is `self`, the array that owns the descriptor `rdim` was just created in: the
            # question "does the object live in the file of the descriptor" does not arise (no guard, and the hard
            # link is `.createSelfLink`, which has nothing to refuse)
            steps += [".createSelfLink" if x == ".createTargetLink" else x for x in range_lda if x != ".guard .sameFile"]
        elif kind == "stmt" and s == _E("if self.file.auto_update_timestamps:\n    self.force_updated_at()"):
            steps.append(".touchArray")
        elif kind == "stmt" and s == _E("return rdim"):
            continue
        else:
            _fail(where, st)
    return steps


def extract(repo):
    dims = _parse(repo, "nixio/dimensions.py")
    dimcls = _cls(dims, "Dimension", "nixio/dimensions.py")
    linkcls = _cls(dims, "DimensionLink", "nixio/dimensions.py")
    rcls = _cls(dims, "RangeDimension", "nixio/dimensions.py")
    dacls = _cls(_parse(repo, "nixio/data_array.py"), "DataArray", "nixio/data_array.py")
    lda, dimn, cidx, create = _link_data_array(dimcls, linkcls, "Dimension.link_data_array")
    ldf = _link_data_frame(dimcls, create, "Dimension.link_data_frame")
    rlda = _range_override(rcls, "link_data_array", "data_array", lda, "RangeDimension.link_data_array")
    rldf = _range_override(rcls, "link_data_frame", "data_frame", ldf, "RangeDimension.link_data_frame")
    us = _using_self(dacls, rcls, dimn, cidx, rlda, "DataArray.append_range_dimension_using_self")
    # SetDimension inherits both link functions unchanged
    scls = _cls(dims, "SetDimension", "nixio/dimensions.py")
    for n in scls.body:
        if isinstance(n, ast.FunctionDef) and n.name in ("link_data_array", "link_data_frame", "remove_link"):
            raise ExtractError("SetDimension.%s: an override that is not modelled" % n.name)

    def lst(xs):
        return "[" + ", ".join(xs) + "]"
    out = ["import NixModel.Pure.LinkWrite",
           "/-! GENERATED by harness/extract/linkorder.py from nixio/dimensions.py, nixio/data_array.py - do not edit -/",
           "namespace Nix.Generated.LinkOrder", "open Nix.LinkWrite", "",
           "/-- `Dimension._check_index(index)`: its validations in source order -/",
           "def checkIndex : List Step := %s" % lst(cidx), "",
           "/-- `Dimension.link_data_array(data_array, index)` (also SetDimension), callees inlined -/",
           "def linkDataArray : List Step := %s" % lst(lda), "",
           "/-- `RangeDimension.link_data_array(data_array, index)` -/",
           "def rangeLinkDataArray : List Step := %s" % lst(rlda), "",
           "/-- `Dimension.link_data_frame(data_frame, index)` (also SetDimension), callees inlined -/",
           "def linkDataFrame : List Step := %s" % lst(ldf), "",
           "/-- `RangeDimension.link_data_frame(data_frame, index)` -/",
           "def rangeLinkDataFrame : List Step := %s" % lst(rldf), "",
           "/-- `DataArray.append_range_dimension_using_self(index)` -/",
           "def appendRangeDimensionUsingSelf : List Step := %s" % lst(us), "",
           "def all : List (String × List Step) :=",
           '  [("Dimension.link_data_array", linkDataArray), ("RangeDimension.link_data_array", rangeLinkDataArray),',
           '   ("Dimension.link_data_frame", linkDataFrame), ("RangeDimension.link_data_frame", rangeLinkDataFrame),',
           '   ("DataArray.append_range_dimension_using_self", appendRangeDimensionUsingSelf)]',
           "", "end Nix.Generated.LinkOrder", ""]
    return {TARGET: "\n".join(out)}
