"""Translator: every place where nixio constructs a *handle* of an entity  ->  NixModel/Generated/HandleSites.lean  (C20)

A copy entry point that names the source by a path below the handle's parent (`CallerShape.srcAddr = .parentPath`)
copies the handle's object only if the parent the handle was constructed with owns the object (`Lemmas/C20Handle`).
This translator lists, from the `ast` of nixio/*.py (never imported), every call that constructs an entity object
(`Block`, `DataArray`, `DataFrame`, `Tag`, `MultiTag`, `Section`, `Property`, `Group`, `Source`, `Feature`):

  * `<Class>(file, <parent>, <h5 object>)`                     (the getters: metadata, link, positions, extents, data ...)
  * `self._itemclass(self._file, <parent>, item)`               (the `_inst_item` of the container classes)
  * `<Class>.create_new(..., <parent>, <h5 parent>, ...)`       (the create_* methods)

with the *parent expression* and the place the HDF5 object is taken from. `Props/C20.lean`
(`handle_sites_owned_or_section`) checks on the generated table that every site that hands out a handle of a kind
whose copy is path-addressed constructs it with the owning parent, and that the sites which do not (`metadata`,
`Section.link`) hand out Sections only. A new site, another parent expression, a site of another form: the table
changes and the theorem no longer builds, or ExtractError. `via = "entry"` says that the handle a container hands out is
built on the very entry it was asked for (`container_items_are_their_entries`): with `path_stays_in_copy` the members a
copy's link lists hand out are objects of the copy.
"""
import ast
import glob
import os

from .leanfmt import ExtractError, lean_str

TARGET = "NixModel/Generated/HandleSites.lean"
ENTITIES = ("Block", "DataArray", "DataFrame", "Tag", "MultiTag", "Section", "Property", "Group", "Source", "Feature")
PARENT = {"None": ".none", "self": ".self", "self._parent": ".parentOfSelf", "self._parent._parent": ".grandparentOfSelf",
          "self._itemstore._parent": ".storeOwner"}


def _u(n):
    return ast.unparse(n)


def _parent_index(trees, cls):
    """position of `nixparent` among the arguments of <cls>.create_new (falls back to Entity.create_new)"""
    for name in (cls, "Entity"):
        for t in trees.values():
            for c in t.body:
                if isinstance(c, ast.ClassDef) and c.name == name:
                    for f in c.body:
                        if isinstance(f, ast.FunctionDef) and f.name == "create_new":
                            names = [a.arg for a in f.args.args][1:]
                            if "nixparent" in names:
                                return names.index("nixparent")
                            if name == "Feature" or name == "Property":
                                return 1
    raise ExtractError("no create_new with a nixparent parameter for %s" % cls)


def _via(fn, node):
    s = _u(node)
    if isinstance(node, ast.Call) and _u(node.func) == "self._h5group.open_group" and len(node.args) == 1 \
            and isinstance(node.args[0], ast.Constant):
        return "link " + node.args[0].value            # the member of that name of the entity's own HDF5 group
    if s == "item":
        # the entry the container was asked for, as handed to the method: `item` is a parameter and nothing in the method
        # binds the name again (a handle built on something looked up in its place is another site)
        params = [a.arg for a in fn.args.args]
        rebound = [n for n in ast.walk(fn) if isinstance(n, ast.Name) and n.id == "item" and isinstance(n.ctx, (ast.Store, ast.Del))]
        if "item" not in params:
            raise ExtractError("line %d: `item` of a constructed handle is not a parameter of %s" % (node.lineno, fn.name))
        return "entry, replaced before the handle is built" if rebound else "entry"
    if isinstance(node, ast.Name):
        # a loop variable over a group opened from the entity's own HDF5 group
        for n in ast.walk(fn):
            if isinstance(n, ast.comprehension) and _u(n.target) == node.id and isinstance(n.iter, ast.Name):
                for a in ast.walk(fn):
                    if isinstance(a, ast.Assign) and _u(a.targets[0]) == n.iter.id and isinstance(a.value, ast.Call) \
                            and _u(a.value.func) == "self._h5group.open_group" and isinstance(a.value.args[0], ast.Constant):
                        return "entry of " + a.value.args[0].value
    raise ExtractError("line %d: HDF5 object `%s` of a constructed handle is not modelled" % (node.lineno, s[:60]))


def sites(repo):
    trees = {}
    for p in sorted(glob.glob(os.path.join(repo, "nixio", "*.py"))):
        trees[os.path.basename(p)] = ast.parse(open(p, encoding="utf-8").read())
    out = []
    for fname, t in trees.items():
        for cls in [n for n in t.body if isinstance(n, ast.ClassDef)]:
            for fn in [n for n in cls.body if isinstance(n, ast.FunctionDef)]:
                for c in ast.walk(fn):
                    if not isinstance(c, ast.Call):
                        continue
                    f = _u(c.func)
                    where = "%s.%s (%s:%d)" % (cls.name, fn.name, fname, c.lineno)
                    if f in ENTITIES or f == "self._itemclass":
                        if len(c.args) != 3 or c.keywords:
                            raise ExtractError("%s: constructor call `%s` is not (file, parent, h5 object)" % (where, _u(c)[:70]))
                        item = f if f in ENTITIES else "item"
                        ptxt = _u(c.args[1])
                        if ptxt in PARENT:
                            par = PARENT[ptxt]
                        else:
                            raise ExtractError("%s: parent expression `%s` is not modelled" % (where, ptxt))
                        out.append((cls.name, fn.name, item, par, _via(fn, c.args[2])))
                    elif isinstance(c.func, ast.Attribute) and c.func.attr == "create_new" \
                            and isinstance(c.func.value, ast.Name) and c.func.value.id in ENTITIES:
                        x = c.func.value.id
                        i = _parent_index(trees, x)
                        if len(c.args) <= i:
                            raise ExtractError("%s: `%s` has no parent argument" % (where, _u(c)[:70]))
                        ptxt = _u(c.args[i])
                        if ptxt != "self":
                            raise ExtractError("%s: %s.create_new with parent `%s` (expected the creating entity)" % (where, x, ptxt))
                        out.append((cls.name, fn.name, x, ".self", "create_new"))
    if not out:
        raise ExtractError("no handle construction sites found")
    return sorted(set(out))


def render(rows):
    lines = ["import NixModel.Store.CopyHandle",
             "/-! GENERATED by harness/extract/handlesites.py from nixio/*.py — do not edit. -/",
             "namespace Nix.Store.CopyShape.Gen", "open Nix.Store.CopyShape", "",
             "/-- every place where nixio constructs an entity handle: class, method, class of the handle, parent "
             "expression, where the HDF5 object comes from -/",
             "def handleSites : List HandleSite := ["]
    body = []
    for cls, meth, item, par, via in rows:
        body.append("  { cls := %s, method := %s, item := %s, parent := %s, via := %s }" % (
            lean_str(cls), lean_str(meth), lean_str(item), par, lean_str(via)))
    lines.append(",\n".join(body) + "]")
    lines += ["", "end Nix.Store.CopyShape.Gen", ""]
    return "\n".join(lines)


def extract(repo):
    return {TARGET: render(sites(repo))}
