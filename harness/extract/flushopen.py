"""Translator: nixio/file.py  ->  NixModel/Generated/OpenShape.lean      (property C17, the open path)

Parses the source with `ast` (never imports it) and renders how `File.__init__` reaches libhdf5:

  * `FileMode` (the three mode letters) and `map_file_mode` (mode -> h5py.h5f.ACC_* flag), as `modeFlags`;
  * `make_fapl()`: the calls made on the file-access property list before it is returned, as `faplCalls`
    (`set_libver_bounds(h5py.h5f.LIBVER_x, h5py.h5f.LIBVER_y)` -> `.libver x y`, any other method -> `.other name`);
    a parameter, a condition or any other statement in `make_fapl` is a broken tie;
  * the *decision table* of `File.__init__`, obtained by running its statements symbolically for every
    (state of the path: missing / empty file / non-empty file) x (mode r / a / w): refusal (InvalidFile,
    RuntimeError), `h5py.h5f.create` or `h5py.h5f.open`, with the access flag passed and the value left in
    `self.mode`, as `openTable`;
  * that both calls receive the caller's `path` (only re-bound by the `path.encode("utf-8")` idiom) and the
    property list of `make_fapl()`, as four Booleans.

The theorems of `Props/C17.lean` compare `openTable` with the model's `openDecision` entry by entry, require that
the property list does not ask for a superblock with a persistent 'open for write' mark (`locking`), and that the
file written is the file named - so an edit of any of these breaks `lake build` on a named theorem.
"""
import ast
import os

from .leanfmt import ExtractError, lean_bool, lean_str

TARGET = "NixModel/Generated/OpenShape.lean"

MODES = (("r", ".readOnly"), ("a", ".readWrite"), ("w", ".overwrite"))
PSTATES = ("missing", "empty", "file")
ACC = {"ACC_RDONLY": ".rdonly", "ACC_RDWR": ".rdwr", "ACC_TRUNC": ".trunc"}
LIBVER = {"LIBVER_EARLIEST": ".earliest", "LIBVER_V18": ".v18", "LIBVER_V110": ".v110", "LIBVER_V112": ".v112",
          "LIBVER_V114": ".v114", "LIBVER_V200": ".v200", "LIBVER_LATEST": ".latest"}


def _dotted(node):
    """`a.b.c` as a string, or None"""
    parts = []
    while isinstance(node, ast.Attribute):
        parts.append(node.attr)
        node = node.value
    if isinstance(node, ast.Name):
        parts.append(node.id)
        return ".".join(reversed(parts))
    return None


def _is_doc(st):
    return isinstance(st, ast.Expr) and isinstance(st.value, ast.Constant) and isinstance(st.value.value, str)


def _func(tree, name):
    fn = None
    for n in tree.body:
        if isinstance(n, ast.FunctionDef) and n.name == name:
            fn = n
    if fn is None:
        raise ExtractError("nixio/file.py has no function %s" % name)
    if fn.decorator_list:
        raise ExtractError("%s is decorated" % name)
    return fn


def _no_params(fn, what):
    a = fn.args
    if a.args or a.posonlyargs or a.kwonlyargs or a.vararg or a.kwarg:
        raise ExtractError("%s takes parameters: its result depends on something the model does not know" % what)


# ------------------------------------------------------------------------------------------------
# FileMode, map_file_mode


def file_modes(tree):
    cls = None
    for n in tree.body:
        if isinstance(n, ast.ClassDef) and n.name == "FileMode":
            cls = n
    if cls is None:
        raise ExtractError("nixio/file.py has no class FileMode")
    out = {}
    for st in cls.body:
        if _is_doc(st) or isinstance(st, ast.Pass):
            continue
        if (isinstance(st, ast.Assign) and len(st.targets) == 1 and isinstance(st.targets[0], ast.Name)
                and isinstance(st.value, ast.Constant) and isinstance(st.value.value, str)):
            out[st.targets[0].id] = st.value.value
        else:
            raise ExtractError("FileMode line %d: not a string constant" % st.lineno)
    want = {"ReadOnly": "r", "ReadWrite": "a", "Overwrite": "w"}
    if out != want:
        raise ExtractError("FileMode is %r, the model knows %r" % (out, want))
    return out


def _mode_const(node, fm):
    """FileMode.X -> its letter"""
    d = _dotted(node)
    if d and d.startswith("FileMode.") and d[9:] in fm:
        return fm[d[9:]]
    return None


def mode_flags(tree, fm):
    """map_file_mode as {letter: ACC name}; shape: if mode == FileMode.X: return h5py.h5f.ACC_Y  elif ... else raise"""
    fn = _func(tree, "map_file_mode")
    if [a.arg for a in fn.args.args] != ["mode"]:
        raise ExtractError("map_file_mode does not take exactly `mode`")
    body = [s for s in fn.body if not _is_doc(s)]
    table = {}
    while body:
        if len(body) != 1:
            raise ExtractError("map_file_mode: statements besides the if-chain")
        st = body[0]
        if isinstance(st, ast.Raise):
            break
        if not isinstance(st, ast.If):
            raise ExtractError("map_file_mode line %d: not an if-chain" % st.lineno)
        t = st.test
        if not (isinstance(t, ast.Compare) and len(t.ops) == 1 and isinstance(t.ops[0], ast.Eq)
                and isinstance(t.left, ast.Name) and t.left.id == "mode"):
            raise ExtractError("map_file_mode line %d: test is not `mode == FileMode.X`" % st.lineno)
        letter = _mode_const(t.comparators[0], fm)
        if letter is None or letter in table:
            raise ExtractError("map_file_mode line %d: unknown or repeated mode" % st.lineno)
        if not (len(st.body) == 1 and isinstance(st.body[0], ast.Return)):
            raise ExtractError("map_file_mode line %d: branch is not a single return" % st.lineno)
        d = _dotted(st.body[0].value)
        if not (d and d.startswith("h5py.h5f.") and d[9:] in ACC):
            raise ExtractError("map_file_mode line %d: returns %s, not a plain h5py.h5f.ACC_* flag"
                               % (st.lineno, ast.unparse(st.body[0].value)))
        table[letter] = d[9:]
        body = list(st.orelse)
    if set(table) != {"r", "a", "w"}:
        raise ExtractError("map_file_mode covers %s" % sorted(table))
    return table


# ------------------------------------------------------------------------------------------------
# make_fapl


def fapl_calls(tree):
    fn = _func(tree, "make_fapl")
    _no_params(fn, "make_fapl")
    body = [s for s in fn.body if not _is_doc(s)]

    def is_create(v):
        return (isinstance(v, ast.Call) and _dotted(v.func) == "h5py.h5p.create" and len(v.args) == 1
                and not v.keywords and _dotted(v.args[0]) == "h5py.h5p.FILE_ACCESS")

    if len(body) == 1 and isinstance(body[0], ast.Return) and is_create(body[0].value):
        return []
    if not (body and isinstance(body[0], ast.Assign) and len(body[0].targets) == 1
            and isinstance(body[0].targets[0], ast.Name) and is_create(body[0].value)):
        raise ExtractError("make_fapl does not start from h5py.h5p.create(h5py.h5p.FILE_ACCESS)")
    var = body[0].targets[0].id
    if not (isinstance(body[-1], ast.Return) and isinstance(body[-1].value, ast.Name)
            and body[-1].value.id == var):
        raise ExtractError("make_fapl does not return the property list it created")
    calls = []
    for st in body[1:-1]:
        if not (isinstance(st, ast.Expr) and isinstance(st.value, ast.Call)
                and isinstance(st.value.func, ast.Attribute) and isinstance(st.value.func.value, ast.Name)
                and st.value.func.value.id == var):
            raise ExtractError("make_fapl line %d: %s is not a plain call on the property list"
                               % (st.lineno, type(st).__name__))
        c = st.value
        if c.func.attr == "set_libver_bounds":
            if len(c.args) != 2 or c.keywords:
                raise ExtractError("make_fapl line %d: set_libver_bounds without two positional bounds" % st.lineno)
            bounds = []
            for a in c.args:
                d = _dotted(a)
                if not (d and d.startswith("h5py.h5f.") and d[9:] in LIBVER):
                    raise ExtractError("make_fapl line %d: bound %s is not h5py.h5f.LIBVER_*"
                                       % (st.lineno, ast.unparse(a)))
                bounds.append(LIBVER[d[9:]])
            calls.append(".libver %s %s" % tuple(bounds))
        else:
            calls.append(".other %s" % lean_str(c.func.attr))
    return calls


# ------------------------------------------------------------------------------------------------
# File.__init__, run symbolically


class _Unknown(Exception):
    pass


class _Refuse(Exception):
    def __init__(self, what):
        self.what = what


def _eval(node, env, fm):
    """truth value of a test of __init__ for one (path state, mode); short-circuit like Python"""
    if isinstance(node, ast.BoolOp):
        if isinstance(node.op, ast.And):
            for v in node.values:
                if not _eval(v, env, fm):
                    return False
            return True
        for v in node.values:
            if _eval(v, env, fm):
                return True
        return False
    if isinstance(node, ast.UnaryOp) and isinstance(node.op, ast.Not):
        return not _eval(node.operand, env, fm)
    if isinstance(node, ast.Compare) and len(node.ops) == 1 and isinstance(node.ops[0], (ast.Eq, ast.NotEq)):
        l, r = node.left, node.comparators[0]
        eq = isinstance(node.ops[0], ast.Eq)
        for a, b in ((l, r), (r, l)):
            if isinstance(a, ast.Name) and a.id == "mode":
                c = _mode_const(b, fm)
                if c is None:
                    raise _Unknown(ast.unparse(node))
                return (env["mode"] == c) == eq
        for a, b in ((l, r), (r, l)):
            if (isinstance(a, ast.Call) and _dotted(a.func) == "os.path.getsize" and _is_path_args(a)
                    and isinstance(b, ast.Constant) and b.value == 0):
                if env["ps"] == "missing":
                    raise ExtractError("File.__init__ line %d: os.path.getsize on a missing path" % node.lineno)
                return (env["ps"] == "empty") == eq
        raise _Unknown(ast.unparse(node))
    if isinstance(node, ast.Call) and _is_path_args(node):
        d = _dotted(node.func)
        if d in ("os.path.exists", "os.path.isfile"):
            return env["ps"] != "missing"
    raise _Unknown(ast.unparse(node))


def _is_path_args(call):
    return len(call.args) == 1 and not call.keywords and isinstance(call.args[0], ast.Name) \
        and call.args[0].id == "path"


def _stores(node):
    """names / self attributes assigned anywhere below node"""
    out = set()
    for n in ast.walk(node):
        if isinstance(n, ast.Name) and isinstance(n.ctx, ast.Store):
            out.add(n.id)
        if isinstance(n, ast.Attribute) and isinstance(n.ctx, ast.Store) and isinstance(n.value, ast.Name) \
                and n.value.id == "self":
            out.add("self." + n.attr)
    return out


WATCHED = {"path", "fid", "mode", "h5mode", "self._h5file", "self.mode"}


def _encode_idiom(st):
    """try: path = path.encode("utf-8")  except (...): pass"""
    if not (isinstance(st, ast.Try) and len(st.body) == 1 and not st.orelse and not st.finalbody):
        return False
    a = st.body[0]
    ok = (isinstance(a, ast.Assign) and len(a.targets) == 1 and isinstance(a.targets[0], ast.Name)
          and a.targets[0].id == "path" and isinstance(a.value, ast.Call)
          and _dotted(a.value.func) == "path.encode")
    return ok and all(len(h.body) == 1 and isinstance(h.body[0], ast.Pass) for h in st.handlers)


def _run(stmts, env, fm, mf, res):
    for st in stmts:
        if _is_doc(st) or isinstance(st, ast.Pass):
            continue
        if _encode_idiom(st):
            continue
        if isinstance(st, ast.If):
            try:
                t = _eval(st.test, env, fm)
            except _Unknown as u:
                if res.get("act") is None:
                    raise ExtractError("File.__init__ line %d: cannot decide `%s` before the file is opened"
                                       % (st.lineno, u))
                if _stores(st) & WATCHED:
                    raise ExtractError("File.__init__ line %d: path/mode/file re-bound under a condition the "
                                       "translator cannot decide" % st.lineno)
                continue
            _run(st.body if t else st.orelse, env, fm, mf, res)
            continue
        if isinstance(st, ast.Raise):
            exc = st.exc
            name = _dotted(exc.func if isinstance(exc, ast.Call) else exc) if exc is not None else None
            if res.get("act") is not None:
                raise ExtractError("File.__init__ line %d: raises after the file was opened" % st.lineno)
            if name == "InvalidFile":
                raise _Refuse(".refuseInvalidFile")
            if name == "RuntimeError":
                raise _Refuse(".refuseRuntime")
            raise ExtractError("File.__init__ line %d: raises %s" % (st.lineno, name))
        if isinstance(st, ast.Assign) and len(st.targets) == 1:
            tg, v = st.targets[0], st.value
            if isinstance(tg, ast.Name) and tg.id == "mode":
                c = _mode_const(v, fm)
                if c is None:
                    raise ExtractError("File.__init__ line %d: mode re-bound to %s" % (st.lineno, ast.unparse(v)))
                env["mode"] = c
                continue
            if isinstance(tg, ast.Name) and tg.id == "h5mode":
                if not (isinstance(v, ast.Call) and _dotted(v.func) == "map_file_mode" and len(v.args) == 1
                        and isinstance(v.args[0], ast.Name) and v.args[0].id == "mode" and not v.keywords):
                    raise ExtractError("File.__init__ line %d: h5mode is not map_file_mode(mode)" % st.lineno)
                env["h5mode"] = mf[env["mode"]]
                continue
            if isinstance(tg, ast.Name) and tg.id == "path":
                res["path_rebound"] = True
                continue
            if isinstance(tg, ast.Name) and tg.id == "fid":
                d = _dotted(v.func) if isinstance(v, ast.Call) else None
                if d not in ("h5py.h5f.create", "h5py.h5f.open") or res.get("act") is not None:
                    raise ExtractError("File.__init__ line %d: fid = %s" % (st.lineno, ast.unparse(v)))
                kw = dict((k.arg, k.value) for k in v.keywords)
                want = {"flags", "fapl"} | ({"fcpl"} if d.endswith("create") else set())
                if set(kw) != want or len(v.args) != 1:
                    raise ExtractError("File.__init__ line %d: unexpected arguments of %s" % (st.lineno, d))
                if not (isinstance(kw["flags"], ast.Name) and kw["flags"].id == "h5mode" and "h5mode" in env):
                    raise ExtractError("File.__init__ line %d: flags is not h5mode" % st.lineno)
                res["act"] = "create" if d.endswith("create") else "open"
                res["flags"] = env["h5mode"]
                res["path_is_arg"] = (isinstance(v.args[0], ast.Name) and v.args[0].id == "path"
                                      and not res.get("path_rebound"))
                f = kw["fapl"]
                res["fapl_is_make_fapl"] = (isinstance(f, ast.Call) and _dotted(f.func) == "make_fapl"
                                            and not f.args and not f.keywords)
                continue
            if isinstance(tg, ast.Attribute) and isinstance(tg.value, ast.Name) and tg.value.id == "self" \
                    and tg.attr == "mode":
                if not (isinstance(v, ast.Name) and v.id == "mode"):
                    raise ExtractError("File.__init__ line %d: self.mode = %s" % (st.lineno, ast.unparse(v)))
                res["self_mode"] = env["mode"]
                continue
        # anything else (header handling, containers, compression default ...) must leave the watched names alone
        bad = _stores(st) & (WATCHED - {"self._h5file"})
        if bad:
            raise ExtractError("File.__init__ line %d: %s assigned in a statement the translator does not "
                               "understand" % (st.lineno, sorted(bad)))
        for n in ast.walk(st):
            if isinstance(n, ast.Raise) or isinstance(n, ast.Return):
                # _check_header etc. are calls; a raise/return buried in a loop or try here is not modelled
                raise ExtractError("File.__init__ line %d: raise/return inside %s" % (st.lineno, type(st).__name__))


def open_table(tree, fm, mf):
    cls = None
    for n in tree.body:
        if isinstance(n, ast.ClassDef) and n.name == "File":
            cls = n
    if cls is None:
        raise ExtractError("nixio/file.py has no class File")
    init = None
    for n in cls.body:
        if isinstance(n, ast.FunctionDef) and n.name == "__init__":
            init = n
    if init is None:
        raise ExtractError("class File has no __init__")
    names = [a.arg for a in init.args.args]
    if names[:3] != ["self", "path", "mode"]:
        raise ExtractError("File.__init__ parameters are %s" % names)
    rows = []
    facts = {"create_path": True, "open_path": True, "create_fapl": True, "open_fapl": True}
    seen = set()
    for ps in PSTATES:
        for letter, lean_mode in MODES:
            env = {"ps": ps, "mode": letter}
            res = {}
            try:
                _run(init.body, env, fm, mf, res)
            except _Refuse as r:
                rows.append((ps, lean_mode, r.what))
                continue
            if res.get("act") is None:
                raise ExtractError("File.__init__ opens nothing for a %s path in mode %r" % (ps, letter))
            if "self_mode" not in res:
                raise ExtractError("File.__init__ does not set self.mode for a %s path in mode %r" % (ps, letter))
            lm = dict(MODES)[res["self_mode"]]
            rows.append((ps, lean_mode, "(.%s %s %s)" % ("create" if res["act"] == "create" else "openExisting",
                                                        ACC[res["flags"]], lm)))
            seen.add(res["act"])
            k = "create" if res["act"] == "create" else "open"
            facts[k + "_path"] = facts[k + "_path"] and res["path_is_arg"]
            facts[k + "_fapl"] = facts[k + "_fapl"] and res["fapl_is_make_fapl"]
    if seen != {"create", "open"}:
        raise ExtractError("File.__init__ never reaches %s" % sorted({"create", "open"} - seen))
    return rows, facts


def shape(repo):
    path = os.path.join(repo, "nixio", "file.py")
    tree = ast.parse(open(path, encoding="utf-8").read())
    fm = file_modes(tree)
    mf = mode_flags(tree, fm)
    rows, facts = open_table(tree, fm, mf)
    return {"mode_flags": mf, "fapl": fapl_calls(tree), "rows": rows, "facts": facts}


def render(sh):
    mf = ", ".join("(%s, %s)" % (lm, ACC[sh["mode_flags"][letter]]) for letter, lm in MODES)
    rows = ",\n   ".join("((.%s, %s), %s)" % r for r in sh["rows"])
    f = sh["facts"]
    return (
        "import NixModel.Pure.OpenPrim\n"
        "/-! GENERATED by harness/extract/flushopen.py from nixio/file.py — do not edit. -/\n"
        "namespace Nix.Flush.Gen\n"
        "open Nix.Flush\n\n"
        "/-- `map_file_mode`: FileMode -> h5py.h5f.ACC_* -/\n"
        "def modeFlags : List (Mode × Flags) := [%s]\n"
        "/-- calls made on the file-access property list in `make_fapl()` -/\n"
        "def faplCalls : List FaplCall := [%s]\n"
        "/-- `File.__init__` run symbolically: (state of the path, mode) -> what reaches libhdf5 -/\n"
        "def openTable : List ((PathState × Mode) × OpenAct) :=\n  [%s]\n"
        "/-- `h5py.h5f.create` receives the caller's path -/\n"
        "def createPathIsArg : Bool := %s\n"
        "/-- `h5py.h5f.open` receives the caller's path -/\n"
        "def openPathIsArg : Bool := %s\n"
        "/-- `h5py.h5f.create` receives `make_fapl()` -/\n"
        "def createFaplIsMakeFapl : Bool := %s\n"
        "/-- `h5py.h5f.open` receives `make_fapl()` -/\n"
        "def openFaplIsMakeFapl : Bool := %s\n\n"
        "end Nix.Flush.Gen\n" % (mf, ", ".join(sh["fapl"]), rows, lean_bool(f["create_path"]),
                                 lean_bool(f["open_path"]), lean_bool(f["create_fapl"]),
                                 lean_bool(f["open_fapl"])))


def extract(repo):
    return {TARGET: render(shape(repo))}
