"""Translator: nixio/data_set.py, nixio/hdf5/h5dataset.py, nixio/data_array.py, nixio/block.py
      ->  NixModel/Generated/DataSetShape.lean                                                   (property C01)

A small compiler from the Python subset the array I/O methods are written in to Lean *definitions* (not tables
of strings) over the vocabulary of `NixModel/Pure/NdGen.lean`:

  H5DataSet.write_data / read_data (up to the string decoding) / shape getter + setter
  DataSet._write_data / _read_data / data_extent getter + setter / shape / len / size / write_direct /
          __getitem__ / __setitem__ / append (whole body: every check, every comprehension, the resize, the
          hyperslab write, the restore-on-failure)
  DataArray._read_data (the single-value rule; the calibration statements are C15's)
  Block.create_data_array: the dtype / shape / data argument rules and the creation + write_direct sequence

`Lemmas/C01Gen.lean` proves every generated definition equal, for all inputs, to the hand-written model the C01
theorems are about (`Props/C01.lean`, `C01_source_*`): a reordered or dropped check, `if not slc` for
`if slc is None`, a changed offset / enlarge expression, a dropped restore, another exception class, another
single-value test change a generated definition and break `lake build` on a named theorem.

Statements understood: `x = <expr>`, `x = self._h5group.get_dataset("data")` (alias of the dataset), `if c: raise E`,
`if c: <assign> [else: <assign>]`, `if c: <store> else: <store>`, `self.data_extent = e` / `dataset.shape = e` /
`self.dataset.resize(e)`, `self.dataset[i] = d`, `try: <store> except Exception: <store>; raise`,
`try: x = self.dataset[i] except E1 as v: raise F1(v) ...`, `return <expr>`, a call of a compiled method.
Expressions: int constants, names, `len`, `any([comprehension])`, `tuple(generator)`, comprehensions over
`enumerate(t)`, `zip(t, u)`, `enumerate(zip(t, u))`, `t[i]`, `a + b`, `a if c else b`, comparisons (chained too),
`not`, `is None` / `is not None`, `slice(a, b)`, `np.ascontiguousarray`, `np.prod`, `np.array`, `.shape`.
Anything else raises ExtractError (a broken tie: the check then searches for a failing input).  `ast` only.
"""
import ast
import os

from .leanfmt import ExtractError, lean_str

TARGET = "NixModel/Generated/DataSetShape.lean"

EXC = {"ValueError": ".err .valueError", "TypeError": ".err .typeError", "IndexError": ".err .indexError",
       "KeyError": ".err .keyError", "RuntimeError": ".err .runtimeError", "OverflowError": ".err .overflowError",
       "AttributeError": ".err .attributeError", "OSError": ".osError"}
CMP = {ast.Lt: "<", ast.LtE: "≤", ast.Gt: ">", ast.GtE: "≥", ast.Eq: "=", ast.NotEq: "≠"}


def _u(node):
    return ast.unparse(node)


class Ctx:
    def __init__(self, fn, vars):
        self.fn = fn
        self.vars = dict(vars)        # python name -> (kind, lean term)
        self.n = 0

    def fresh(self):
        self.n += 1
        return "t%d" % self.n

    def child(self, extra=None):
        c = Ctx(self.fn, self.vars)
        c.n = self.n
        if extra:
            c.vars.update(extra)
        return c

    def fail(self, node, why):
        raise ExtractError("%s: line %s: %s: `%s`" % (self.fn, getattr(node, "lineno", "?"), why, _u(node)[:120]))


def _parse(repo, rel):
    p = os.path.join(repo, rel)
    try:
        with open(p, encoding="utf-8") as f:
            return ast.parse(f.read(), filename=rel)
    except (OSError, SyntaxError) as e:
        raise ExtractError("cannot parse %s: %s" % (rel, e))


def _cls(tree, name, rel):
    for n in tree.body:
        if isinstance(n, ast.ClassDef) and n.name == name:
            return n
    raise ExtractError("class %s not found in %s" % (name, rel))


def _fn(cls, name, kind=None):
    """method `name`; kind: None | 'getter' | 'setter'"""
    for n in cls.body:
        if isinstance(n, ast.FunctionDef) and n.name == name:
            decs = [_u(d) for d in n.decorator_list]
            if kind is None and not decs:
                return n
            if kind == "getter" and decs == ["property"]:
                return n
            if kind == "setter" and decs == ["%s.setter" % name]:
                return n
    raise ExtractError("%s.%s (%s) not found" % (cls.name, name, kind or "method"))


def _body(fn):
    """statements without the docstring"""
    b = list(fn.body)
    if b and isinstance(b[0], ast.Expr) and isinstance(b[0].value, ast.Constant) and isinstance(b[0].value.value, str):
        b = b[1:]
    return b


def _params(fn):
    """[(name, default-or-None)] without self"""
    args = fn.args.args[1:]
    defs = [None] * (len(args) - len(fn.args.defaults)) + list(fn.args.defaults)
    if fn.args.vararg or fn.args.kwarg or fn.args.kwonlyargs:
        raise ExtractError("%s: unexpected parameter forms" % fn.name)
    return [(a.arg, d) for a, d in zip(args, defs)]


# ------------------------------------------------------------------------------------------------------------
# expressions.  cx returns (lean term, binds) where binds = [(name, Except-term)] to be evaluated first, in order


def wrap_binds(binds, pure_term, monad_ok=".ok"):
    """Except-valued term evaluating the binds in order, then `.ok pure_term`"""
    t = "%s (%s)" % (monad_ok, pure_term)
    for name, term in reversed(binds):
        t = "(%s).bind fun %s => %s" % (term, name, t)
    return t


def is_none(node):
    return isinstance(node, ast.Constant) and node.value is None


def shape_of(c, node):
    """`<x>.shape` for x the dataset object or an array -> (term) or None"""
    if isinstance(node, ast.Attribute) and node.attr in ("shape", "data_extent") and isinstance(node.value, ast.Name):
        v = c.vars.get(node.value.id)
        if v is None:
            return None
        if v[0] == "ds":
            return "dsShapeOf %s" % v[1] if node.attr == "shape" else "dsExtent %s" % v[1]
        if v[0] == "h5ds" and node.attr == "shape":
            return "h5Shape %s" % v[1]
        if v[0] == "arr" and node.attr == "shape":
            return "arrShape %s" % v[1]
        if v[0] == "nd" and node.attr == "shape":
            return "ndShape %s" % v[1]
    if isinstance(node, ast.Attribute) and node.attr == "shape" and _u(node.value) == "self.dataset":
        v = c.vars.get("self")
        if v and v[0] == "h5ds":
            return "dsShape %s" % v[1]
    return None


def cx_ints(c, node):
    """tuple of ints"""
    s = shape_of(c, node)
    if s is not None:
        return s, []
    if isinstance(node, ast.Name) and node.id in c.vars and c.vars[node.id][0] == "ints":
        return c.vars[node.id][1], []
    if isinstance(node, ast.Call) and isinstance(node.func, ast.Name) and node.func.id == "tuple" and len(node.args) == 1:
        a = node.args[0]
        if isinstance(a, ast.GeneratorExp):
            return cx_comp(c, a, "int")
        return cx_ints(c, a)
    c.fail(node, "unsupported tuple-of-ints expression")


def cx_int(c, node):
    if isinstance(node, ast.Constant) and isinstance(node.value, int) and not isinstance(node.value, bool):
        return (str(node.value) if node.value >= 0 else "(%d)" % node.value), []
    if isinstance(node, ast.Name):
        v = c.vars.get(node.id)
        if v and v[0] == "int":
            return v[1], []
        c.fail(node, "not an integer variable in scope")
    if isinstance(node, ast.BinOp) and isinstance(node.op, (ast.Add, ast.Sub, ast.Mult)):
        a, b1 = cx_int(c, node.left)
        b, b2 = cx_int(c, node.right)
        op = {ast.Add: "+", ast.Sub: "-", ast.Mult: "*"}[type(node.op)]
        return "(%s %s %s)" % (a, op, b), b1 + b2
    if isinstance(node, ast.IfExp):
        t, b0 = cx_bool(c, node.test)
        a, b1 = cx_int(c, node.body)
        b, b2 = cx_int(c, node.orelse)
        if b1 or b2:
            c.fail(node, "conditional expression with a branch that may raise")
        return "(if %s then %s else %s)" % (t, a, b), b0
    if isinstance(node, ast.Call) and isinstance(node.func, ast.Name) and node.func.id == "len" and len(node.args) == 1:
        t, b = cx_ints(c, node.args[0])
        return "pyLen (%s)" % t, b
    if isinstance(node, ast.Call) and _u(node.func) == "np.prod" and len(node.args) == 1:
        t, b = cx_ints(c, node.args[0])
        return "npProd (%s)" % t, b
    if isinstance(node, ast.Subscript):
        t, b1 = cx_ints(c, node.value)
        i, b2 = cx_int(c, node.slice)
        name = c.fresh()
        return name, b1 + b2 + [(name, "pyGetItem (%s) %s" % (t, i))]
    c.fail(node, "unsupported integer expression")


def cx_bool(c, node):
    if isinstance(node, ast.BoolOp):
        parts, binds = [], []
        for v in node.values:
            t, b = cx_bool(c, v)
            if b and parts:
                c.fail(node, "operand of and/or that may raise")
            parts.append(t)
            binds += b
        return "(" + (" && " if isinstance(node.op, ast.And) else " || ").join(parts) + ")", binds
    if isinstance(node, ast.UnaryOp) and isinstance(node.op, ast.Not):
        # `not <index argument>`: Python truthiness of the object
        if isinstance(node.operand, ast.Name) and c.vars.get(node.operand.id, ("",))[0] == "index":
            return "(!(%s).truthy)" % c.vars[node.operand.id][1], []
        t, b = cx_bool(c, node.operand)
        return "(!%s)" % t, b
    if isinstance(node, ast.Compare):
        items = [node.left] + list(node.comparators)
        if len(node.ops) == 1 and isinstance(node.ops[0], (ast.Is, ast.IsNot)) and is_none(node.comparators[0]):
            if not isinstance(node.left, ast.Name) or node.left.id not in c.vars:
                c.fail(node, "`is None` of something that is not a variable in scope")
            k, t = c.vars[node.left.id]
            test = {"index": "(%s).isNone", "arr": "arrIsNone %s", "opt": "(%s).isNone"}.get(k)
            if test is None:
                c.fail(node, "`is None` of a %s" % k)
            test = test % t
            return (test if isinstance(node.ops[0], ast.Is) else "(!%s)" % test), []
        parts, binds = [], []
        for (a, op, b) in zip(items, node.ops, items[1:]):
            o = CMP.get(type(op))
            if o is None:
                c.fail(node, "unsupported comparison")
            if all(_is_intlike(c, x) for x in (a, b)):
                ta, b1 = cx_int(c, a)
                tb, b2 = cx_int(c, b)
            elif o in ("=", "≠") and all(_is_optints(c, x) for x in (a, b)):
                ta, b1 = cx_optints(c, a)
                tb, b2 = cx_optints(c, b)
            else:
                c.fail(node, "comparison of unsupported operands")
            parts.append("decide (%s %s %s)" % (ta, o, tb))
            binds += b1 + b2
        return (parts[0] if len(parts) == 1 else "(" + " && ".join(parts) + ")"), binds
    if isinstance(node, ast.Call) and isinstance(node.func, ast.Name) and node.func.id == "any" and len(node.args) == 1 \
            and isinstance(node.args[0], (ast.ListComp, ast.GeneratorExp)):
        t, b = cx_comp(c, node.args[0], "bool")
        return "pyAny (%s)" % t, b
    if isinstance(node, ast.Call) and _u(node.func) == "self._is_empty" and len(node.args) == 1 and not node.keywords \
            and isinstance(node.args[0], ast.Name) and c.vars.get(node.args[0].id, ("",))[0] == "arr" \
            and c.vars["self"][0] == "h5ds":
        return "arrIsEmpty %s" % c.vars[node.args[0].id][1], []
    if isinstance(node, ast.Call) and _u(node.func) == "self._selected_count" and len(node.args) == 1 \
            and not node.keywords and isinstance(node.args[0], ast.Name) \
            and c.vars.get(node.args[0].id, ("",))[0] == "index" and c.vars["self"][0] == "h5ds":
        # truthiness of the count (None = NumPy could not tell, 0 = nothing selected)
        return "optTruthy (h5SelectedCount %s %s)" % (c.vars["self"][1], c.vars[node.args[0].id][1]), []
    if isinstance(node, ast.Name) and c.vars.get(node.id, ("",))[0] == "index":
        return "(%s).truthy" % c.vars[node.id][1], []
    if isinstance(node, ast.Name) and c.vars.get(node.id, ("",))[0] == "bool":
        return c.vars[node.id][1], []
    if isinstance(node, ast.Constant) and isinstance(node.value, bool):
        return ("true" if node.value else "false"), []
    # truthiness of an integer
    t, b = cx_int(c, node)
    return "decide (%s ≠ 0)" % t, b


def _is_intlike(c, node):
    try:
        cx_int(c.child(), node)
        return True
    except ExtractError:
        return False


def _is_optints(c, node):
    try:
        cx_optints(c.child(), node)
        return True
    except ExtractError:
        return False


def cx_optints(c, node):
    """a shape that may be None (create_data_array's `shape`), or a tuple of ints lifted to it"""
    if isinstance(node, ast.Name) and c.vars.get(node.id, ("",))[0] == "opt":
        return c.vars[node.id][1], []
    t, b = cx_ints(c, node)
    return "some (%s)" % t, b


def cx_comp(c, node, want):
    """[body for <targets> in <iter> if cond] -> a fresh name bound to the list; kinds: int | bool | slice"""
    if len(node.generators) != 1:
        c.fail(node, "nested comprehension")
    g = node.generators[0]
    if g.is_async or len(g.ifs) > 1:
        c.fail(node, "unsupported comprehension clause")
    it, tgt = g.iter, g.target

    def names(t, n):
        if isinstance(t, ast.Tuple) and len(t.elts) == n and all(isinstance(e, ast.Name) for e in t.elts):
            return [e.id for e in t.elts]
        return None
    binds = []
    if isinstance(it, ast.Call) and isinstance(it.func, ast.Name) and it.func.id == "enumerate" and len(it.args) == 1:
        inner = it.args[0]
        if isinstance(inner, ast.Call) and isinstance(inner.func, ast.Name) and inner.func.id == "zip" and len(inner.args) == 2:
            if not (isinstance(tgt, ast.Tuple) and len(tgt.elts) == 2 and isinstance(tgt.elts[0], ast.Name)):
                c.fail(node, "unsupported target")
            ab = names(tgt.elts[1], 2)
            if ab is None:
                c.fail(node, "unsupported target")
            vs = [tgt.elts[0].id] + ab
            xs, b1 = cx_ints(c, inner.args[0])
            ys, b2 = cx_ints(c, inner.args[1])
            binds += b1 + b2
            head, args = "compEnumZip", "(%s) (%s)" % (xs, ys)
        else:
            vs = names(tgt, 2)
            if vs is None:
                c.fail(node, "unsupported target")
            xs, b1 = cx_ints(c, inner)
            binds += b1
            head, args = "compEnum", "(%s)" % xs
        args_first = True
    elif isinstance(it, ast.Call) and isinstance(it.func, ast.Name) and it.func.id == "zip" and len(it.args) == 2:
        vs = names(tgt, 2)
        if vs is None:
            c.fail(node, "unsupported target")
        xs, b1 = cx_ints(c, it.args[0])
        ys, b2 = cx_ints(c, it.args[1])
        binds += b1 + b2
        head, args = "compZip", "(%s) (%s)" % (xs, ys)
        args_first = False
    else:
        c.fail(node, "unsupported iterable")
    inner_c = c.child({v: ("int", v) for v in vs})
    lam = "fun " + " ".join(vs) + " => "
    if g.ifs:
        ct, cb = cx_bool(inner_c, g.ifs[0])
        if cb:
            c.fail(node, "comprehension condition that may raise")
    else:
        ct = "true"
    if want == "bool":
        bt, bb = cx_bool(inner_c, node.elt)
    elif want == "int":
        bt, bb = cx_int(inner_c, node.elt)
    elif want == "slice":
        e = node.elt
        if not (isinstance(e, ast.Call) and isinstance(e.func, ast.Name) and e.func.id == "slice" and len(e.args) == 2):
            c.fail(node, "unsupported slice expression")
        a, b1 = cx_int(inner_c, e.args[0])
        b, b2 = cx_int(inner_c, e.args[1])
        bt, bb = "pySlice2 %s %s" % (a, b), b1 + b2
    else:
        c.fail(node, "unsupported element kind")
    c.n = inner_c.n
    body = wrap_binds(bb, bt)
    name = c.fresh()
    if args_first:
        term = "%s %s (%s%s) (%s%s)" % (head, args, lam, ct, lam, body)
    else:
        term = "%s (%s%s) (%s%s) %s" % (head, lam, ct, lam, body, args)
    return name, binds + [(name, term)]


def cx_index(c, node):
    """an index argument"""
    if isinstance(node, ast.Name) and c.vars.get(node.id, ("",))[0] == "index":
        return c.vars[node.id][1], []
    if isinstance(node, ast.Name) and c.vars.get(node.id, ("",))[0] == "ixlist":
        return "(.tuple %s)" % c.vars[node.id][1], []
    if is_none(node):
        return ".none", []
    if isinstance(node, ast.Slice) and node.lower is None and node.upper is None and node.step is None:
        return "fullSlice", []
    if isinstance(node, ast.Call) and isinstance(node.func, ast.Name) and node.func.id == "slice" \
            and len(node.args) == 3 and all(is_none(a) for a in node.args):
        return "fullSlice", []
    c.fail(node, "unsupported index expression")


# ------------------------------------------------------------------------------------------------------------
# method table: python callee text -> (lean name, [argument kinds], result: 'mut' | 'nd' | ...)

CALLS = {
    "self._write_data": ("dsWriteData", ["arr", "index"], "mut"),
    "self._read_data": ("daReadData", ["index"], "nd"),
    "dataset.write_data": ("h5WriteData", ["arr", "index"], "mut"),
    "dataset.read_data": ("h5ReadData", ["index"], "nd"),
}


def call_args(c, node, spec, defaults):
    """positional arguments of a compiled method, missing trailing ones filled with the callee's defaults"""
    if node.keywords:
        c.fail(node, "keyword arguments")
    terms, binds = [], []
    for i, k in enumerate(spec):
        if i < len(node.args):
            a = node.args[i]
            if k == "arr":
                if not (isinstance(a, ast.Name) and c.vars.get(a.id, ("",))[0] == "arr"):
                    c.fail(node, "argument %d is not an array variable" % i)
                terms.append(c.vars[a.id][1])
            elif k == "index":
                t, b = cx_index(c, a)
                terms.append(t)
                binds += b
        else:
            d = defaults[i]
            if d is None:
                c.fail(node, "missing argument %d" % i)
            terms.append(d)
    if len(node.args) > len(spec):
        c.fail(node, "too many arguments")
    return terms, binds


class Compiler:
    def __init__(self, repo):
        self.repo = repo
        rel = "nixio/data_set.py"
        self.ds = _cls(_parse(repo, rel), "DataSet", rel)
        rel = "nixio/hdf5/h5dataset.py"
        self.h5 = _cls(_parse(repo, rel), "H5DataSet", rel)
        rel = "nixio/data_array.py"
        self.da = _cls(_parse(repo, rel), "DataArray", rel)
        rel = "nixio/block.py"
        self.blk = _cls(_parse(repo, rel), "Block", rel)
        self.defaults = {}

    # -- defaults of index parameters ---------------------------------------------------------------------
    def index_default(self, fn, pname):
        for n, d in _params(fn):
            if n == pname:
                if d is None:
                    return None
                if is_none(d):
                    return ".none"
                raise ExtractError("%s: default of %s is not None" % (fn.name, pname))
        raise ExtractError("%s has no parameter %s" % (fn.name, pname))

    def expect_params(self, fn, names):
        got = [n for n, _ in _params(fn)]
        if got != names:
            raise ExtractError("%s: parameters %s, expected %s" % (fn.name, got, names))

    # -- statement compilers --------------------------------------------------------------------------------
    def alias_dataset(self, c, st):
        """`dataset = self._h5group.get_dataset("data")`"""
        return (isinstance(st, ast.Assign) and len(st.targets) == 1 and isinstance(st.targets[0], ast.Name)
                and _u(st.value) in ('self._h5group.get_dataset("data")', "self._h5group.get_dataset('data')"))

    def delegate(self, cls, name, kind, fname, selfkind, params, result):
        """a one-statement method (after an optional dataset alias): `return <call>` / `<call>` / `return <expr>`"""
        fn = _fn(cls, name, kind)
        c = Ctx("%s.%s" % (cls.name, name), {"self": (selfkind, "self")})
        for (p, k) in params:
            c.vars[p] = (k, p)
        self.expect_params(fn, [p for p, _ in params])
        body = _body(fn)
        if body and self.alias_dataset(c, body[0]):
            c.vars[body[0].targets[0].id] = ("h5ds", "self")
            body = body[1:]
        if len(body) != 1:
            raise ExtractError("%s.%s: expected a single statement" % (cls.name, name))
        st = body[0]
        term = self.tail(c, st, result)
        return fn, c, term

    def tail(self, c, st, result):
        """last statement of a delegating method"""
        if isinstance(st, ast.Return) and st.value is not None:
            e = st.value
        elif isinstance(st, ast.Expr):
            e = st.value
        elif isinstance(st, ast.Assign) and len(st.targets) == 1 and isinstance(st.targets[0], ast.Attribute):
            # `dataset.shape = extent` / `self.dataset.resize(shape)` handled by the callers
            return self.store(c, st)
        else:
            c.fail(st, "unsupported statement")
        if result in ("mut", "nd"):
            if isinstance(e, ast.Call):
                key = _u(e.func)
                # a local alias of the dataset is called `dataset` whatever its name in the source
                if isinstance(e.func, ast.Attribute) and isinstance(e.func.value, ast.Name) \
                        and c.vars.get(e.func.value.id, ("",))[0] == "h5ds" and e.func.value.id != "self":
                    key = "dataset." + e.func.attr
                if key in CALLS and CALLS[key][2] == result:
                    lname, spec, _ = CALLS[key]
                    terms, binds = call_args(c, e, spec, self.defaults[lname])
                    if binds:
                        c.fail(e, "argument that may raise")
                    return "%s %s %s" % (lname, c.vars["self"][1], " ".join(terms))
            c.fail(st, "unsupported call")
        if result == "ints":
            t, b = cx_ints(c, e)
            if b:
                c.fail(e, "expression that may raise")
            return t
        if result == "int":
            t, b = cx_int(c, e)
            if b:
                c.fail(e, "expression that may raise")
            return t
        if result == "exc-int":
            t, b = cx_int(c, e)
            return wrap_binds(b, t)
        c.fail(st, "unsupported result kind")

    def store(self, c, st):
        """a statement that replaces the dataset or raises -> Except IoErr DArr term"""
        if isinstance(st, ast.Assign) and len(st.targets) == 1:
            t = st.targets[0]
            if isinstance(t, ast.Attribute) and isinstance(t.value, ast.Name):
                k = c.vars.get(t.value.id, ("",))[0]
                e, b = cx_ints(c, st.value)
                if b:
                    c.fail(st, "extent expression that may raise")
                if k == "ds" and t.attr == "data_extent":
                    return "dsSetExtent %s (%s)" % (c.vars[t.value.id][1], e)
                if k == "h5ds" and t.attr == "shape":
                    return "h5SetShape %s (%s)" % (c.vars[t.value.id][1], e)
            if isinstance(t, ast.Subscript) and _u(t.value) == "self.dataset" and c.vars["self"][0] == "h5ds":
                ix, b = cx_index(c, t.slice)
                if b or not (isinstance(st.value, ast.Name) and c.vars.get(st.value.id, ("",))[0] == "arr"):
                    c.fail(st, "unsupported store")
                return "h5SetItem %s %s %s" % (c.vars["self"][1], ix, c.vars[st.value.id][1])
        if isinstance(st, ast.Expr) and isinstance(st.value, ast.Call):
            e = st.value
            if _u(e.func) == "self.dataset.resize" and c.vars["self"][0] == "h5ds" and len(e.args) == 1:
                t, b = cx_ints(c, e.args[0])
                if b:
                    c.fail(st, "extent expression that may raise")
                return "h5Resize %s (%s)" % (c.vars["self"][1], t)
            key = _u(e.func)
            if key in CALLS and CALLS[key][2] == "mut":
                lname, spec, _ = CALLS[key]
                terms, binds = call_args(c, e, spec, self.defaults[lname])
                if binds:
                    c.fail(e, "argument that may raise")
                return "%s %s %s" % (lname, c.vars["self"][1], " ".join(terms))
        c.fail(st, "unsupported store statement")

    # -- the functions ---------------------------------------------------------------------------------------
    def h5_write_data(self):
        fn = _fn(self.h5, "write_data")
        self.expect_params(fn, ["data", "slc"])
        c = Ctx("H5DataSet.write_data", {"self": ("h5ds", "self"), "data": ("arr", "data"), "slc": ("index", "slc")})
        body = _body(fn)
        none_branch = ""
        # `if data is None: data = ...` (py2 compatibility; arrays handed to the model are never None)
        if body and isinstance(body[0], ast.If) and _u(body[0].test) == "data is None" and not body[0].orelse:
            none_branch = "; ".join(_u(s) for s in body[0].body)
            body = body[1:]
        guards = []
        # `if <test>: raise E(...)` guards in front of the store
        while body and isinstance(body[0], ast.If) and not body[0].orelse and len(body[0].body) == 1 \
                and isinstance(body[0].body[0], ast.Raise):
            r = body[0].body[0].exc
            rn = r.func.id if isinstance(r, ast.Call) and isinstance(r.func, ast.Name) else None
            if rn not in EXC:
                c.fail(body[0], "raise of an unknown class")
            t, b = cx_bool(c, body[0].test)
            if b:
                c.fail(body[0], "test that may raise")
            guards.append("if %s then .error (%s) else" % (t, EXC[rn]))
            body = body[1:]
        if len(body) != 1 or not isinstance(body[0], ast.If) or len(body[0].body) != 1 or len(body[0].orelse) != 1:
            raise ExtractError("H5DataSet.write_data: expected `if <test>: <store> else: <store>`")
        st = body[0]
        t, b = cx_bool(c, st.test)
        if b:
            c.fail(st, "test that may raise")
        a = self.store(c, st.body[0])
        o = self.store(c, st.orelse[0])
        term = "".join(g + "\n  " for g in guards) + "if %s then\n    %s\n  else\n    %s" % (t, a, o)
        return none_branch, term

    def h5_read_data(self):
        fn = _fn(self.h5, "read_data")
        self.expect_params(fn, ["slc"])
        c = Ctx("H5DataSet.read_data", {"self": ("h5ds", "self"), "slc": ("index", "slc")})
        body = _body(fn)
        lines = []
        i = 0
        # optional `if <test on slc>: slc = <index>`
        while i < len(body) and isinstance(body[i], ast.If):
            st = body[i]
            if not (len(st.body) == 1 and not st.orelse and isinstance(st.body[0], ast.Assign)
                    and _u(st.body[0].targets[0]) == "slc"):
                break
            t, b = cx_bool(c, st.test)
            v, b2 = cx_index(c, st.body[0].value)
            if b or b2:
                c.fail(st, "test that may raise")
            lines.append("let slc := if %s then %s else slc" % (t, v))
            i += 1
        if i >= len(body) or not isinstance(body[i], ast.Try):
            raise ExtractError("H5DataSet.read_data: expected the `try: data = self.dataset[slc]` statement")
        tr = body[i]
        if len(tr.body) != 1 or tr.orelse or tr.finalbody or not isinstance(tr.body[0], ast.Assign) \
                or _u(tr.body[0].targets[0]) != "data" or not isinstance(tr.body[0].value, ast.Subscript) \
                or _u(tr.body[0].value.value) != "self.dataset":
            raise ExtractError("H5DataSet.read_data: unexpected try body `%s`" % _u(tr.body[0])[:80])
        ix, b = cx_index(c, tr.body[0].value.slice)
        handlers = []
        for h in tr.handlers:
            if not (isinstance(h.type, ast.Name) and h.type.id in EXC and len(h.body) == 1
                    and isinstance(h.body[0], ast.Raise) and h.body[0].exc is not None):
                raise ExtractError("H5DataSet.read_data: unexpected handler `%s`" % _u(h)[:80])
            r = h.body[0].exc
            rn = r.func.id if isinstance(r, ast.Call) and isinstance(r.func, ast.Name) else (r.id if isinstance(r, ast.Name) else None)
            if rn not in EXC:
                raise ExtractError("H5DataSet.read_data: handler raises an unknown class `%s`" % _u(r)[:60])
            handlers.append("(%s, %s)" % (EXC[h.type.id], EXC[rn]))
        lines.append("pyCatchMap (h5GetItem self %s) [%s]" % (ix, ", ".join(handlers)))
        tail = [_u(s) for s in body[i + 1:]]
        return "\n  ".join(lines), tail

    def da_read_data(self):
        fn = _fn(self.da, "_read_data")
        self.expect_params(fn, ["sl"])
        c = Ctx("DataArray._read_data", {"self": ("ds", "self"), "sl": ("index", "sl")})
        body = _body(fn)
        calib_pre, rest = [], None
        for i, st in enumerate(body):
            if isinstance(st, ast.Assign) and _u(st.targets[0]) == "data":
                rest = body[i:]
                break
            calib_pre.append(_u(st))
        if rest is None:
            raise ExtractError("DataArray._read_data: no `data = ...` statement")
        v = rest[0].value
        # data = np.array(super(DataArray, self)._read_data(sl))
        if not (isinstance(v, ast.Call) and _u(v.func) == "np.array" and len(v.args) == 1 and not v.keywords
                and isinstance(v.args[0], ast.Call) and _u(v.args[0].func) in ("super(DataArray, self)._read_data", "super()._read_data")):
            raise ExtractError("DataArray._read_data: unexpected read `%s`" % _u(v)[:80])
        inner = v.args[0]
        if len(inner.args) != 1 or inner.keywords:
            raise ExtractError("DataArray._read_data: unexpected arguments of the read")
        ix, b = cx_index(c, inner.args[0])
        c.vars["data"] = ("nd", "data")
        lines = []
        j = 1
        # `if <test on data.shape>: data.shape = (1,)`
        if j < len(rest) and isinstance(rest[j], ast.If) and len(rest[j].body) == 1 and not rest[j].orelse \
                and _u(rest[j].body[0]) == "data.shape = (1,)":
            t, b = cx_bool(c, rest[j].test)
            if b:
                c.fail(rest[j], "test that may raise")
            lines.append("let data := if %s then npSetShape1 data else data" % t)
            j += 1
        tail = [_u(s) for s in rest[j:]]
        if not tail or tail[-1] != "return data":
            raise ExtractError("DataArray._read_data: does not end with `return data`")
        term = "match dsReadData self %s with\n  | .error e => .error e\n  | .ok data =>\n    %s\n    .ok data" % (
            ix, "\n    ".join(lines))
        return term, calib_pre, tail[:-1]

    def ds_append(self):
        fn = _fn(self.ds, "append")
        ps = _params(fn)
        if [n for n, _ in ps] != ["data", "axis"] or not (isinstance(ps[1][1], ast.Constant) and ps[1][1].value == 0):
            raise ExtractError("DataSet.append: unexpected parameters")
        c = Ctx("DataSet.append", {"self": ("ds", "self"), "data": ("arr", "data"), "axis": ("int", "axis")})
        out = []

        def emit_binds(binds):
            for name, term in binds:
                out.append("pyBind self (%s) fun %s =>" % (term, name))

        for st in _body(fn):
            if isinstance(st, ast.Assign) and len(st.targets) == 1 and isinstance(st.targets[0], ast.Name):
                x, v = st.targets[0].id, st.value
                if isinstance(v, ast.Call) and _u(v.func) == "np.ascontiguousarray" and len(v.args) == 1 \
                        and isinstance(v.args[0], ast.Name) and c.vars.get(v.args[0].id, ("",))[0] == "arr":
                    out.append("let %s := npAscontiguousarray %s" % (x, c.vars[v.args[0].id][1]))
                    c.vars[x] = ("arr", x)
                    continue
                # tuple of slices?
                if isinstance(v, ast.Call) and isinstance(v.func, ast.Name) and v.func.id == "tuple" and len(v.args) == 1 \
                        and isinstance(v.args[0], ast.GeneratorExp) and isinstance(v.args[0].elt, ast.Call) \
                        and _u(v.args[0].elt.func) == "slice":
                    t, b = cx_comp(c, v.args[0], "slice")
                    emit_binds(b[:-1])
                    out.append("pyBind self (%s) fun %s =>" % (b[-1][1], x))
                    c.vars[x] = ("ixlist", x)
                    continue
                t, b = cx_ints(c, v)
                if b and b[-1][0] == t:
                    emit_binds(b[:-1])
                    out.append("pyBind self (%s) fun %s =>" % (b[-1][1], x))
                else:
                    emit_binds(b)
                    out.append("let %s := %s" % (x, t))
                c.vars[x] = ("ints", x)
                continue
            if isinstance(st, ast.If) and not st.orelse and len(st.body) == 1 and isinstance(st.body[0], ast.Raise):
                r = st.body[0].exc
                rn = r.func.id if isinstance(r, ast.Call) and isinstance(r.func, ast.Name) else None
                if rn not in EXC:
                    c.fail(st, "raise of an unknown class")
                t, b = cx_bool(c, st.test)
                emit_binds(b)
                out.append("if %s then pyRaise self (%s) else" % (t, EXC[rn]))
                continue
            if isinstance(st, ast.Assign) and len(st.targets) == 1 and isinstance(st.targets[0], ast.Attribute):
                out.append("pyThen self (%s) fun self =>" % self.store(c, st))
                continue
            if isinstance(st, ast.Try):
                if len(st.body) != 1 or st.orelse or st.finalbody or len(st.handlers) != 1:
                    c.fail(st, "unsupported try statement")
                h = st.handlers[0]
                if not (h.body and isinstance(h.body[-1], ast.Raise) and h.body[-1].exc is None):
                    c.fail(st, "handler is not `except ...: ...; raise`")
                if isinstance(h.type, ast.Name) and h.type.id in ("Exception", "BaseException"):
                    catches = "anyException"
                else:
                    names = [e.id for e in h.type.elts] if isinstance(h.type, ast.Tuple) and all(
                        isinstance(e, ast.Name) for e in h.type.elts) else (
                        [h.type.id] if isinstance(h.type, ast.Name) else None)
                    if not names or any(n not in EXC for n in names):
                        c.fail(st, "unsupported exception classes in the except clause")
                    catches = "(fun e => %s)" % " || ".join("decide (e = %s)" % EXC[n] for n in names)
                hs = ""
                for s in h.body[:-1]:
                    hs += "pyThen self (%s) fun self => " % self.store(c, s)
                out.append("pyTryReraise self (%s) %s fun self =>\n    %spyDone self" % (
                    self.store(c, st.body[0]), catches, hs))
                return "\n  ".join(out)
            c.fail(st, "unsupported statement")
        # no try at the end: the last statement must have been a store
        raise ExtractError("DataSet.append: the body does not end with the guarded write")

    def create_rules(self):
        """Block.create_data_array: the statements between the copy_from branch and the name check, and the
        creation sequence inside the try"""
        fn = _fn(self.blk, "create_data_array")
        body = _body(fn)
        # skip `if copy_from is not None: ...`
        i = 0
        if body and isinstance(body[0], ast.If) and _u(body[0].test) == "copy_from is not None":
            i = 1
        if i >= len(body) or not isinstance(body[i], ast.If) or _u(body[i].test) != "data is None":
            raise ExtractError("Block.create_data_array: expected `if data is None:`")
        st = body[i]

        def rules(stmts, have_data):
            """statements -> Lean lines; variables dtype/shape/data are Options"""
            out = []
            for s in stmts:
                src = _u(s)
                if isinstance(s, ast.If) and not s.orelse and len(s.body) == 1 and isinstance(s.body[0], ast.Raise):
                    r = s.body[0].exc
                    rn = r.func.id if isinstance(r, ast.Call) and isinstance(r.func, ast.Name) else None
                    if rn not in EXC:
                        raise ExtractError("Block.create_data_array: unknown exception in `%s`" % src[:60])
                    out.append("if %s then .error (%s) else" % (ctest(s.test, have_data), EXC[rn]))
                elif isinstance(s, ast.If) and not s.orelse and len(s.body) == 1 and isinstance(s.body[0], ast.Assign):
                    a = s.body[0]
                    x = _u(a.targets[0])
                    out.append("let %s := if %s then %s else %s" % (x, ctest(s.test, have_data), cval(a.value, have_data), x))
                elif isinstance(s, ast.If) and len(s.body) == 1 and isinstance(s.body[0], ast.If) and len(s.orelse) == 1 \
                        and isinstance(s.orelse[0], ast.Assign):
                    # if shape is not None: <if ..: raise> else: shape = data.shape
                    a = s.orelse[0]
                    x = _u(a.targets[0])
                    inner = rules(s.body, have_data)
                    if len(inner) != 1 or not inner[0].endswith(" else"):
                        raise ExtractError("Block.create_data_array: unexpected nested statement `%s`" % src[:60])
                    out.append("if %s then (%s .ok (dtype, shape, data)) else" % (ctest(s.test, have_data), inner[0]))
                    out.append("let %s := %s" % (x, cval(a.value, have_data)))
                elif isinstance(s, ast.Assign) and len(s.targets) == 1 and isinstance(s.targets[0], ast.Name):
                    out.append("let %s := %s" % (s.targets[0].id, cval(s.value, have_data)))
                else:
                    raise ExtractError("Block.create_data_array: unsupported statement `%s`" % src[:80])
            return out

        def ctest(t, have_data):
            src = _u(t)
            table = {"shape is None": "shape.isNone", "dtype is None": "dtype.isNone",
                     "shape is not None": "(!shape.isNone)", "dtype is not None": "(!dtype.isNone)",
                     "shape != data.shape": "decide (shape ≠ data.map arrShape)",
                     "shape == data.shape": "decide (shape = data.map arrShape)"}
            if src in table:
                return table[src]
            raise ExtractError("Block.create_data_array: unsupported test `%s`" % src[:80])

        def cval(v, have_data):
            src = _u(v)
            if isinstance(v, ast.Constant) and isinstance(v.value, str):
                return "npDtypeOfStr %s" % lean_str(v.value)
            table = {"np.ascontiguousarray(data)": "data.map npAscontiguousarray", "data.dtype": "data.map npDtype",
                     "data.shape": "data.map arrShape"}
            if src in table and have_data:
                return table[src]
            raise ExtractError("Block.create_data_array: unsupported value `%s`" % src[:80])

        then_lines = rules(st.body, False)
        else_lines = rules(st.orelse, True)
        term = "if data.isNone then\n    %s\n    .ok (dtype, shape, data)\n  else\n    %s\n    .ok (dtype, shape, data)" % (
            "\n    ".join(then_lines), "\n    ".join(else_lines))
        # the creation sequence: first `try` of the function
        seq = None
        for s in body[i + 1:]:
            if isinstance(s, ast.Try):
                seq = [_u(x) for x in s.body]
                break
        if seq is None:
            raise ExtractError("Block.create_data_array: no try block with the creation sequence")
        between = [_u(s) for s in body[i + 1:] if not isinstance(s, (ast.Try, ast.Return))]
        return term, between, seq


def _strs(items):
    return "[" + ", ".join(lean_str(s) for s in items) + "]"


def extract(repo):
    k = Compiler(repo)
    # defaults of the compiled callees (index parameters)
    k.defaults["h5WriteData"] = [None, k.index_default(_fn(k.h5, "write_data"), "slc")]
    k.defaults["h5ReadData"] = [k.index_default(_fn(k.h5, "read_data"), "slc")]
    k.defaults["dsWriteData"] = [None, k.index_default(_fn(k.ds, "_write_data"), "slc")]
    k.defaults["daReadData"] = [k.index_default(_fn(k.da, "_read_data"), "sl")]
    ds_read_default = k.index_default(_fn(k.ds, "_read_data"), "slc")

    none_branch, h5w = k.h5_write_data()
    h5r, h5r_tail = k.h5_read_data()
    _, _, h5shape = k.delegate(k.h5, "shape", "getter", "h5Shape", "h5ds", [], "ints")
    # H5DataSet.shape setter: `self.dataset.resize(shape)`
    fn = _fn(k.h5, "shape", "setter")
    c = Ctx("H5DataSet.shape.setter", {"self": ("h5ds", "self"), "shape": ("ints", "shape")})
    b = _body(fn)
    if len(b) != 1:
        raise ExtractError("H5DataSet.shape setter: expected one statement")
    h5setshape = k.store(c, b[0])

    _, _, dsw = k.delegate(k.ds, "_write_data", None, "dsWriteData", "ds", [("data", "arr"), ("slc", "index")], "mut")
    # DataSet._read_data: `return self._h5group.get_dataset("data").read_data(slc)`
    fn = _fn(k.ds, "_read_data")
    b = _body(fn)
    if len(b) != 1 or _u(b[0]) not in ("return self._h5group.get_dataset('data').read_data(slc)",):
        raise ExtractError("DataSet._read_data: unexpected body `%s`" % "; ".join(_u(s) for s in b)[:100])
    dsr = "h5ReadData self slc"
    _, _, dsext = k.delegate(k.ds, "data_extent", "getter", "dsExtent", "ds", [], "ints")
    # DataSet.data_extent setter: dataset = ...; dataset.shape = extent
    fn = _fn(k.ds, "data_extent", "setter")
    c = Ctx("DataSet.data_extent.setter", {"self": ("ds", "self"), "extent": ("ints", "extent")})
    b = _body(fn)
    if len(b) != 2 or not k.alias_dataset(c, b[0]):
        raise ExtractError("DataSet.data_extent setter: unexpected body")
    c.vars[b[0].targets[0].id] = ("h5ds", "self")
    dssetext = k.store(c, b[1])
    _, _, dsshape = k.delegate(k.ds, "shape", "getter", "dsShapeOf", "ds", [], "ints")
    _, _, dslen = k.delegate(k.ds, "len", None, "dsLen", "ds", [], "exc-int")
    _, _, dssize = k.delegate(k.ds, "size", "getter", "dsSize", "ds", [], "int")
    _, _, dswd = k.delegate(k.ds, "write_direct", None, "dsWriteDirect", "ds", [("data", "arr")], "mut")
    _, _, dsset = k.delegate(k.ds, "__setitem__", None, "dsSetItem", "ds", [("index", "index"), ("value", "arr")], "mut")
    _, _, dsget = k.delegate(k.ds, "__getitem__", None, "dsGetItem", "ds", [("index", "index")], "nd")
    fn = _fn(k.ds, "__len__")
    if [_u(s) for s in _body(fn)] != ["return self.len()"]:
        raise ExtractError("DataSet.__len__: unexpected body")
    # the other read paths: `__array__` (`return self._read_data()[:]`) and `read_direct` (`data[:] = self._read_data()`)
    def read_call(cname, node):
        c = Ctx(cname, {"self": ("ds", "self")})
        if not (isinstance(node, ast.Call) and _u(node.func) == "self._read_data"):
            c.fail(node, "not a call of self._read_data")
        lname, spec, _ = CALLS["self._read_data"]
        terms, binds = call_args(c, node, spec, k.defaults[lname])
        if binds:
            c.fail(node, "argument that may raise")
        return "%s self %s" % (lname, " ".join(terms))

    def is_full(sl):
        return isinstance(sl, ast.Slice) and sl.lower is None and sl.upper is None and sl.step is None
    b = _body(_fn(k.ds, "__array__"))
    if not (len(b) == 1 and isinstance(b[0], ast.Return) and isinstance(b[0].value, ast.Subscript)
            and is_full(b[0].value.slice)):
        raise ExtractError("DataSet.__array__: expected `return self._read_data()[:]`")
    ds_array = read_call("DataSet.__array__", b[0].value.value)
    fn = _fn(k.ds, "read_direct")
    k.expect_params(fn, ["data"])
    b = _body(fn)
    if not (len(b) == 1 and isinstance(b[0], ast.Assign) and len(b[0].targets) == 1
            and isinstance(b[0].targets[0], ast.Subscript) and _u(b[0].targets[0].value) == "data"
            and is_full(b[0].targets[0].slice)):
        raise ExtractError("DataSet.read_direct: expected `data[:] = self._read_data()`")
    ds_read_direct = read_call("DataSet.read_direct", b[0].value)
    dar, calib_pre, calib_post = k.da_read_data()
    app = k.ds_append()
    rules, between, seq = k.create_rules()

    L = []
    L.append("-- generated by harness/extract/datasetshape.py from nixio/data_set.py, nixio/hdf5/h5dataset.py, "
             "nixio/data_array.py, nixio/block.py — do not edit")
    L.append("import NixModel.Pure.NdGen")
    L.append("")
    L.append("namespace Nix.Gen.DataSet")
    L.append("open Nix Nix.Nd Nix.NdGen")
    L.append("set_option linter.unusedVariables false")
    L.append("")

    def d(doc, sig, term):
        L.append("/-- %s -/" % doc)
        L.append("def %s :=\n  %s" % (sig, term))
        L.append("")

    d("`H5DataSet.shape` (getter)", "h5Shape (self : DArr) : List Int", h5shape)
    d("`H5DataSet.shape = shape` (setter)", "h5SetShape (self : DArr) (shape : List Int) : Except IoErr DArr", h5setshape)
    d("`H5DataSet.write_data(self, data, slc=None)`; the statement for `data is None` (py2 compatibility, never taken "
      "for an array) is kept as text in `h5WriteDataNoneBranch`", "h5WriteData (self : DArr) (data : Arr) (slc : IndexArg) : Except IoErr DArr", h5w)
    d("`H5DataSet.write_data`: body of `if data is None:`", "h5WriteDataNoneBranch : String", lean_str(none_branch))
    d("`H5DataSet.read_data(self, slc=None)` up to the decoding of variable-length strings",
      "h5ReadData (self : DArr) (slc : IndexArg) : Except IoErr (NdArray Elem)", h5r)
    d("`H5DataSet.read_data`: the statements after the read (string decoding; the model's text elements are decoded)",
      "h5ReadDataTail : List String", _strs(h5r_tail))
    d("`DataSet._write_data(self, data, slc=None)`", "dsWriteData (self : DArr) (data : Arr) (slc : IndexArg) : Except IoErr DArr", dsw)
    d("`DataSet._read_data(self, slc=None)`", "dsReadData (self : DArr) (slc : IndexArg) : Except IoErr (NdArray Elem)", dsr)
    d("default of `slc` in `DataSet._read_data`", "dsReadDataDefault : IndexArg", ds_read_default or ".none")
    d("`DataSet.data_extent` (getter)", "dsExtent (self : DArr) : List Int", dsext)
    d("`DataSet.data_extent = extent` (setter)", "dsSetExtent (self : DArr) (extent : List Int) : Except IoErr DArr", dssetext)
    d("`DataSet.shape`", "dsShapeOf (self : DArr) : List Int", dsshape)
    d("`DataSet.len()` (= `__len__`)", "dsLen (self : DArr) : Except IoErr Int", dslen)
    d("`DataSet.size`", "dsSize (self : DArr) : Int", dssize)
    d("`DataArray._read_data(self, sl=None)`; the calibration statements (C15) are kept as text",
      "daReadData (self : DArr) (sl : IndexArg) : Except IoErr (NdArray Elem)", dar)
    d("`DataArray._read_data`: statements before the read / between the single-value rule and `return data`",
      "daReadDataCalibration : List String × List String", "(%s, %s)" % (_strs(calib_pre), _strs(calib_post)))
    d("`DataSet.write_direct(self, data)`", "dsWriteDirect (self : DArr) (data : Arr) : Except IoErr DArr", dswd)
    d("`DataSet.__setitem__(self, index, value)`", "dsSetItem (self : DArr) (index : IndexArg) (value : Arr) : Except IoErr DArr", dsset)
    d("`DataSet.__getitem__(self, index)`", "dsGetItem (self : DArr) (index : IndexArg) : Except IoErr (NdArray Elem)", dsget)
    d("`DataSet.__array__(self)` (`np.array(da)`): the array that is returned (`[:]` of a NumPy array is the array)",
      "dsArray (self : DArr) : Except IoErr (NdArray Elem)", ds_array)
    d("`DataSet.read_direct(self, data)`: what is copied into the caller's buffer (`data[:] = …`)",
      "dsReadDirect (self : DArr) : Except IoErr (NdArray Elem)", ds_read_direct)
    d("`DataSet.append(self, data, axis=0)`", "dsAppend (self : DArr) (data : Arr) (axis : Int) : Run", app)
    d("`Block.create_data_array`: the dtype / shape / data rules (`None` = argument not given)",
      "createRules (dtype : Option DTypeArg) (shape : Option (List Int)) (data : Option Arr) :\n"
      "    Except IoErr (Option DTypeArg × Option (List Int) × Option Arr)", rules)
    d("`Block.create_data_array`: statements between the rules and the creation, and the creation sequence inside the `try`",
      "createSequence : List String × List String", "(%s, %s)" % (_strs(between), _strs(seq)))
    # methods on the read / creation paths that the model represents by hand: pinned as normalised source text
    pinned = []
    for cls, name, kind in ((k.ds, "__array__", None), (k.ds, "__iter__", None), (k.ds, "__len__", None),
                            (k.ds, "read_direct", None), (k.ds, "dtype", "getter"), (k.ds, "data_type", "getter"),
                            (k.ds, "_get_dtype", None), (k.h5, "__init__", None), (k.h5, "dtype", "getter"),
                            (k.h5, "_is_empty", "static"), (k.h5, "_selected_count", None),
                            (k.da, "create_new", "classmethod"), (k.da, "dtype", "getter")):
        if kind in ("classmethod", "static"):
            fn = None
            for n in cls.body:
                if isinstance(n, ast.FunctionDef) and n.name == name:
                    fn = n
            if fn is None:
                raise ExtractError("%s.%s not found" % (cls.name, name))
        else:
            fn = _fn(cls, name, kind)
        pinned.append(("%s.%s" % (cls.name, name), "(%s): " % ", ".join(a.arg for a in fn.args.args) +
                       "; ".join(_u(st) for st in _body(fn))))
    # every method the three classes define: a new method (a second read or write path, an override in DataArray of
    # something compiled from DataSet) changes these lists
    def names(cls):
        out = []
        for n in cls.body:
            if isinstance(n, ast.FunctionDef):
                decs = [_u(x) for x in n.decorator_list]
                out.append(n.name + (".setter" if any(x.endswith(".setter") for x in decs) else ""))
        return out
    ds_names, h5_names, da_names = names(k.ds), names(k.h5), names(k.da)
    d("all methods of `DataSet` (source order)", "dataSetMethods : List String", _strs(ds_names))
    d("all methods of `H5DataSet` (source order)", "h5DataSetMethods : List String", _strs(h5_names))
    d("methods of `DataSet` that `DataArray` overrides", "dataArrayOverrides : List String",
      _strs([n for n in ds_names if n in da_names]))
    d("base classes of `DataArray`", "dataArrayBases : List String", _strs([_u(b) for b in k.da.bases]))
    rel = "nixio/entity.py"
    ent = _cls(_parse(repo, rel), "Entity", rel)
    d("methods of `DataSet` that `Entity` (which precedes it in the MRO of `DataArray`) defines too",
      "entityShadows : List String", _strs([n for n in ds_names if n in names(ent)]))
    d("methods of the read and creation paths that are modelled by hand, as normalised source text",
      "pinned : List (String × String)",
      "[\n    " + ",\n    ".join("(%s, %s)" % (lean_str(a), lean_str(b)) for a, b in pinned) + "]")
    L.append("end Nix.Gen.DataSet")
    return {TARGET: "\n".join(L) + "\n"}
