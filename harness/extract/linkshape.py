"""Translator: nixio/dimensions.py, container.py, source_link_container.py, multi_tag.py, feature.py, hdf5/h5group.py
                 ->  NixModel/Generated/LinkShape.lean                                   (property C05)

Parses the sources with `ast` (never imports them) and renders

 * the statement lists of `Dimension.link_data_array`, `Dimension.link_data_frame`, the two `RangeDimension`
   wrappers, `Dimension.remove_link` and the `RangeDimension.ticks` setter in the vocabulary of
   `NixModel/Pure/DimLinkPrim.lean` (`LStmt`): which checks there are, in which order, and where the writes
   (old link removed, link group created, ticks dropped / written) stand relative to them;
 * that both `SampledDimension.link_data_*` do nothing but raise;
 * the statements of the DataFrame branch of the `DimensionLink.unit` getter and setter (`UStmt`): the frame's
   `units` is read, a frame without units answers None / gets one empty entry per column, an empty entry reads
   None, None is written as the empty text (the `fix:` commit "unit of a dimension linked to a frame column"); the
   DataArray branch reads / writes the array's `unit` attribute as it is;
 * how `DimensionLink.create_new` names the hard link (`create_link(dataobj, dataobj.id)`) and how
   `_linked_group` finds the target again (`get_by_pos(0)`);
 * the membership tests in front of every link assignment (`LinkContainer._accept`, `MultiTag.positions`,
   `MultiTag.extents`, `Feature.data`): WHAT is tested (`item` itself, not a name or an id) IN which container;
 * the COMPLETE bodies of `LinkContainer._accept` and `SourceLinkContainer._accept`, statement by statement, in the
   vocabulary of `NixModel/Store/AcceptShape.lean` (`AStmt`: id text resolved, entity required, membership by
   object / source tree by object required, `return item`): a statement that lets an item through before the
   membership test (a fast path for handles that "look like" the block's own) is outside the vocabulary; the
   statements of `LinkContainer.extend` (`EStmt`: every item through `_accept` before the first link is written);
 * the bodies of the `MultiTag.positions` / `MultiTag.extents` setters (`RStmt`: None refused / link removed, class
   test, membership of the array itself in the block's data_arrays, old link dropped, link written, time stamp) and
   of the `Feature.data` setter (`FStmt`: the isinstance chain with the membership tests and the Tagged/DataFrame
   refusal, THEN `target_type`, the old link, the new link);
 * the statements of `H5Group.create_link` (`CStmt`): an existing entry of that name is dropped and the name is bound
   to the target's own HDF5 object (a hard link: a second name, never a copy);
 * the comparisons by which `Container.__contains__` and `SourceLinkContainer._accept` decide that an entity is
   "this very object" (HDF5 object equality, not equality of names or ids).

A statement or expression outside this vocabulary raises ExtractError: the tie is broken and the check goes
looking for a failing input.  `Props/C05.lean` states the theorems over these definitions.
"""
import ast
import os

from .leanfmt import ExtractError, lean_str, lean_bool

TARGET = "NixModel/Generated/LinkShape.lean"
DIMS = os.path.join("nixio", "dimensions.py")


def _parse(repo, rel):
    try:
        with open(os.path.join(repo, rel), encoding="utf-8") as f:
            return ast.parse(f.read(), filename=rel)
    except (OSError, SyntaxError) as e:
        raise ExtractError("%s: %s" % (rel, e))


def _class(tree, name, rel):
    for n in tree.body:
        if isinstance(n, ast.ClassDef) and n.name == name:
            return n
    raise ExtractError("class %s not found in %s" % (name, rel))


def _func(cls, name, rel, setter=False):
    found = None
    for n in cls.body:
        if isinstance(n, ast.FunctionDef) and n.name == name:
            decos = [ast.unparse(d) for d in n.decorator_list]
            if setter and decos == ["%s.setter" % name]:
                found = n
            elif not setter and decos in ([], ["classmethod"], ["staticmethod"]):
                found = n
    if found is None:
        raise ExtractError("%s: %s.%s%s not found" % (rel, cls.name, name, " (setter)" if setter else ""))
    return found


def _stmts(fn):
    out = []
    for st in fn.body:
        if isinstance(st, ast.Expr) and isinstance(st.value, ast.Constant) and isinstance(st.value.value, str):
            continue
        if isinstance(st, ast.Pass):
            continue
        out.append(st)
    return out


def _u(node):
    return ast.unparse(node)


def _bad(where, st):
    return ExtractError("%s line %d: `%s` is not in the modelled vocabulary"
                        % (where, getattr(st, "lineno", 0), _u(st).split("\n")[0][:100]))


def _is_raise_if(st, test, exc):
    """`if <test>: raise <exc>(...)` with nothing else"""
    return (isinstance(st, ast.If) and not st.orelse and _u(st.test) == test and len(st.body) == 1
            and isinstance(st.body[0], ast.Raise) and st.body[0].exc is not None
            and isinstance(st.body[0].exc, ast.Call) and _u(st.body[0].exc.func) == exc)


def _link_body(fn, where):
    """statements of a link_data_array / link_data_frame / remove_link / ticks-setter body as LStmt terms"""
    params = [a.arg for a in fn.args.args]
    obj = params[1] if len(params) > 1 else None
    sts = _stmts(fn)
    out = []
    i = 0
    while i < len(sts):
        st = sts[i]
        src = _u(st)
        nxt = sts[i + 1] if i + 1 < len(sts) else None
        if src == "msg = RangeDimension._check_link_dimensionality(%s, index)" % obj and nxt is not None \
                and _is_raise_if(nxt, "msg is not None", "IncompatibleDimensions"):
            out.append(".checkRank")
            i += 2
        elif src == "msg = self._check_index(index)" and nxt is not None \
                and _is_raise_if(nxt, "msg is not None", "ValueError"):
            out.append(".checkIndex")
            i += 2
        elif src == "util.check_attr_type(index, int)":
            out.append(".checkIntIndex")
            i += 1
        elif _is_raise_if(st, "not 0 <= index < len(%s.columns)" % obj, "OutOfBounds"):
            out.append(".checkBounds")
            i += 1
        elif obj is not None and _is_raise_if(st, "%s._h5group.group.file != self._h5group.group.file" % obj, "ValueError"):
            out.append(".checkSameFile")
            i += 1
        elif _is_raise_if(st, "not self.has_link", "RuntimeError"):
            out.append(".requireLink")
            i += 1
        elif isinstance(st, ast.Assign) and _u(st.targets[0]) == "ticks" and isinstance(st.value, ast.Call) \
                and _u(st.value.func) in ("np.asarray", "np.ascontiguousarray", "np.array") and st.value.args \
                and _u(st.value.args[0]) == "ticks":
            # a pure conversion of the argument (which NumPy constructor is used is C12's business)
            out.append(".convertTicks")
            i += 1
        elif _is_raise_if(st, "np.any(np.diff(ticks) < 0)", "ValueError"):
            out.append(".checkAscending")
            i += 1
        elif isinstance(st, ast.If) and not st.orelse and _u(st.test) == "self.has_link" and len(st.body) == 1 \
                and _u(st.body[0]) == "self.remove_link()":
            out.append(".removeOldLink")
            i += 1
        elif isinstance(st, ast.Expr) and isinstance(st.value, ast.Call) \
                and _u(st.value.func) == "DimensionLink.create_new" and len(st.value.args) == 6 \
                and not st.value.keywords \
                and [_u(a) for a in st.value.args[:4]] == ["self._file", "self", "self._h5group", obj] \
                and isinstance(st.value.args[4], ast.Constant) and isinstance(st.value.args[4].value, str) \
                and _u(st.value.args[5]) == "index":
            out.append("(.createLink %s)" % lean_str(st.value.args[4].value))
            i += 1
        elif src == "super(RangeDimension, self).%s(%s, index)" % (fn.name, obj):
            out.append(".callSuper")
            i += 1
        elif isinstance(st, ast.If) and not st.orelse and _u(st.test) == "'ticks' in self._h5group" \
                and len(st.body) == 1 and _u(st.body[0]) == "self._h5group.delete('ticks', False)":
            out.append(".dropTicks")
            i += 1
        elif src == "self._h5group.delete('link', False)":
            out.append(".deleteLink")
            i += 1
        elif isinstance(st, ast.Expr) and isinstance(st.value, ast.Call) \
                and _u(st.value.func) == "self._h5group.write_data" and len(st.value.args) >= 2 \
                and [_u(a) for a in st.value.args[:2]] == ["'ticks'", "ticks"]:
            out.append(".writeTicks")
            i += 1
        else:
            raise _bad(where, st)
    return "[" + ", ".join(out) + "]"


def _prop(cls, name, rel, setter=False):
    want = ["%s.setter" % name] if setter else ["property"]
    for n in cls.body:
        if isinstance(n, ast.FunctionDef) and n.name == name and [ast.unparse(d) for d in n.decorator_list] == want:
            return n
    raise ExtractError("%s: %s.%s (%s) not found" % (rel, cls.name, name, "setter" if setter else "getter"))


def _unit_branches(fn, where, setter):
    """`DimensionLink.unit`: `lobj = self._linked_group()`, then the chain over `self._data_object_type`
    ("DataArray" / "DataFrame" / else raise RuntimeError); returns the statements of the DataFrame branch as UStmt terms
    after checking that the DataArray branch is the raw attribute access"""
    sts = _stmts(fn)
    if len(sts) < 2 or _u(sts[0]) != "lobj = self._linked_group()":
        raise ExtractError("%s: expected `lobj = self._linked_group()` first" % where)
    chain = sts[1]
    if not (isinstance(chain, ast.If) and _u(chain.test) == "self._data_object_type == 'DataArray'"
            and len(chain.orelse) == 1 and isinstance(chain.orelse[0], ast.If)
            and _u(chain.orelse[0].test) == "self._data_object_type == 'DataFrame'"):
        raise _bad(where, chain)
    frame = chain.orelse[0]
    if not (len(frame.orelse) == 1 and isinstance(frame.orelse[0], ast.Raise)
            and isinstance(frame.orelse[0].exc, ast.Call) and _u(frame.orelse[0].exc.func) == "RuntimeError"):
        raise ExtractError("%s: the chain over _data_object_type must end in `raise RuntimeError`" % where)
    raw = "lobj.set_attr('unit', unit)" if setter else "return lobj.get_attr('unit')"
    if [_u(x) for x in chain.body] != [raw]:
        raise ExtractError("%s: the DataArray branch is not `%s`" % (where, raw))
    for st in sts[2:]:
        # (what follows the chain in the setter is the time stamp of the linked object: C19's statement)
        if not (setter and isinstance(st, ast.If) and "auto_update_timestamps" in _u(st.test)):
            raise _bad(where, st)
    out = []
    for st in frame.body:
        src = _u(st)
        if src == "units = lobj.get_attr('units')":
            out.append(".readUnits")
        elif isinstance(st, ast.If) and not st.orelse and _u(st.test) == "units is None" and len(st.body) == 1 \
                and _u(st.body[0]) == "return None" and not setter:
            out.append(".noneIfNoUnits")
        elif src == "unit = units[self.index]" and not setter:
            out.append(".pickEntry")
        elif src == "return unit if unit != '' else None" and not setter:
            out.append(".returnEmptyAsNone")
        elif isinstance(st, ast.If) and not st.orelse and _u(st.test) == "units is None" and len(st.body) == 1 \
                and _u(st.body[0]) == "units = [''] * len(lobj.group['data'].dtype.names)" and setter:
            out.append(".emptyPerColumnIfNoUnits")
        elif src == "units = list(units)" and setter:
            out.append(".copyList")
        elif src == "units[self.index] = unit if unit is not None else ''" and setter:
            out.append(".putEntryNoneAsEmpty")
        elif src == "lobj.set_attr('units', units)" and setter:
            out.append(".writeUnits")
        else:
            raise _bad(where, st)
    return "[" + ", ".join(out) + "]"


def _only_raises(fn):
    sts = _stmts(fn)
    return len(sts) == 1 and isinstance(sts[0], ast.Raise) and isinstance(sts[0].exc, ast.Call) \
        and _u(sts[0].exc.func) == "RuntimeError"


def _membership(fn, where, var, exc="RuntimeError"):
    """the `if <var> not in <container>: raise` tests of a body: [(tested expression, container expression)]"""
    out = []
    for node in ast.walk(fn):
        if isinstance(node, ast.If) and isinstance(node.test, ast.Compare) and len(node.test.ops) == 1 \
                and isinstance(node.test.ops[0], ast.NotIn) and node.body and isinstance(node.body[0], ast.Raise):
            out.append((_u(node.test.left), _u(node.test.comparators[0])))
    if not out:
        raise ExtractError("%s: no `if %s not in <container>: raise` membership test in front of the link" % (where, var))
    return out


def _accept_body(fn, where, source):
    """the statements of an `_accept` body as AStmt terms (`NixModel/Store/AcceptShape.lean`)"""
    sts = _stmts(fn)
    out = []
    i = 0
    while i < len(sts):
        st = sts[i]
        src = _u(st)
        if isinstance(st, ast.If) and not st.orelse and _u(st.test) == "util.is_uuid(item)" and len(st.body) == 1 \
                and _u(st.body[0]) == "item = self._inst_item(self._backend.get_by_id(item))":
            out.append(".resolveId")
            i += 1
        elif _is_raise_if(st, "not hasattr(item, 'id')", "TypeError"):
            out.append(".requireEntity")
            i += 1
        elif not source and _is_raise_if(st, "item not in self._itemstore", "RuntimeError"):
            out.append(".requireMember")
            i += 1
        elif source and src == "h5g = item._h5group" and i + 3 < len(sts) \
                and _u(sts[i + 1]) == "mine = h5g.group if hasattr(h5g, 'group') else h5g.dataset" \
                and isinstance(sts[i + 2], ast.FunctionDef) and sts[i + 2].name == "is_item" \
                and [_u(x) for x in _stmts(sts[i + 2])] == ["return src.id == item.id and src._h5group.group == mine"] \
                and [a.arg for a in sts[i + 2].args.args] == ["src"] \
                and _is_raise_if(sts[i + 3], "not self._itemstore._parent.find_sources(filtr=is_item)", "RuntimeError"):
            out.append(".requireInSourceTree")
            i += 4
        elif src == "return item":
            out.append(".returnItem")
            i += 1
        else:
            raise _bad(where, st)
    return "[" + ", ".join(out) + "]"


def _extend_body(fn, where):
    """the statements of `LinkContainer.extend` as EStmt terms"""
    out = []
    for st in _stmts(fn):
        src = " ".join(_u(st).split())
        if _is_raise_if(st, "not isinstance(items, Iterable)", "TypeError"):
            out.append(".requireIterable")
        elif src == "accepted = [self._accept(item) for item in items]":
            out.append(".acceptEvery")
        elif src == "for item in accepted: self._backend.create_link(item, item.id)":
            out.append(".linkEvery")
        else:
            raise _bad(where, st)
    return "[" + ", ".join(out) + "]"


def _role_stmts(sts, where, role, var="da"):
    """statements of a positions / extents setter (or of one branch of it) as RStmt terms"""
    out = []
    for st in sts:
        src = " ".join(_u(st).split())
        if _is_raise_if(st, "%s is None" % var, "TypeError"):
            out.append(".refuseNone")
        elif _is_raise_if(st, "not isinstance(%s, DataArray)" % var, "TypeError"):
            out.append(".requireArray")
        elif _is_raise_if(st, "%s not in self._parent.data_arrays" % var, "RuntimeError"):
            out.append('(.requireMember "data_arrays")')
        elif src == "if '%s' in self._h5group: del self._h5group['%s']" % (role, role):
            out.append("(.dropOld %s)" % lean_str(role))
        elif src == "self._h5group.create_link(%s, '%s')" % (var, role):
            out.append("(.link %s)" % lean_str(role))
        elif src == "if self.file.auto_update_timestamps: self.force_updated_at()":
            out.append(".stamp")
        else:
            raise _bad(where, st)
    return out


def _feat_stmts(sts, where):
    """statements of the `Feature.data` setter (or of a branch of its isinstance chain) as FStmt terms"""
    out = []
    for st in sts:
        src = " ".join(_u(st).split())
        if _is_raise_if(st, "dataobj is None", "TypeError"):
            out.append(".refuseNone")
        elif src == "parblock = self._parent._parent":
            out.append(".bindBlock")
        elif isinstance(st, ast.If) and _u(st.test) == "isinstance(dataobj, DataArray)" and len(st.orelse) == 1 \
                and isinstance(st.orelse[0], ast.If) and _u(st.orelse[0].test) == "isinstance(dataobj, DataFrame)" \
                and len(st.orelse[0].orelse) == 1 and isinstance(st.orelse[0].orelse[0], ast.Raise) \
                and isinstance(st.orelse[0].orelse[0].exc, ast.Call) \
                and _u(st.orelse[0].orelse[0].exc.func) == "TypeError":
            out.append("(.classChain %s %s)" % (_lean_list(_feat_stmts(st.body, where + " (DataArray branch)")),
                                               _lean_list(_feat_stmts(st.orelse[0].body, where + " (DataFrame branch)"))))
        elif _is_raise_if(st, "dataobj not in parblock.data_arrays", "RuntimeError"):
            out.append('(.requireMember "data_arrays")')
        elif _is_raise_if(st, "dataobj not in parblock.data_frames", "RuntimeError"):
            out.append('(.requireMember "data_frames")')
        elif _is_raise_if(st, "self.link_type == LinkType.Tagged", "UnsupportedLinkType"):
            out.append(".refuseTagged")
        elif isinstance(st, ast.Assign) and _u(st.targets[0]) == "objtype" and isinstance(st.value, ast.Constant) \
                and isinstance(st.value.value, str):
            out.append("(.setObjType %s)" % lean_str(st.value.value))
        elif src == "self._h5group.set_attr('target_type', objtype)":
            out.append(".writeTargetType")
        elif src == "if 'data' in self._h5group: del self._h5group['data']":
            out.append(".dropOld")
        elif src == "self._h5group.create_link(dataobj, 'data')":
            out.append(".link")
        elif isinstance(st, ast.If) and not st.orelse and _u(st.test) == "self.file.auto_update_timestamps":
            out.append(".stamp")
        else:
            raise _bad(where, st)
    return out


def _lean_list(items):
    return "[" + ", ".join(items) + "]"


def _create_link_body(fn, where):
    """the statements of `H5Group.create_link` as CStmt terms"""
    out = []
    for st in _stmts(fn):
        src = " ".join(_u(st).split())
        if src == "self._create_h5obj()":
            out.append(".ensureObject")
        elif src == "h5target = target._h5group.group":
            out.append(".bindTarget")
        elif _is_raise_if(st, "h5target.file != self.group.file", "ValueError"):
            out.append(".refuseOtherFile")
        elif src == "if name in self.group: del self.group[name]":
            out.append(".dropExisting")
        elif src == "self.group[name] = h5target":
            out.append(".hardLink")
        else:
            raise _bad(where, st)
    return _lean_list(out)


def _object_comparisons(fn):
    """`<a> == <b>` comparisons in a body, as source text"""
    out = []
    for node in ast.walk(fn):
        if isinstance(node, ast.Compare) and len(node.ops) == 1 and isinstance(node.ops[0], ast.Eq):
            out.append("%s == %s" % (_u(node.left), _u(node.comparators[0])))
    return out


def extract(repo):
    tree = _parse(repo, DIMS)
    dim = _class(tree, "Dimension", DIMS)
    rng = _class(tree, "RangeDimension", DIMS)
    smp = _class(tree, "SampledDimension", DIMS)
    dl = _class(tree, "DimensionLink", DIMS)

    bodies = [
        ("linkDataArrayBody", "Dimension.link_data_array", _link_body(_func(dim, "link_data_array", DIMS), "Dimension.link_data_array")),
        ("linkDataFrameBody", "Dimension.link_data_frame", _link_body(_func(dim, "link_data_frame", DIMS), "Dimension.link_data_frame")),
        ("rangeLinkDataArrayBody", "RangeDimension.link_data_array",
         _link_body(_func(rng, "link_data_array", DIMS), "RangeDimension.link_data_array")),
        ("rangeLinkDataFrameBody", "RangeDimension.link_data_frame",
         _link_body(_func(rng, "link_data_frame", DIMS), "RangeDimension.link_data_frame")),
        ("removeLinkBody", "Dimension.remove_link", _link_body(_func(dim, "remove_link", DIMS), "Dimension.remove_link")),
        ("ticksSetterBody", "RangeDimension.ticks (setter)",
         _link_body(_func(rng, "ticks", DIMS, setter=True), "RangeDimension.ticks setter")),
    ]
    sampled = _only_raises(_func(smp, "link_data_array", DIMS)) and _only_raises(_func(smp, "link_data_frame", DIMS))
    # RangeDimension / SetDimension take remove_link and has_link from the base class, SetDimension also the link methods
    overrides = [c.name for c in (rng, _class(tree, "SetDimension", DIMS))
                 for n in c.body if isinstance(n, ast.FunctionDef) and n.name in ("remove_link", "has_link")]
    set_overrides = [n.name for n in _class(tree, "SetDimension", DIMS).body
                     if isinstance(n, ast.FunctionDef) and n.name in ("link_data_array", "link_data_frame")]
    if overrides or set_overrides:
        raise ExtractError("dimensions.py: %s overrides a link method the model takes from the base class"
                           % ", ".join(overrides + set_overrides))

    # DimensionLink.create_new: the hard link is named by the target's id; _linked_group finds it by position 0
    cn = _func(dl, "create_new", DIMS)
    params = [a.arg for a in cn.args.args]
    link_calls = [n for n in ast.walk(cn) if isinstance(n, ast.Call) and isinstance(n.func, ast.Attribute)
                  and n.func.attr == "create_link"]
    if len(link_calls) != 1 or len(link_calls[0].args) != 2:
        raise ExtractError("DimensionLink.create_new: expected exactly one create_link(target, name) call")
    link_target, link_name = (_u(a) for a in link_calls[0].args)
    obj_param = params[4] if len(params) > 4 else None
    named_by_id = link_target == obj_param and link_name == "%s.id" % obj_param
    lg = _stmts(_func(dl, "_linked_group", DIMS))
    by_pos0 = len(lg) == 1 and _u(lg[0]) == "return self._h5group.get_by_pos(0)"

    # the unit of a link: the DataFrame branch of getter and setter, statement by statement
    unit_get = _unit_branches(_prop(dl, "unit", DIMS), "DimensionLink.unit (getter)", False)
    unit_set = _unit_branches(_prop(dl, "unit", DIMS, setter=True), "DimensionLink.unit (setter)", True)

    # membership tests in front of link assignments
    ctree = _parse(repo, os.path.join("nixio", "container.py"))
    lc = _class(ctree, "LinkContainer", "container.py")
    mtree = _parse(repo, os.path.join("nixio", "multi_tag.py"))
    mt = _class(mtree, "MultiTag", "multi_tag.py")
    ftree = _parse(repo, os.path.join("nixio", "feature.py"))
    ft = _class(ftree, "Feature", "feature.py")
    tests = []
    for site, fn, var in (("LinkContainer._accept", _func(lc, "_accept", "container.py"), "item"),
                          ("MultiTag.positions", _func(mt, "positions", "multi_tag.py", setter=True), "da"),
                          ("MultiTag.extents", _func(mt, "extents", "multi_tag.py", setter=True), "da"),
                          ("Feature.data", _func(ft, "data", "feature.py", setter=True), "dataobj")):
        for left, cont in _membership(fn, site, var):
            tests.append((site, left, cont))
    # append() links what _accept returned, under its id
    app = _stmts(_func(lc, "append", "container.py"))
    append_shape = [_u(s) for s in app]

    accept_link = _accept_body(_func(lc, "_accept", "container.py"), "LinkContainer._accept", False)
    extend_shape = _extend_body(_func(lc, "extend", "container.py"), "LinkContainer.extend")

    # the positions / extents setters, statement by statement
    pos_body = _lean_list(_role_stmts(_stmts(_func(mt, "positions", "multi_tag.py", setter=True)),
                                      "MultiTag.positions setter", "positions"))
    ext = _stmts(_func(mt, "extents", "multi_tag.py", setter=True))
    if not (ext and isinstance(ext[0], ast.If) and _u(ext[0].test) == "da is None" and ext[0].orelse):
        raise ExtractError("MultiTag.extents setter: expected `if da is None: ... else: ...` first")
    ext_none = _lean_list(_role_stmts(ext[0].body, "MultiTag.extents setter (None branch)", "extents"))
    ext_set = _lean_list(_role_stmts(ext[0].orelse, "MultiTag.extents setter (else branch)", "extents"))
    ext_tail = _lean_list(_role_stmts(ext[1:], "MultiTag.extents setter", "extents"))

    feat_body = _lean_list(_feat_stmts(_stmts(_func(ft, "data", "feature.py", setter=True)), "Feature.data setter"))

    htree = _parse(repo, os.path.join("nixio", "hdf5", "h5group.py"))
    create_link = _create_link_body(_func(_class(htree, "H5Group", "hdf5/h5group.py"), "create_link", "hdf5/h5group.py"),
                                    "H5Group.create_link")

    cont = _class(ctree, "Container", "container.py")
    contains_cmp = _object_comparisons(_func(cont, "__contains__", "container.py"))
    stree = _parse(repo, os.path.join("nixio", "source_link_container.py"))
    slc = _class(stree, "SourceLinkContainer", "source_link_container.py")
    source_cmp = _object_comparisons(_func(slc, "_accept", "source_link_container.py"))
    accept_source = _accept_body(_func(slc, "_accept", "source_link_container.py"), "SourceLinkContainer._accept", True)
    # SourceLinkContainer takes append / extend from LinkContainer
    if [n.name for n in slc.body if isinstance(n, ast.FunctionDef) and n.name in ("append", "extend")]:
        raise ExtractError("SourceLinkContainer overrides append / extend (the model takes them from LinkContainer)")

    L = []
    L.append("import NixModel.Pure.DimLinkPrim")
    L.append("import NixModel.Store.AcceptShape")
    L.append("/-! GENERATED by harness/extract/linkshape.py from nixio/dimensions.py, container.py, "
             "source_link_container.py,\nmulti_tag.py, feature.py, hdf5/h5group.py — do not edit. -/")
    L.append("namespace Nix.DimLink.Gen")
    L.append("open Nix.DimLink")
    L.append("")
    for name, what, body in bodies:
        L.append("/-- statements of `%s` -/" % what)
        L.append("def %s : List LStmt := %s" % (name, body))
        L.append("")
    L.append("/-- statements of the DataFrame branch of the `DimensionLink.unit` getter (the DataArray branch is "
             "`return lobj.get_attr(\"unit\")`) -/")
    L.append("def frameUnitGetterBody : List UStmt := %s" % unit_get)
    L.append("")
    L.append("/-- statements of the DataFrame branch of the `DimensionLink.unit` setter (the DataArray branch is "
             "`lobj.set_attr(\"unit\", unit)`) -/")
    L.append("def frameUnitSetterBody : List UStmt := %s" % unit_set)
    L.append("")
    L.append("/-- both `SampledDimension.link_data_array` and `.link_data_frame` consist of `raise RuntimeError(...)` -/")
    L.append("def sampledRefuses : Bool := %s" % lean_bool(sampled))
    L.append("/-- `DimensionLink.create_new` links the data object itself under the name `<object>.id` -/")
    L.append("def linkNamedByTargetId : Bool := %s" % lean_bool(named_by_id))
    L.append("/-- `DimensionLink._linked_group` is `self._h5group.get_by_pos(0)` -/")
    L.append("def linkedGroupIsFirstEntry : Bool := %s" % lean_bool(by_pos0))
    L.append("")
    L.append("/-- the membership tests in front of a link assignment: (site, what is tested, in which container) -/")
    L.append("def membershipTests : List (String × String × String) := [")
    L.append(",\n".join("  (%s, %s, %s)" % (lean_str(a), lean_str(b), lean_str(c)) for a, b, c in tests))
    L.append("]")
    L.append("/-- the statements of `LinkContainer.append` -/")
    L.append("def appendBody : List String := [%s]" % ", ".join(lean_str(x) for x in append_shape))
    L.append("/-- the `==` comparisons of `Container.__contains__` -/")
    L.append("def containsComparisons : List String := [%s]" % ", ".join(lean_str(x) for x in contains_cmp))
    L.append("/-- the `==` comparisons of `SourceLinkContainer._accept` -/")
    L.append("def sourceAcceptComparisons : List String := [%s]" % ", ".join(lean_str(x) for x in source_cmp))
    L.append("")
    L.append("/-- the complete body of `LinkContainer._accept` -/")
    L.append("def acceptBody : List Nix.Store.AStmt := %s" % accept_link)
    L.append("/-- the complete body of `SourceLinkContainer._accept` -/")
    L.append("def sourceAcceptBody : List Nix.Store.AStmt := %s" % accept_source)
    L.append("/-- the statements of `LinkContainer.extend` -/")
    L.append("def extendBody : List Nix.Store.EStmt := %s" % extend_shape)
    L.append("/-- the statements of the `MultiTag.positions` setter -/")
    L.append("def positionsSetterBody : List Nix.Store.RStmt := %s" % pos_body)
    L.append("/-- the `MultiTag.extents` setter: `if da is None: <none> else: <set>`, then `<tail>` -/")
    L.append("def extentsNoneBody : List Nix.Store.RStmt := %s" % ext_none)
    L.append("def extentsSetBody : List Nix.Store.RStmt := %s" % ext_set)
    L.append("def extentsTail : List Nix.Store.RStmt := %s" % ext_tail)
    L.append("/-- the statements of the `Feature.data` setter -/")
    L.append("def featureDataBody : List Nix.Store.FStmt := %s" % feat_body)
    L.append("/-- the statements of `H5Group.create_link` -/")
    L.append("def createLinkBody : List Nix.Store.CStmt := %s" % create_link)
    L.append("")
    L.append("end Nix.DimLink.Gen")
    return {TARGET: "\n".join(L) + "\n"}
