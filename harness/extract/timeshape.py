"""Translator: nixio/util/util.py (time_to_str, str_to_time)  ->  NixModel/Generated/TimeShape.lean   (used by C19)

The two conversion functions are recognised statement by statement (parsed with `ast`, never imported):

    def time_to_str(time):
        dt = datetime.utcfromtimestamp(time)
        return dt.strftime(<FORMAT>).encode("utf-8")

    def str_to_time(time_str):
        if time_str is None:
            return None
        if isinstance(time_str, bytes):
            time_str = time_str.decode()
        dt = datetime.strptime(time_str, <FORMAT>) - datetime(<Y>, <M>, <D>)
        return int(dt.total_seconds())

The format strings are rendered as lists of pieces (directive or literal character), the epoch as a triple; whether
each body has exactly the canonical statements as a Bool.  The theorems of C19 state that the Lean model formats and
parses with exactly these generated formats and this epoch, so an edited format string (another separator, a dropped
field, `%y` for `%Y`, a local-time conversion ...) breaks `lake build` on a named theorem.
"""
import ast
import os

from .leanfmt import ExtractError, lean_bool

DIRECTIVES = {"Y": "year", "m": "month", "d": "day", "H": "hour", "M": "minute", "S": "second"}


def _pieces(fmt):
    out = []
    i = 0
    while i < len(fmt):
        c = fmt[i]
        if c == "%" and i + 1 < len(fmt):
            d = fmt[i + 1]
            out.append(".%s" % DIRECTIVES[d] if d in DIRECTIVES else "(.other %s)" % _char(d))
            i += 2
        else:
            out.append("(.lit %s)" % _char(c))
            i += 1
    return "[%s]" % ", ".join(out)


def _char(c):
    if len(c) != 1 or ord(c) > 126 or ord(c) < 32 or c in "'\\":
        return "(Char.ofNat %d)" % ord(c)
    return "'%s'" % c


def _is_dt_call(node, name, nargs):
    """datetime.<name>(...) with nargs positional arguments"""
    return (isinstance(node, ast.Call) and isinstance(node.func, ast.Attribute) and node.func.attr == name
            and isinstance(node.func.value, ast.Name) and node.func.value.id == "datetime"
            and len(node.args) == nargs and not node.keywords)


def _strip_doc(body):
    if body and isinstance(body[0], ast.Expr) and isinstance(body[0].value, ast.Constant) \
            and isinstance(body[0].value.value, str):
        return body[1:]
    return body


def _time_to_str(fn):
    """-> (format or None, canonical)"""
    body = _strip_doc(fn.body)
    p = [a.arg for a in fn.args.args]
    if len(p) != 1 or len(body) != 2:
        return None, False
    a, r = body
    if not (isinstance(a, ast.Assign) and len(a.targets) == 1 and isinstance(a.targets[0], ast.Name)
            and _is_dt_call(a.value, "utcfromtimestamp", 1) and isinstance(a.value.args[0], ast.Name)
            and a.value.args[0].id == p[0]):
        return None, False
    var = a.targets[0].id
    # return <var>.strftime(FMT).encode("utf-8")
    v = r.value if isinstance(r, ast.Return) else None
    if not (isinstance(v, ast.Call) and isinstance(v.func, ast.Attribute) and v.func.attr == "encode"
            and len(v.args) == 1 and isinstance(v.args[0], ast.Constant) and v.args[0].value in ("utf-8", "ascii")
            and not v.keywords):
        return None, False
    s = v.func.value
    if not (isinstance(s, ast.Call) and isinstance(s.func, ast.Attribute) and s.func.attr == "strftime"
            and isinstance(s.func.value, ast.Name) and s.func.value.id == var and len(s.args) == 1
            and isinstance(s.args[0], ast.Constant) and isinstance(s.args[0].value, str) and not s.keywords):
        return None, False
    return s.args[0].value, True


def _str_to_time(fn):
    """-> (format or None, epoch or None, canonical)"""
    body = _strip_doc(fn.body)
    p = [a.arg for a in fn.args.args]
    if len(p) != 1 or len(body) != 4:
        return None, None, False
    x = p[0]
    g1, g2, a, r = body
    ok = (isinstance(g1, ast.If) and not g1.orelse and len(g1.body) == 1 and isinstance(g1.body[0], ast.Return)
          and isinstance(g1.body[0].value, ast.Constant) and g1.body[0].value.value is None
          and isinstance(g1.test, ast.Compare) and isinstance(g1.test.left, ast.Name) and g1.test.left.id == x
          and len(g1.test.ops) == 1 and isinstance(g1.test.ops[0], ast.Is)
          and isinstance(g1.test.comparators[0], ast.Constant) and g1.test.comparators[0].value is None)
    ok = ok and (isinstance(g2, ast.If) and not g2.orelse and len(g2.body) == 1
                 and ast.unparse(g2.test) == "isinstance(%s, bytes)" % x
                 and ast.unparse(g2.body[0]) == "%s = %s.decode()" % (x, x))
    if not ok:
        return None, None, False
    if not (isinstance(a, ast.Assign) and len(a.targets) == 1 and isinstance(a.targets[0], ast.Name)
            and isinstance(a.value, ast.BinOp) and isinstance(a.value.op, ast.Sub)
            and _is_dt_call(a.value.left, "strptime", 2) and isinstance(a.value.left.args[0], ast.Name)
            and a.value.left.args[0].id == x and isinstance(a.value.left.args[1], ast.Constant)
            and isinstance(a.value.left.args[1].value, str)
            and isinstance(a.value.right, ast.Call) and isinstance(a.value.right.func, ast.Name)
            and a.value.right.func.id == "datetime" and len(a.value.right.args) == 3 and not a.value.right.keywords
            and all(isinstance(k, ast.Constant) and isinstance(k.value, int) and not isinstance(k.value, bool)
                    and k.value >= 0 for k in a.value.right.args)):
        return None, None, False
    var = a.targets[0].id
    if not (isinstance(r, ast.Return) and ast.unparse(r.value) == "int(%s.total_seconds())" % var):
        return None, None, False
    return a.value.left.args[1].value, tuple(k.value for k in a.value.right.args), True


def extract(repo):
    path = os.path.join(repo, "nixio", "util", "util.py")
    try:
        tree = ast.parse(open(path, encoding="utf-8").read(), filename=path)
    except OSError as e:
        raise ExtractError("cannot read %s: %s" % (path, e))
    fns = {n.name: n for n in tree.body if isinstance(n, ast.FunctionDef)}
    for need in ("time_to_str", "str_to_time"):
        if need not in fns:
            raise ExtractError("util.%s not found" % need)
    # `datetime` must be the class of the standard module
    imp = [ast.unparse(n) for n in tree.body if isinstance(n, (ast.Import, ast.ImportFrom))
           and any(a.name == "datetime" or (a.asname == "datetime") for a in n.names)]
    std = imp == ["from datetime import datetime"]
    f1, c1 = _time_to_str(fns["time_to_str"])
    f2, ep, c2 = _str_to_time(fns["str_to_time"])
    L = []
    L.append("/- GENERATED by harness/extract/timeshape.py from nixio/util/util.py — do not edit. -/")
    L.append("namespace Nix.Time.Gen")
    L.append("")
    L.append("/-- one piece of a `strftime` / `strptime` format: the directives `%Y %m %d %H %M %S`, a literal character,")
    L.append("or any other directive -/")
    L.append("inductive Piece where")
    L.append("  | year | month | day | hour | minute | second | lit (c : Char) | other (c : Char)")
    L.append("  deriving DecidableEq, Repr")
    L.append("")
    L.append("/-- `time_to_str` is exactly `dt = datetime.utcfromtimestamp(time); return dt.strftime(FORMAT).encode(…)`,")
    L.append("with `datetime` the class of the standard module -/")
    L.append("def timeToStrCanonical : Bool := %s" % lean_bool(c1 and std))
    L.append("/-- the format `time_to_str` hands to `strftime` -/")
    L.append("def strftimeFormat : List Piece := %s" % (_pieces(f1) if f1 is not None else "[]"))
    L.append("")
    L.append("/-- `str_to_time` is exactly: `None` → `None`; `bytes` decoded; `dt = datetime.strptime(s, FORMAT) -")
    L.append("datetime(Y, M, D)`; `return int(dt.total_seconds())` -/")
    L.append("def strToTimeCanonical : Bool := %s" % lean_bool(c2 and std))
    L.append("/-- the format `str_to_time` hands to `strptime` -/")
    L.append("def strptimeFormat : List Piece := %s" % (_pieces(f2) if f2 is not None else "[]"))
    L.append("/-- the date `str_to_time` subtracts: the epoch -/")
    L.append("def epoch : Nat × Nat × Nat := (%d, %d, %d)" % (ep if ep is not None else (0, 0, 0)))
    L.append("")
    L.append("end Nix.Time.Gen")
    return {"NixModel/Generated/TimeShape.lean": "\n".join(L) + "\n"}


if __name__ == "__main__":
    import sys
    for k, v in extract(sys.argv[1] if len(sys.argv) > 1 else "/repo").items():
        print("==", k)
        print(v)
