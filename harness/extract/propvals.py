"""Translator: nixio/property.py, nixio/datatype.py, nixio/section.py  ->  NixModel/Generated/PropValsShape.lean  (C10)

Reads, with `ast` only:

* `Property.values` (setter), `Property.extend_values`, `Property.delete_values`: every top-level statement of the body
  is recognised as one `Shape.Prim` (NixModel/Pure/PropShape.lean) and the list is written in source order;
* `_check_text_storable` and `Property._check_new_value_types` (incl. the two nested checks): must have exactly the
  shape the model transcribes (`checkNewValueTypes`, `checkConsistent`) - messages of the exceptions aside;
* `DataType.get_dtype`: the `isinstance` chain as a list of (class test, returned member), members resolved through the
  class body of `DataType`; `BOOLS` must be `(bool, np.bool_)`;
* `Section.__len__ / __contains__ / __delitem__ / __iter__ / items / __getitem__ / __setitem__`: which collections they
  consult, in which order.

A statement that is not recognised, a missing function or another shape raises ExtractError (the tie is broken: the
model no longer provably describes the source).
"""
import ast
import os

from .leanfmt import ExtractError

OUT = "NixModel/Generated/PropValsShape.lean"


def _parse(repo, rel):
    path = os.path.join(repo, rel)
    return ast.parse(open(path, encoding="utf-8").read(), filename=path)


def _cls(tree, name, rel):
    for n in tree.body:
        if isinstance(n, ast.ClassDef) and n.name == name:
            return n
    raise ExtractError("%s: class %s not found" % (rel, name))


def _fn(body, name, where, setter=False):
    for n in body:
        if isinstance(n, ast.FunctionDef) and n.name == name:
            is_setter = any(isinstance(d, ast.Attribute) and d.attr == "setter" for d in n.decorator_list)
            if is_setter == setter:
                return n
    raise ExtractError("%s: function %s%s not found" % (where, name, " (setter)" if setter else ""))


class _NoMsg(ast.NodeTransformer):
    """exception messages are not part of the shape: `raise X(<anything>)` -> `raise X()`"""

    def visit_Raise(self, node):
        self.generic_visit(node)
        if isinstance(node.exc, ast.Call):
            node.exc = ast.Call(func=node.exc.func, args=[], keywords=[])
        return node


def _stmts(fn):
    body = list(fn.body)
    if body and isinstance(body[0], ast.Expr) and isinstance(body[0].value, ast.Constant) \
            and isinstance(body[0].value.value, str):
        body = body[1:]
    return body


def _src(node):
    node = _NoMsg().visit(ast.parse(ast.unparse(node)))
    return ast.unparse(node).strip()


STAMP = "if self.file.auto_update_timestamps:\n    self.force_updated_at()"


def _prims(fn, table, where):
    """each top-level statement -> a Prim name, `None` entries (aliases / lengths that carry no step) skipped"""
    arg = fn.args.args[1].arg if len(fn.args.args) > 1 else None
    out = []
    class Ren(ast.NodeTransformer):
        def visit_Name(self, node):
            return ast.copy_location(ast.Name(id="X", ctx=node.ctx), node) if node.id == arg else node

    for st in _stmts(fn):
        text = _src(st)
        key = _src(Ren().visit(ast.parse(text))) if arg else text
        hit = [p for pat, p in table if pat == key]
        if not hit:
            raise ExtractError("%s: statement not recognised: %s" % (where, text.replace("\n", " / ")[:160]))
        if hit[0] is not None:
            out.append(hit[0])
    return out


# patterns use X for the argument of the function; compared after ast round trip (canonical spelling)
def _canon(text):
    return "\n".join(_src(st) for st in ast.parse(text).body)


SETTER = [
    (_canon("if X is None or (isinstance(X, (Sequence, Iterable)) and not len(X)):\n    self.delete_values()\n    return"),
     "emptyClears"),
    (_canon("if not isinstance(X, (Sequence, Iterable)) or isinstance(X, str):\n    X = [X]"), "wrapSingle"),
    (_canon("vtype = self._check_new_value_types(X)"), "checkTypes"),
    (_canon("if vtype == DataType.String:\n    X = [ensure_text(v) for v in X]\n    _check_text_storable(X)"), "checkText"),
    (_canon("data = np.array(X, dtype=vtype)"), "convert"),
    (_canon("self._h5dataset.shape = np.shape(data)"), "resizeTo"),
    (_canon("self._h5dataset.write_data(data)"), "writeAll"),
    (_canon(STAMP), "stamp"),
]
EXTEND = [
    (_canon("vtype = self._check_new_value_types(X)"), "checkTypes"),
    (_canon("if not isinstance(X, (Sequence, Iterable)) or isinstance(X, str):\n    X = [X]"), "wrapSingle"),
    (_canon("if vtype == DataType.String:\n    _check_text_storable(X)"), "checkText"),
    (_canon("arr = np.array(X, dtype=vtype).flatten('C')"), "convert"),
    (_canon("dataset = self._h5dataset"), None),
    (_canon("src_len = len(self.values)"), "readLen"),
    (_canon("dlen = len(arr)"), None),
    (_canon("dataset.shape = (src_len + dlen,)"), "resizeBy"),
    (_canon("dataset.write_data(arr, slc=np.s_[src_len:src_len + dlen])"), "writeTail"),
    (_canon(STAMP), "stamp"),
]
DELETE = [
    (_canon("self._h5dataset.shape = (0,)"), "truncate"),
    (_canon(STAMP), "stamp"),
]

TEXT_CHECK = _canon("for val in values:\n    if '\\x00' in val:\n        raise ValueError()")
# fix 64770f9 (found by C12's argument sweep): text that cannot be encoded as UTF-8 (a lone surrogate) is refused in the
# same place. The Lean model's texts are `String`s, i.e. sequences of Unicode scalar values, for which the encoding
# never fails: the extra statement is the identity on everything the model can express (ASSUMPTIONS of c10.py).
TEXT_CHECK_ENC = _canon("for val in values:\n    if '\\x00' in val:\n        raise ValueError()\n    val.encode('utf-8')")

CHECK_TYPES = _canon('''
if isinstance(data, (Sequence, Iterable)) and not isinstance(data, str):
    single_val = data[0]
else:
    single_val = data
    data = [data]

def check_prop_consistent(vtype):
    if vtype != self.data_type:
        raise TypeError()

def check_new_data_consistent(vtype):
    for val in data:
        if DataType.get_dtype(val) != vtype:
            raise TypeError()
if hasattr(data, 'dtype'):
    vtype = data.dtype
    check_prop_consistent(vtype)
else:
    vtype = DataType.get_dtype(single_val)
    check_prop_consistent(vtype)
    check_new_data_consistent(vtype)
return vtype
''')

SECTION = {
    "__len__": (_canon("return len(self.props)"), None),
    "__delitem__": (_canon("del self.props[key]"), None),
    "__contains__": (_canon("return key in self.props or key in self.sections"), None),
    "__iter__": (_canon("for _, item in self.items():\n    yield item"), None),
    "items": (_canon("for prop in self.props:\n    yield (prop.name, prop)\nfor sec in self.sections:\n    yield (sec.name, sec)"), None),
    "__getitem__": (_canon("if key not in self.props and key in self.sections:\n    return self.sections[key]\n"
                           "prop = self.props[key]\nvalues = list(prop.values)\nif len(values) == 1:\n"
                           "    values = values[0]\nreturn values"), None),
    "__setitem__": (_canon("if isinstance(data, S):\n    data.section = self.create_section(key, data.section_type)\n    return\n"
                           "if not isinstance(data, list):\n    data = [data]\nif key not in self.props:\n"
                           "    self.create_property(key, data)\nelse:\n    prop = self.props[key]\n    prop.values = data"), None),
}

NP_DTYPE = {"bool_": "bool", "int8": "int8", "int16": "int16", "int32": "int32", "int64": "int64", "uint8": "uint8",
            "uint16": "uint16", "uint32": "uint32", "uint64": "uint64", "float32": "float32", "double": "float64",
            "float64": "float64", "str_": "string", "unicode_": "string"}
CLASS_TEST = {"BOOLS": "bools", "Integral": "integral", "Real": "real", "str": "str"}


def _body_text(fn):
    return "\n".join(_src(s) for s in _stmts(fn))


def _members(cls):
    """DataType member -> numpy type name (`String` is assigned in both arms of a version test)"""
    out = {}

    def visit(stmts):
        for n in stmts:
            if isinstance(n, ast.Assign) and len(n.targets) == 1 and isinstance(n.targets[0], ast.Name) \
                    and isinstance(n.value, ast.Attribute) and isinstance(n.value.value, ast.Name) \
                    and n.value.value.id == "np":
                name, val = n.targets[0].id, NP_DTYPE.get(n.value.attr)
                if val is None:
                    raise ExtractError("datatype.py: DataType.%s = np.%s is not a dtype the model knows" % (name, n.value.attr))
                if out.get(name, val) != val:
                    raise ExtractError("datatype.py: DataType.%s has two different meanings" % name)
                out[name] = val
            elif isinstance(n, ast.If):
                visit(n.body)
                visit(n.orelse)
    visit(cls.body)
    return out


def _chain(fn, members):
    body = _stmts(fn)
    if len(body) != 1 or not isinstance(body[0], ast.If):
        raise ExtractError("datatype.py: get_dtype is not a single if/elif chain")
    chain = []
    node = body[0]
    while True:
        t = node.test
        if not (isinstance(t, ast.Call) and isinstance(t.func, ast.Name) and t.func.id == "isinstance"
                and len(t.args) == 2 and isinstance(t.args[0], ast.Name) and t.args[0].id == fn.args.args[1].arg
                and isinstance(t.args[1], ast.Name) and t.args[1].id in CLASS_TEST):
            raise ExtractError("datatype.py: get_dtype test not recognised: %s" % ast.unparse(t))
        if not (len(node.body) == 1 and isinstance(node.body[0], ast.Return)
                and isinstance(node.body[0].value, ast.Attribute) and isinstance(node.body[0].value.value, ast.Name)
                and node.body[0].value.value.id == "cls" and node.body[0].value.attr in members):
            raise ExtractError("datatype.py: get_dtype branch does not return a DataType member: %s"
                               % ast.unparse(node.body[0]))
        chain.append((CLASS_TEST[t.args[1].id], members[node.body[0].value.attr]))
        if len(node.orelse) == 1 and isinstance(node.orelse[0], ast.If):
            node = node.orelse[0]
            continue
        if not (len(node.orelse) == 1 and _src(node.orelse[0]) == "raise ValueError()"):
            raise ExtractError("datatype.py: get_dtype does not end in `else: raise ValueError`")
        return chain


def extract(repo):
    ptree = _parse(repo, "nixio/property.py")
    prop = _cls(ptree, "Property", "property.py")
    setter = _prims(_fn(prop.body, "values", "Property", setter=True), SETTER, "Property.values (setter)")
    extend = _prims(_fn(prop.body, "extend_values", "Property"), EXTEND, "Property.extend_values")
    delete = _prims(_fn(prop.body, "delete_values", "Property"), DELETE, "Property.delete_values")
    if _body_text(_fn(ptree.body, "_check_text_storable", "property.py")) not in (TEXT_CHECK, TEXT_CHECK_ENC):
        raise ExtractError("property.py: _check_text_storable is no longer the NUL test the model transcribes")
    if _body_text(_fn(prop.body, "_check_new_value_types", "Property")) != CHECK_TYPES:
        raise ExtractError("property.py: Property._check_new_value_types no longer has the shape the model transcribes "
                           "(checkNewValueTypes / checkConsistent)")
    getter = _body_text(_fn(prop.body, "values", "Property"))
    if "dataset.read_data()" not in getter or "self._" in getter.replace("self._h5dataset", "").replace("self._read_old_values", ""):
        raise ExtractError("property.py: the values getter does not read the dataset on every call (state kept on the object?)")
    init = _body_text(_fn(prop.body, "__init__", "Property"))
    if init != _canon("super(Property, self).__init__(nixfile, nixparent, h5dataset)\nself._h5dataset = self._h5group"):
        raise ExtractError("property.py: Property.__init__ keeps more than the dataset it stands for")

    dtree = _parse(repo, "nixio/datatype.py")
    bools = [n for n in dtree.body if isinstance(n, ast.Assign) and len(n.targets) == 1
             and isinstance(n.targets[0], ast.Name) and n.targets[0].id == "BOOLS"]
    if len(bools) != 1 or ast.unparse(bools[0].value) != "(bool, np.bool_)":
        raise ExtractError("datatype.py: BOOLS is not (bool, np.bool_)")
    dt = _cls(dtree, "DataType", "datatype.py")
    chain = _chain(_fn(dt.body, "get_dtype", "DataType"), _members(dt))

    stree = _parse(repo, "nixio/section.py")
    sec = _cls(stree, "Section", "section.py")
    for name, (want, _) in SECTION.items():
        if _body_text(_fn(sec.body, name, "Section")) != want:
            raise ExtractError("section.py: Section.%s no longer has the shape the model transcribes" % name)
    # the data the Lean side interprets, read from the (verified) statements
    coll = {"props": "props", "sections": "sections"}
    ret = _stmts(_fn(sec.body, "__contains__", "Section"))[0].value
    contains_order = [coll[c.comparators[0].attr] for c in ret.values]
    items_order = [coll[f.iter.attr] for f in _stmts(_fn(sec.body, "items", "Section"))]

    def plist(xs):
        return "[" + ", ".join("." + x for x in xs) + "]"

    lean = """import NixModel.Pure.PropShape
/-! GENERATED by harness/extract/propvals.py from nixio/property.py, nixio/datatype.py, nixio/section.py — do not edit. -/
namespace Nix.PropVals.Gen
open Nix.PropVals Nix.PropVals.Shape

/-- statements of the `Property.values` setter, in source order -/
def valuesSetterBody : List Prim := %s
/-- statements of `Property.extend_values`, in source order -/
def extendValuesBody : List Prim := %s
/-- statements of `Property.delete_values`, in source order -/
def deleteValuesBody : List Prim := %s
/-- the `isinstance` chain of `DataType.get_dtype` (falls through to `raise ValueError`) -/
def getDtypeChain : List (ClassTest × DType) := %s
/-- `Section.__contains__`: `key in self.<c1> or key in self.<c2>` -/
def containsOrder : List Coll := %s
/-- `Section.items` (and `__iter__`, which yields its second components): one loop per collection -/
def itemsOrder : List Coll := %s
/-- `Section.__len__` counts, `__delitem__` deletes from, `__setitem__` looks up / creates in -/
def lenOf : Coll := .props
def delFrom : Coll := .props
def setitemIn : Coll := .props
/-- `Section.__getitem__`: `if key not in self.<a> and key in self.<b>: return self.<b>[key]`, else `<a>` -/
def getitemGuard : Coll × Coll := (.props, .sections)
/-- `Section.__getitem__` unwraps a value list of this length -/
def getitemUnwrapLen : Nat := 1

end Nix.PropVals.Gen
""" % (plist(setter), plist(extend), plist(delete),
       "[" + ", ".join("(.%s, .%s)" % (t, d) for t, d in chain) + "]", plist(contains_order), plist(items_order))
    return {OUT: lean}
