"""Translator: nixio/compression.py + the compression-resolution statements of file.py, block.py,
data_array.py and hdf5/h5dataset.py  ->  NixModel/Generated/Compression.lean

Parsed with `ast` (never imported).  Rendered:
 * the `Compression` enum (member names in source order, string values),
 * File.__init__:           `if compression == Compression.<fileIf>: compression = Compression.<fileThen>`
 * File.create_block:       `if compression == Compression.<blockIf>: compression = self._compr`
 * Block.__init__ default:  the compression a re-fetched Block handle carries (<blockHandleDefault>)
 * Block.create_data_array: `if compression == Compression.<arrayIf>: compression = self._compr`
 * DataArray.create_new:    `datacompr = False; if compression == Compression.<deflateIf>: datacompr = True`
 * H5DataSet.__init__:      `comprargs = {"compression": <filter>, "compression_opts": <level>}`
 * the defaults of the `compression` parameters of File.__init__/open, create_block, create_data_array.
Anything else raises ExtractError (a broken tie, handled by the check).
"""
import ast
import os

from .leanfmt import ExtractError, lean_str

EXPECTED_MEMBERS = ["No", "DeflateNormal", "Auto"]


def _parse(repo, rel):
    p = os.path.join(repo, rel)
    try:
        return ast.parse(open(p, encoding="utf-8").read())
    except (OSError, SyntaxError) as e:
        raise ExtractError("cannot parse %s: %s" % (rel, e))


def _cls(tree, name, rel):
    for n in tree.body:
        if isinstance(n, ast.ClassDef) and n.name == name:
            return n
    raise ExtractError("class %s not found in %s" % (name, rel))


def _fn(cls, name, rel):
    for n in cls.body:
        if isinstance(n, ast.FunctionDef) and n.name == name:
            return n
    raise ExtractError("function %s.%s not found in %s" % (cls.name, name, rel))


def _member(node):
    """Compression.<X> -> 'X'"""
    if (isinstance(node, ast.Attribute) and isinstance(node.value, ast.Name)
            and node.value.id == "Compression"):
        return node.attr
    return None


def _default_of(fn, argname, rel):
    args = fn.args.args
    defaults = fn.args.defaults
    off = len(args) - len(defaults)
    for i, a in enumerate(args):
        if a.arg == argname:
            if i < off:
                raise ExtractError("%s.%s has no default in %s" % (fn.name, argname, rel))
            m = _member(defaults[i - off])
            if m is None:
                raise ExtractError("default of %s(%s) is not a Compression member in %s" % (fn.name, argname, rel))
            return m
    raise ExtractError("%s has no parameter %s in %s" % (fn.name, argname, rel))


def _if_compression_eq(fn, rel):
    """all top-level `if compression == Compression.X:` statements of fn: [(X, body)]"""
    out = []
    for st in fn.body:
        if isinstance(st, ast.If) and isinstance(st.test, ast.Compare) and len(st.test.ops) == 1 \
                and isinstance(st.test.ops[0], ast.Eq) and isinstance(st.test.left, ast.Name) \
                and st.test.left.id == "compression":
            m = _member(st.test.comparators[0])
            if m is None:
                raise ExtractError("%s compares compression with something else than a member in %s" % (fn.name, rel))
            if st.orelse:
                raise ExtractError("%s: `if compression == ...` has an else branch in %s" % (fn.name, rel))
            out.append((m, st.body))
    return out


def _single_assign(body, target_dump, what, rel):
    if len(body) != 1 or not isinstance(body[0], ast.Assign) or len(body[0].targets) != 1:
        raise ExtractError("%s: unexpected body in %s" % (what, rel))
    t = body[0].targets[0]
    if ast.dump(t) != target_dump:
        raise ExtractError("%s: assigns to something unexpected in %s" % (what, rel))
    return body[0].value


NAME_COMPRESSION = ast.dump(ast.Name(id="compression", ctx=ast.Store()))
NAME_DATACOMPR = ast.dump(ast.Name(id="datacompr", ctx=ast.Store()))


def _is_self_compr(node):
    return (isinstance(node, ast.Attribute) and node.attr == "_compr" and isinstance(node.value, ast.Name)
            and node.value.id == "self")


def _inherit_rule(fn, rel):
    """exactly one `if compression == Compression.X: compression = self._compr` -> X"""
    ifs = _if_compression_eq(fn, rel)
    if len(ifs) != 1:
        raise ExtractError("%s: expected one `if compression == Compression.<m>` in %s, found %d"
                           % (fn.name, rel, len(ifs)))
    m, body = ifs[0]
    v = _single_assign(body, NAME_COMPRESSION, fn.name, rel)
    if not _is_self_compr(v):
        raise ExtractError("%s: the inherited value is not self._compr in %s" % (fn.name, rel))
    return m


def _lc(name):
    return name[0].lower() + name[1:]


def extract(repo):
    # ---- enum ---------------------------------------------------------------------------
    rel = "nixio/compression.py"
    cls = _cls(_parse(repo, rel), "Compression", rel)
    members = []
    for st in cls.body:
        if isinstance(st, ast.Assign) and len(st.targets) == 1 and isinstance(st.targets[0], ast.Name):
            if not (isinstance(st.value, ast.Constant) and isinstance(st.value.value, str)):
                raise ExtractError("Compression.%s is not a string constant" % st.targets[0].id)
            members.append((st.targets[0].id, st.value.value))
    if [m for m, _ in members] != EXPECTED_MEMBERS:
        raise ExtractError("Compression members are %s, the model is written for %s"
                           % ([m for m, _ in members], EXPECTED_MEMBERS))
    names = [m for m, _ in members]

    def chk(m, where):
        if m not in names:
            raise ExtractError("%s refers to unknown member Compression.%s" % (where, m))
        return ".%s" % _lc(m)

    # ---- file.py ------------------------------------------------------------------------
    rel = "nixio/file.py"
    fcls = _cls(_parse(repo, rel), "File", rel)
    init = _fn(fcls, "__init__", rel)
    ifs = _if_compression_eq(init, rel)
    if len(ifs) != 1:
        raise ExtractError("File.__init__: expected one `if compression == Compression.<m>`, found %d" % len(ifs))
    file_if, body = ifs[0]
    v = _member(_single_assign(body, NAME_COMPRESSION, "File.__init__", rel))
    if v is None:
        raise ExtractError("File.__init__: Auto does not resolve to a Compression member")
    file_then = v
    # self._compr = compression must follow
    found = False
    for st in init.body:
        if isinstance(st, ast.Assign) and len(st.targets) == 1 and _is_self_compr(st.targets[0]) \
                and isinstance(st.value, ast.Name) and st.value.id == "compression":
            found = True
    if not found:
        raise ExtractError("File.__init__ no longer stores `self._compr = compression`")
    file_default = _default_of(init, "compression", rel)
    open_default = _default_of(_fn(fcls, "open", rel), "compression", rel)
    if open_default != file_default:
        raise ExtractError("File.open and File.__init__ have different compression defaults")
    cb = _fn(fcls, "create_block", rel)
    block_if = _inherit_rule(cb, rel)
    block_default = _default_of(cb, "compression", rel)

    # ---- block.py -----------------------------------------------------------------------
    rel = "nixio/block.py"
    bcls = _cls(_parse(repo, rel), "Block", rel)
    binit = _fn(bcls, "__init__", rel)
    handle_default = _default_of(binit, "compression", rel)
    found = False
    for st in binit.body:
        if isinstance(st, ast.Assign) and len(st.targets) == 1 and _is_self_compr(st.targets[0]) \
                and isinstance(st.value, ast.Name) and st.value.id == "compression":
            found = True
    if not found:
        raise ExtractError("Block.__init__ no longer stores `self._compr = compression`")
    cnew = _fn(bcls, "create_new", rel)
    found = False
    for st in cnew.body:
        if isinstance(st, ast.Assign) and len(st.targets) == 1 and isinstance(st.targets[0], ast.Attribute) \
                and st.targets[0].attr == "_compr" and isinstance(st.value, ast.Name) and st.value.id == "compression":
            found = True
    if not found:
        raise ExtractError("Block.create_new no longer stores `newentity._compr = compression`")
    cda = _fn(bcls, "create_data_array", rel)
    array_if = _inherit_rule(cda, rel)
    array_default = _default_of(cda, "compression", rel)

    # ---- data_array.py ------------------------------------------------------------------
    rel = "nixio/data_array.py"
    dcls = _cls(_parse(repo, rel), "DataArray", rel)
    dnew = _fn(dcls, "create_new", rel)
    init_false = False
    for st in dnew.body:
        if isinstance(st, ast.Assign) and len(st.targets) == 1 and ast.dump(st.targets[0]) == NAME_DATACOMPR:
            if isinstance(st.value, ast.Constant) and st.value.value is False:
                init_false = True
            else:
                raise ExtractError("DataArray.create_new: datacompr is not initialised to False")
    if not init_false:
        raise ExtractError("DataArray.create_new: `datacompr = False` not found")
    ifs = _if_compression_eq(dnew, rel)
    if len(ifs) != 1:
        raise ExtractError("DataArray.create_new: expected one `if compression == Compression.<m>`")
    deflate_if, body = ifs[0]
    v = _single_assign(body, NAME_DATACOMPR, "DataArray.create_new", rel)
    if not (isinstance(v, ast.Constant) and v.value is True):
        raise ExtractError("DataArray.create_new: the branch does not set datacompr = True")
    # create_dataset("data", shape, data_type, datacompr)
    ok = False
    for n in ast.walk(dnew):
        if isinstance(n, ast.Call) and isinstance(n.func, ast.Attribute) and n.func.attr == "create_dataset":
            if len(n.args) == 4 and isinstance(n.args[3], ast.Name) and n.args[3].id == "datacompr":
                ok = True
    if not ok:
        raise ExtractError("DataArray.create_new no longer passes datacompr to create_dataset")

    # ---- h5dataset.py -------------------------------------------------------------------
    rel = "nixio/hdf5/h5dataset.py"
    hcls = _cls(_parse(repo, rel), "H5DataSet", rel)
    hinit = _fn(hcls, "__init__", rel)
    filt = level = None
    for n in ast.walk(hinit):
        if isinstance(n, ast.If) and isinstance(n.test, ast.Name) and n.test.id == "compression":
            for st in n.body:
                if isinstance(st, ast.Assign) and isinstance(st.value, ast.Dict):
                    d = {}
                    for k, v in zip(st.value.keys, st.value.values):
                        if isinstance(k, ast.Constant) and isinstance(v, ast.Constant):
                            d[k.value] = v.value
                    if sorted(map(str, d)) != ["compression", "compression_opts"] or len(d) != len(st.value.keys):
                        raise ExtractError("H5DataSet.__init__: the dataset creation arguments for compression are no "
                                           "longer exactly compression + compression_opts")
                    filt, level = d.get("compression"), d.get("compression_opts")
    if not isinstance(filt, str) or not isinstance(level, int) or isinstance(level, bool):
        raise ExtractError("H5DataSet.__init__: `if compression: comprargs = {...}` not recognised")

    lines = [
        "/- GENERATED by harness/extract/compression.py from nixio/compression.py, file.py, block.py,",
        "   data_array.py, hdf5/h5dataset.py — do not edit; regenerated on every check run. -/",
        "namespace Nix.Gen.Compr",
        "",
        "/-- `class Compression(Enum)` -/",
        "inductive Compression where",
        "  " + " ".join("| %s" % _lc(m) for m in names),
        "  deriving DecidableEq, Repr, Inhabited",
        "",
        "def Compression.all : List Compression := [%s]" % ", ".join(".%s" % _lc(m) for m in names),
        "",
        "def Compression.value : Compression → String",
    ]
    for m, v in members:
        lines.append("  | .%s => %s" % (_lc(m), lean_str(v)))
    lines += [
        "",
        "def Compression.pyName : Compression → String",
    ]
    for m, _ in members:
        lines.append("  | .%s => %s" % (_lc(m), lean_str(m)))
    lines += [
        "",
        "/-- File.__init__: `if compression == Compression.<fileIf>: compression = Compression.<fileThen>` -/",
        "def fileIf : Compression := %s" % chk(file_if, "File.__init__"),
        "def fileThen : Compression := %s" % chk(file_then, "File.__init__"),
        "/-- default of the `compression` parameter of File.__init__ / File.open -/",
        "def fileDefault : Compression := %s" % chk(file_default, "File.__init__"),
        "/-- File.create_block: `if compression == Compression.<blockIf>: compression = self._compr` -/",
        "def blockIf : Compression := %s" % chk(block_if, "File.create_block"),
        "def blockDefault : Compression := %s" % chk(block_default, "File.create_block"),
        "/-- Block.__init__ default: what a re-fetched Block handle carries as `_compr` -/",
        "def blockHandleDefault : Compression := %s" % chk(handle_default, "Block.__init__"),
        "/-- Block.create_data_array: `if compression == Compression.<arrayIf>: compression = self._compr` -/",
        "def arrayIf : Compression := %s" % chk(array_if, "Block.create_data_array"),
        "def arrayDefault : Compression := %s" % chk(array_default, "Block.create_data_array"),
        "/-- DataArray.create_new: `datacompr = False; if compression == Compression.<deflateIf>: datacompr = True` -/",
        "def deflateIf : Compression := %s" % chk(deflate_if, "DataArray.create_new"),
        "/-- H5DataSet.__init__: `comprargs = {\"compression\": <filter>, \"compression_opts\": <level>}` -/",
        "def h5Filter : String := %s" % lean_str(filt),
        "def h5Level : Nat := %d" % level,
        "",
        "end Nix.Gen.Compr",
        "",
    ]
    return {"NixModel/Generated/Compression.lean": "\n".join(lines)}
