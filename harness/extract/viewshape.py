"""Translator: nixio/data_view.py, nixio/data_array.py  ->  NixModel/Generated/ViewShape.lean       (property C06)

A small compiler from the Python subset these functions are written in to Lean definitions.  It does not emit
tables of strings but *code*: every test, every arithmetic expression, every `raise` of

  DataView.__init__                 the guarded validity tests (in source order) and the normalisation
  DataView._expand_user_slices      whole body
  DataView._transform_coordinates   the integer branch, the slice branch (with the local transform_slice), the
                                    class raised for anything else, and the statements around the loop
  DataView._read_data/_write_data   what an invalid view does, the test on `sl`, the callees
  DataArray._read_data              the single-value rule (`if not len(data.shape): data.shape = (1,)`)
  DataArray.get_slice               the two rank guards and the window `slice(p, p + e)`
  DataArray._get_slice_bydim        (shape only) its statements as normalised source lines, and the default `mode`
                                    of SampledDimension/RangeDimension/SetDimension.index_of (nixio/dimensions.py)

is translated into a Lean term over `Int` (Python's int), `Bool`, `List Ix`, `Except Err _` using the vocabulary of
`NixModel/Pure/ViewGen.lean`.  `Lemmas/C06Gen.lean` proves the generated definitions equal, for all inputs, to the
hand-written model `Pure/DataView.lean` the C06 theorems are about (`Props/C06.lean`, `C06_source_*`): an edited
comparison, a changed arithmetic expression, a dropped or reordered test, `if sl:` for `if sl is not None:`, another
exception class ... changes a generated definition and breaks `lake build` on a named theorem.

Supported statements: `x = <int expr>`, `x = slice(a, b[, c])`, `a, b, c = s.indices(n)`, `x = <local function>(…)`,
`x = <ExceptionClass>(…)`, `if c: raise/return …` (rest becomes the else branch), `if c: x = e [else: x = e']`,
`raise <exception variable or class>`, `return <expr>`.  Expressions: int constants, names, `s.start/.stop/.step`,
`+ - *`, comparisons, `and/or/not`, `len(t)`, `t.count(Ellipsis)`, `t.index(Ellipsis)`, `t[:i]`, `t[i:]`,
`(slice(None),) * n`, tuple `+`.  Anything else raises ExtractError (broken tie: the check goes searching).
Parsed with `ast` only.
"""
import ast
import os

from .leanfmt import ExtractError, lean_str

TARGET = "NixModel/Generated/ViewShape.lean"

EXC = {"OutOfBounds": "outOfBounds", "InvalidSlice": "invalidSlice", "IndexError": "indexError",
       "ValueError": "valueError", "TypeError": "typeError", "IncompatibleDimensions": "incompatibleDimensions",
       "KeyError": "keyError", "RuntimeError": "runtimeError", "AttributeError": "attributeError",
       "OverflowError": "overflowError"}

CMP = {ast.Lt: "<", ast.LtE: "≤", ast.Gt: ">", ast.GtE: "≥", ast.Eq: "=", ast.NotEq: "≠"}
ARITH = {ast.Add: "+", ast.Sub: "-", ast.Mult: "*"}


def _u(node):
    return ast.unparse(node)


def _fail(fn, node, why):
    raise ExtractError("%s: line %s: %s: `%s`" % (fn, getattr(node, "lineno", "?"), why, _u(node)[:120]))


class Env:
    """names in scope.  kind: int | bool | slice (three Lean ints <n>_start/_stop/_step) | pyslice (opaque PySlice)
    | ixlist | exc | natlist.  `text` maps the source text of whole sub-expressions (e.g. `len(self.data_extent)`)
    to a Lean term."""

    def __init__(self, fn, vars=None, text=None, funcs=None):
        self.fn = fn
        self.vars = dict(vars or {})
        self.text = dict(text or {})
        self.funcs = dict(funcs or {})

    def child(self):
        return Env(self.fn, self.vars, self.text, self.funcs)


def exc_of(env, node):
    """exception class of `raise <node>`"""
    if isinstance(node, ast.Name):
        if node.id in env.vars and env.vars[node.id][0] == "exc":
            return env.vars[node.id][1]
        if node.id in EXC:
            return EXC[node.id]
    if isinstance(node, ast.Call) and isinstance(node.func, ast.Name) and node.func.id in EXC:
        return EXC[node.func.id]
    _fail(env.fn, node, "unknown exception")


def cx(env, node, want):
    """compile an expression to a Lean term of kind `want` (int | bool | ixlist)"""
    txt = _u(node)
    if (txt, want) in env.text:
        return env.text[(txt, want)]
    if want == "bool":
        if isinstance(node, ast.BoolOp):
            op = " && " if isinstance(node.op, ast.And) else " || "
            return "(" + op.join(cx(env, v, "bool") for v in node.values) + ")"
        if isinstance(node, ast.UnaryOp) and isinstance(node.op, ast.Not):
            return "(!" + cx(env, node.operand, "bool") + ")"
        if isinstance(node, ast.Compare):
            if len(node.ops) != 1:
                _fail(env.fn, node, "chained comparison")
            op = CMP.get(type(node.ops[0]))
            if op is None:
                _fail(env.fn, node, "unsupported comparison")
            return "decide (%s %s %s)" % (cx(env, node.left, "int"), op, cx(env, node.comparators[0], "int"))
        if isinstance(node, ast.Constant) and isinstance(node.value, bool):
            return "true" if node.value else "false"
        if isinstance(node, ast.Name) and node.id in env.vars and env.vars[node.id][0] == "bool":
            return env.vars[node.id][1]
        # truthiness of an int expression
        return "decide (%s ≠ 0)" % cx(env, node, "int")
    if want == "int":
        if isinstance(node, ast.Constant) and isinstance(node.value, int) and not isinstance(node.value, bool):
            return str(node.value) if node.value >= 0 else "(%d)" % node.value
        if isinstance(node, ast.Name):
            if node.id in env.vars and env.vars[node.id][0] == "int":
                return env.vars[node.id][1]
            _fail(env.fn, node, "not an integer variable in scope")
        if isinstance(node, ast.Attribute) and isinstance(node.value, ast.Name) and node.attr in ("start", "stop", "step"):
            v = env.vars.get(node.value.id)
            if v and v[0] == "slice":
                return "%s_%s" % (v[1], node.attr)
            _fail(env.fn, node, "attribute of something that is not a slice of integers")
        if isinstance(node, ast.BinOp) and type(node.op) in ARITH:
            return "(%s %s %s)" % (cx(env, node.left, "int"), ARITH[type(node.op)], cx(env, node.right, "int"))
        if isinstance(node, ast.UnaryOp) and isinstance(node.op, ast.USub):
            return "(-%s)" % cx(env, node.operand, "int")
        if isinstance(node, ast.IfExp):
            return "(if %s then %s else %s)" % (cx(env, node.test, "bool"), cx(env, node.body, "int"),
                                                cx(env, node.orelse, "int"))
        if isinstance(node, ast.Call):
            f = node.func
            if isinstance(f, ast.Name) and f.id == "len" and len(node.args) == 1:
                a = node.args[0]
                if isinstance(a, ast.Name) and a.id in env.vars and env.vars[a.id][0] in ("ixlist", "natlist"):
                    return "pyLen %s" % env.vars[a.id][1]
                if (_u(a), "natlist") in env.text:
                    return "pyLen %s" % env.text[(_u(a), "natlist")]
            if isinstance(f, ast.Attribute) and isinstance(f.value, ast.Name) and f.value.id in env.vars \
                    and env.vars[f.value.id][0] == "ixlist" and len(node.args) == 1 and _u(node.args[0]) == "Ellipsis":
                if f.attr == "count":
                    return "pyCount %s" % env.vars[f.value.id][1]
                if f.attr == "index":
                    return "pyIndexEllipsis %s" % env.vars[f.value.id][1]
        if isinstance(node, ast.Attribute) and node.attr == "size" and (_u(node.value) + ".shape", "natlist") in env.text:
            return "(shapeProd %s : Int)" % env.text[(_u(node.value) + ".shape", "natlist")]
        _fail(env.fn, node, "unsupported integer expression")
    if want == "ixlist":
        if isinstance(node, ast.Name) and node.id in env.vars and env.vars[node.id][0] == "ixlist":
            return env.vars[node.id][1]
        if isinstance(node, ast.BinOp) and isinstance(node.op, ast.Add):
            return "(%s ++ %s)" % (cx(env, node.left, "ixlist"), cx(env, node.right, "ixlist"))
        if isinstance(node, ast.BinOp) and isinstance(node.op, ast.Mult) and _u(node.left) == "(slice(None),)":
            return "pyRepeat (Ix.slice PySlice.full) %s" % cx(env, node.right, "int")
        if isinstance(node, ast.Tuple) and len(node.elts) == 1 and _u(node.elts[0]) == "slice(None)":
            return "[Ix.slice PySlice.full]"
        if isinstance(node, ast.Subscript) and isinstance(node.slice, ast.Slice) and node.slice.step is None:
            base = cx(env, node.value, "ixlist")
            lo, hi = node.slice.lower, node.slice.upper
            if lo is None and hi is not None:
                return "pyTake %s %s" % (base, cx(env, hi, "int"))
            if lo is not None and hi is None:
                return "pyDrop %s %s" % (base, cx(env, lo, "int"))
        _fail(env.fn, node, "unsupported tuple expression")
    _fail(env.fn, node, "unsupported kind %s" % want)


def _terminates(stmts):
    return bool(stmts) and isinstance(stmts[-1], (ast.Raise, ast.Return))


def _is_doc(st):
    return isinstance(st, ast.Expr) and isinstance(st.value, ast.Constant) and isinstance(st.value.value, str)


def _slice_ctor(node):
    return isinstance(node, ast.Call) and isinstance(node.func, ast.Name) and node.func.id == "slice" \
        and 2 <= len(node.args) <= 3 and not node.keywords


def cs(env, stmts, ret, ind="  "):
    """compile a statement list into one Lean term of type `Except Err <ret>`; ret: int | slice | ixlist"""
    if not stmts:
        _fail(env.fn, ast.Pass(), "control reaches the end of the block without return/raise")
    st, rest = stmts[0], stmts[1:]
    if _is_doc(st):
        return cs(env, rest, ret, ind)
    if isinstance(st, ast.Raise):
        return ind + ".error .%s" % exc_of(env, st.exc)
    if isinstance(st, ast.Return):
        if ret == "slice":
            if isinstance(st.value, ast.Name) and env.vars.get(st.value.id, ("",))[0] == "slice":
                n = env.vars[st.value.id][1]
                return ind + ".ok (%s_start, %s_stop, %s_step)" % (n, n, n)
            _fail(env.fn, st, "return of something that is not a slice of integers")
        return ind + ".ok (%s)" % cx(env, st.value, ret)
    if isinstance(st, ast.Assign) and len(st.targets) == 1:
        tgt, val = st.targets[0], st.value
        if isinstance(tgt, ast.Name):
            if isinstance(val, ast.Call) and isinstance(val.func, ast.Name) and val.func.id in EXC:
                env.vars[tgt.id] = ("exc", EXC[val.func.id])
                return cs(env, rest, ret, ind)
            if _slice_ctor(val):
                a = cx(env, val.args[0], "int")
                b = cx(env, val.args[1], "int")
                c = cx(env, val.args[2], "int") if len(val.args) == 3 else "1"
                out = [ind + "let %s_start := %s" % (tgt.id, a), ind + "let %s_stop := %s" % (tgt.id, b),
                       ind + "let %s_step := %s" % (tgt.id, c)]
                env.vars[tgt.id] = ("slice", tgt.id)
                return "\n".join(out) + "\n" + cs(env, rest, ret, ind)
            if isinstance(val, ast.Call) and isinstance(val.func, ast.Name) and val.func.id in env.funcs:
                lean, kinds, rkind = env.funcs[val.func.id]
                if len(val.args) != len(kinds):
                    _fail(env.fn, st, "wrong number of arguments")
                args = []
                for a, k in zip(val.args, kinds):
                    if k == "pyslice":
                        if not (isinstance(a, ast.Name) and env.vars.get(a.id, ("",))[0] == "pyslice"):
                            _fail(env.fn, a, "expected the user's slice")
                        args.append(env.vars[a.id][1])
                    elif k == "slice":
                        if not (isinstance(a, ast.Name) and env.vars.get(a.id, ("",))[0] == "slice"):
                            _fail(env.fn, a, "expected a slice of integers")
                        n = env.vars[a.id][1]
                        args += ["%s_start" % n, "%s_stop" % n]
                    else:
                        args.append(cx(env, a, k))
                if rkind != "slice":
                    _fail(env.fn, st, "unsupported result kind")
                env.vars[tgt.id] = ("slice", tgt.id)
                t = tgt.id
                return (ind + "match %s %s with\n" % (lean, " ".join(args)) + ind + "| .error e => .error e\n"
                        + ind + "| .ok (%s_start, %s_stop, %s_step) =>\n" % (t, t, t) + cs(env, rest, ret, ind))
            kind = "ixlist" if _looks_list(env, val) else "int"
            e = cx(env, val, kind)
            env.vars[tgt.id] = (kind, tgt.id)
            return ind + "let %s := %s\n" % (tgt.id, e) + cs(env, rest, ret, ind)
        if isinstance(tgt, ast.Tuple) and len(tgt.elts) == 3 and all(isinstance(x, ast.Name) for x in tgt.elts) \
                and isinstance(val, ast.Call) and isinstance(val.func, ast.Attribute) and val.func.attr == "indices" \
                and isinstance(val.func.value, ast.Name) and env.vars.get(val.func.value.id, ("",))[0] == "pyslice" \
                and len(val.args) == 1:
            names = [x.id for x in tgt.elts]
            n = cx(env, val.args[0], "int")
            s = env.vars[val.func.value.id][1]
            for x in names:
                env.vars[x] = ("int", x)
            return (ind + "match sliceIndices %s %s with\n" % (s, n) + ind + "| .error e => .error e\n"
                    + ind + "| .ok (%s, %s, %s) =>\n" % tuple(names) + cs(env, rest, ret, ind))
        _fail(env.fn, st, "unsupported assignment")
    if isinstance(st, ast.If):
        c = cx(env, st.test, "bool")
        if _terminates(st.body):
            then = cs(env.child(), st.body, ret, ind + "  ")
            other = st.orelse + rest if st.orelse else rest
            return ind + "if %s then\n%s\n" % (c, then) + ind + "else\n" + cs(env, other, ret, ind)
        # assignments of integer variables only
        def single(block):
            if len(block) != 1 or not isinstance(block[0], ast.Assign) or len(block[0].targets) != 1 \
                    or not isinstance(block[0].targets[0], ast.Name):
                _fail(env.fn, st, "a conditional block must be one assignment, or end in raise/return")
            return block[0].targets[0].id, block[0].value
        v1, e1 = single(st.body)
        a = cx(env, e1, "int")
        if st.orelse:
            v2, e2 = single(st.orelse)
            if v2 != v1:
                _fail(env.fn, st, "branches assign different variables")
            b = cx(env, e2, "int")
        else:
            b = cx(env, ast.Name(id=v1, ctx=ast.Load()), "int")
        env.vars[v1] = ("int", v1)
        return ind + "let %s := if %s then %s else %s\n" % (v1, c, a, b) + cs(env, rest, ret, ind)
    _fail(env.fn, st, "unsupported statement")


def _looks_list(env, node):
    if isinstance(node, ast.Name):
        return env.vars.get(node.id, ("",))[0] == "ixlist"
    if isinstance(node, ast.BinOp):
        if isinstance(node.op, ast.Mult) and isinstance(node.left, ast.Tuple):
            return True
        return _looks_list(env, node.left)
    return isinstance(node, (ast.Tuple, ast.Subscript))


# ---------------------------------------------------------------------------------------


def _parse(repo, rel):
    path = os.path.join(repo, rel)
    try:
        with open(path, encoding="utf-8") as f:
            return ast.parse(f.read(), filename=rel)
    except OSError as e:
        raise ExtractError("%s: %s" % (rel, e))


def _method(tree, cls, name, rel):
    for node in tree.body:
        if isinstance(node, ast.ClassDef) and node.name == cls:
            for n in node.body:
                if isinstance(n, ast.FunctionDef) and n.name == name and not any(
                        isinstance(d, ast.Attribute) and d.attr in ("setter", "deleter") for d in n.decorator_list):
                    return n
    raise ExtractError("%s.%s not found in %s" % (cls, name, rel))


def _body(fn):
    return [s for s in fn.body if not _is_doc(s)]


def _expect(fn, node, text):
    if _u(node) != text:
        _fail(fn, node, "expected `%s`" % text)


def gen_init(fn):
    """DataView.__init__"""
    name = "DataView.__init__"
    body = _body(fn)
    if len(body) < 4:
        _fail(name, fn, "body too short")
    _expect(name, body[0], "self._valid = slices is not None and all(slices)")
    steps = []
    norm = None
    prelude_ok = {"self._slices = slices", "self._error_message = ''"}
    tail_ok = {"self.array = da", "self._h5group = self.array._h5group"}
    for st in body[1:]:
        if isinstance(st, ast.Assign):
            if _u(st) in prelude_ok or _u(st) in tail_ok:
                continue
            _fail(name, st, "unexpected assignment")
        if not isinstance(st, ast.If):
            _fail(name, st, "unexpected statement")
        t = _u(st.test)
        if t == "not self.valid":
            # only the message
            if any(not (isinstance(s, ast.Assign) and _u(s.targets[0]) == "self._error_message") for s in st.body):
                _fail(name, st, "the `not self.valid` block may only set the message")
            continue
        if t == "self.valid":
            # normalisation
            if norm is not None or st.orelse:
                _fail(name, st, "second normalisation block")
            if len(st.body) != 2 or _u(st.body[1]) != "self._slices = slices":
                _fail(name, st, "unexpected normalisation block")
            a = st.body[0]
            ok = isinstance(a, ast.Assign) and _u(a.targets[0]) == "slices" and isinstance(a.value, ast.Call) \
                and _u(a.value.func) == "tuple" and len(a.value.args) == 1 \
                and isinstance(a.value.args[0], ast.GeneratorExp)
            if not ok:
                _fail(name, a, "unexpected normalisation")
            g = a.value.args[0]
            if len(g.generators) != 1 or g.generators[0].ifs or _u(g.generators[0].target) != "(sl, dimlen)" \
                    or _u(g.generators[0].iter) not in ("zip(slices, da.shape)", "zip(slices, da.data_extent)"):
                _fail(name, g, "unexpected normalisation generator")
            e = g.elt
            # slice(*sl.indices(dimlen))
            ok = isinstance(e, ast.Call) and _u(e.func) == "slice" and len(e.args) == 1 \
                and isinstance(e.args[0], ast.Starred) and isinstance(e.args[0].value, ast.Call) \
                and _u(e.args[0].value.func) == "sl.indices" and len(e.args[0].value.args) == 1
            if not ok:
                _fail(name, e, "unexpected normalisation element")
            env = Env(name, {"dimlen": ("int", "dimlen")})
            norm = "sliceIndices sl %s" % cx(env, e.args[0].value.args[0], "int")
            continue
        # guarded test: `self.valid and <test>` ; body must clear the flag (and may set the message)
        if not (isinstance(st.test, ast.BoolOp) and isinstance(st.test.op, ast.And) and len(st.test.values) == 2
                and _u(st.test.values[0]) == "self.valid") or st.orelse:
            _fail(name, st, "unexpected test")
        if norm is not None:
            _fail(name, st, "validity test after the normalisation")
        if "self._valid = False" not in [_u(s) for s in st.body] or any(
                not isinstance(s, ast.Assign) or _u(s.targets[0]) not in ("self._valid", "self._error_message")
                for s in st.body):
            _fail(name, st, "a guarded block must clear the flag and nothing else")
        test = st.test.values[1]
        if isinstance(test, ast.Call) and _u(test.func) == "any" and len(test.args) == 1 \
                and isinstance(test.args[0], ast.GeneratorExp) and len(test.args[0].generators) == 1 \
                and not test.args[0].generators[0].ifs:
            g = test.args[0]
            tg, it = _u(g.generators[0].target), _u(g.generators[0].iter)
            if tg == "(s, e)" and it in ("zip(slices, da.data_extent)", "zip(slices, da.shape)"):
                env = Env(name, {"s": ("slice", "s"), "e": ("int", "e")})
                steps.append(".anyZip (fun (s_start s_stop e : Int) => %s)" % cx(env, g.elt, "bool"))
                continue
            if tg == "s" and it == "slices":
                env = Env(name, {"s": ("slice", "s")})
                steps.append(".anyOne (fun (s_start s_stop : Int) => %s)" % cx(env, g.elt, "bool"))
                continue
            _fail(name, test, "unexpected generator")
        env = Env(name, text={("len(slices)", "int"): "len_slices", ("len(da.shape)", "int"): "len_shape",
                              ("len(da.data_extent)", "int"): "len_shape"})
        steps.append(".lenTest (fun (len_slices len_shape : Int) => %s)" % cx(env, test, "bool"))
    if norm is None:
        _fail(name, fn, "no normalisation block")
    out = ["/-- `DataView.__init__`: the `if self.valid and <test>: self._valid = False` statements, in source order",
           "(the first statement is `self._valid = slices is not None and all(slices)`) -/",
           "def initSteps : List InitStep := [",
           ",\n".join("  " + s for s in steps) + "]", "",
           "/-- `DataView.__init__`: element of the normalisation `tuple(slice(*…) for sl, dimlen in zip(slices, "
           "da.shape))` -/",
           "def initNorm (sl : PySlice) (dimlen : Int) : Except Err (Int × Int × Int) :=", "  " + norm, ""]
    return "\n".join(out)


def gen_expand(fn):
    name = "DataView._expand_user_slices"
    body = _body(fn)
    wraps = False
    if body and isinstance(body[0], ast.If) and _u(body[0].test) == "not isinstance(user_slices, Iterable)":
        if [_u(s) for s in body[0].body] != ["user_slices = (user_slices,)"] or body[0].orelse:
            _fail(name, body[0], "unexpected wrapping of a bare index")
        wraps = True
        body = body[1:]
    if not wraps:
        _fail(name, fn, "a bare (non-iterable) index is no longer wrapped into a tuple")
    env = Env(name, {"user_slices": ("ixlist", "user_slices")},
              {("len(self.data_extent)", "int"): "rank", ("len(self.shape)", "int"): "rank"})
    code = cs(env, body, "ixlist")
    return "\n".join(["/-- `DataView._expand_user_slices(user_slices)` (after a bare index was wrapped into a 1-tuple);",
                      "`rank` is `len(self.data_extent)` -/",
                      "def expandUserSlices (user_slices : List Ix) (rank : Int) : Except Err (List Ix) :=", code, ""])


def gen_transform(fn):
    name = "DataView._transform_coordinates"
    body = _body(fn)
    pre, loop, post = [], None, []
    local = None
    for st in body:
        if isinstance(st, ast.For):
            if loop is not None:
                _fail(name, st, "second loop")
            loop = st
        elif isinstance(st, ast.FunctionDef):
            if loop is not None or local is not None:
                _fail(name, st, "unexpected local function")
            local = st
        elif loop is None:
            pre.append(st)
        else:
            post.append(st)
    if loop is None:
        _fail(name, fn, "no loop over the index components")
    env0 = Env(name)
    shape = []
    for st in pre:
        if isinstance(st, ast.Assign) and isinstance(st.value, ast.Call) and isinstance(st.value.func, ast.Name) \
                and st.value.func.id in EXC and isinstance(st.targets[0], ast.Name):
            env0.vars[st.targets[0].id] = ("exc", EXC[st.value.func.id])
        else:
            shape.append(_u(st))
    out = []
    funcs = {}
    if local is not None:
        args = [a.arg for a in local.args.args]
        if len(args) != 2:
            _fail(name, local, "local function with an unexpected signature")
        envf = env0.child()
        envf.fn = name + "." + local.name
        envf.vars[args[0]] = ("pyslice", args[0])
        envf.vars[args[1]] = ("slice", args[1])
        code = cs(envf, _body(local), "slice")
        out += ["/-- local function `%s(%s, %s)` of `_transform_coordinates` -/" % (local.name, args[0], args[1]),
                "def transformSliceFn (%s : PySlice) (%s_start %s_stop : Int) : Except Err (Int × Int × Int) :=" % (
                    args[0], args[1], args[1]), code, ""]
        funcs[local.name] = ("transformSliceFn", ["pyslice", "slice"], "slice")
    _expect(name, loop.target, "(uslice, dvslice)")
    shape.append("for uslice, dvslice in %s" % _u(loop.iter))
    if loop.orelse or len(loop.body) != 2:
        _fail(name, loop, "unexpected loop body")
    br, app = loop.body
    shape.append(_u(app))
    if not isinstance(br, ast.If) or _u(br.test) != "isinstance(uslice, Integral)" or len(br.orelse) != 1 \
            or not isinstance(br.orelse[0], ast.If) or _u(br.orelse[0].test) != "isinstance(uslice, slice)" \
            or not br.orelse[0].orelse:
        _fail(name, br, "expected `if isinstance(uslice, Integral) … elif isinstance(uslice, slice) … else …`")
    ret = ast.Return(value=ast.Name(id="tslice", ctx=ast.Load()))
    envi = env0.child()
    envi.vars.update({"uslice": ("int", "uslice"), "dvslice": ("slice", "dvslice")})
    code_i = cs(envi, br.body + [ret], "int")
    envs = env0.child()
    envs.funcs = funcs
    envs.vars.update({"uslice": ("pyslice", "uslice"), "dvslice": ("slice", "dvslice")})
    code_s = cs(envs, br.orelse[0].body + [ret], "slice")
    els = br.orelse[0].orelse
    if len(els) != 1 or not isinstance(els[0], ast.Raise):
        _fail(name, els[0], "the final else must raise")
    other = exc_of(env0, els[0].exc)
    shape += [_u(s) for s in post]
    out += ["/-- `_transform_coordinates`, loop body, branch `isinstance(uslice, Integral)` -/",
            "def transformInt (uslice dvslice_start dvslice_stop : Int) : Except Err Int :=", code_i, "",
            "/-- `_transform_coordinates`, loop body, branch `isinstance(uslice, slice)` -/",
            "def transformSlice (uslice : PySlice) (dvslice_start dvslice_stop : Int) : "
            "Except Err (Int × Int × Int) :=", code_s, "",
            "/-- `_transform_coordinates`, loop body, final `else: raise …` -/",
            "def transformOther : Err := .%s" % other, "",
            "/-- `_transform_coordinates`: the statements around the loop body, in source order -/",
            "def transformFrame : List String := [" + ", ".join(lean_str(s) for s in shape) + "]", ""]
    return "\n".join(out)


def _sl_test(name, node):
    t = _u(node)
    table = {"sl is not None": "isNotNone", "sl is None": "isNone", "sl": "truthy", "not sl": "falsy",
             "not sl is None": "isNotNone", "sl != None": "isNotNone", "sl == None": "isNone"}
    if t not in table:
        _fail(name, node, "unsupported test on the index")
    return table[t]


def gen_rw(fn, which):
    """DataView._read_data / _write_data"""
    name = "DataView." + fn.name
    body = _body(fn)
    if len(body) != 4:
        _fail(name, fn, "expected four statements")
    inv, dflt, cond, last = body
    if not isinstance(inv, ast.If) or _u(inv.test) != "not self.valid" or inv.orelse or len(inv.body) != 1:
        _fail(name, inv, "expected `if not self.valid: …`")
    a = inv.body[0]
    if isinstance(a, ast.Raise):
        invalid = ".error .%s" % exc_of(Env(name), a.exc)
    elif isinstance(a, ast.Return) and _u(a.value) == "np.array([])" and which == "read":
        invalid = ".ok .empty"
    else:
        _fail(name, a, "unsupported action for an invalid view")
    _expect(name, dflt, "tsl = self._slices")
    if not isinstance(cond, ast.If) or cond.orelse or [_u(s) for s in cond.body] != [
            "tsl = self._transform_coordinates(sl)"]:
        _fail(name, cond, "expected `if <test on sl>: tsl = self._transform_coordinates(sl)`")
    test = _sl_test(name, cond.test)
    if which == "read":
        if not isinstance(last, ast.Return) or not isinstance(last.value, ast.Call) or [_u(x) for x in last.value.args] \
                != ["tsl"] or last.value.keywords:
            _fail(name, last, "expected `return <callee>(tsl)`")
        callee = _u(last.value.func)
        ty = "Except Err Read"
    else:
        if not isinstance(last, ast.Expr) or not isinstance(last.value, ast.Call) or [_u(x) for x in last.value.args] \
                != ["data", "tsl"] or last.value.keywords:
            _fail(name, last, "expected `<callee>(data, tsl)`")
        callee = _u(last.value.func)
        ty = "Except Err (List AxisSel)"
    return "\n".join(["/-- `%s`: what an invalid view does -/" % name, "def %sInvalid : %s := %s" % (which, ty, invalid),
                      "/-- `%s`: the test on `sl` under which the index is transformed -/" % name,
                      "def %sTest : SlTest := .%s" % (which, test),
                      "/-- `%s`: where the (transformed) index goes -/" % name,
                      "def %sCallee : String := %s" % (which, lean_str(callee)), ""])


def gen_single(fn):
    """DataArray._read_data: the single-value rule"""
    name = "DataArray._read_data"
    body = _body(fn)
    src = None
    rule = None
    for i, st in enumerate(body):
        if isinstance(st, ast.Assign) and _u(st.targets[0]) == "data" and src is None:
            src = _u(st.value)
            nxt = body[i + 1] if i + 1 < len(body) else None
            if isinstance(nxt, ast.If) and not nxt.orelse and len(nxt.body) == 1:
                rule = nxt
            break
    if src is None or rule is None:
        _fail(name, fn, "expected `data = …` followed by the single-value rule `if <test>: <reshape>`")
    act = rule.body[0]
    new = None
    if isinstance(act, ast.Assign) and _u(act.targets[0]) == "data.shape" and isinstance(act.value, ast.Tuple):
        new = act.value
    elif isinstance(act, ast.Assign) and _u(act.targets[0]) == "data" and isinstance(act.value, ast.Call) \
            and _u(act.value.func) in ("data.reshape", "np.reshape"):
        args = act.value.args[1:] if _u(act.value.func) == "np.reshape" else act.value.args
        if len(args) == 1 and isinstance(args[0], ast.Tuple):
            new = args[0]
        elif args and all(isinstance(x, ast.Constant) for x in args):
            new = ast.Tuple(elts=list(args), ctx=ast.Load())
    if new is None or not all(isinstance(x, ast.Constant) and isinstance(x.value, int) and x.value >= 0 for x in new.elts):
        _fail(name, act, "unsupported reshape")
    env = Env(name, text={("data.shape", "natlist"): "data_shape", ("len(data.shape)", "int"): "pyLen data_shape",
                          ("data.ndim", "int"): "pyLen data_shape"})
    test = cx(env, rule.test, "bool")
    return "\n".join(["/-- `DataArray._read_data`: `data = %s`, then `if %s: %s` -/" % (src, _u(rule.test), _u(act)),
                      "def singleTest (data_shape : List Nat) : Bool := %s" % test,
                      "def singleShape : List Nat := [%s]" % ", ".join(str(x.value) for x in new.elts),
                      "def singleSource : String := %s" % lean_str(src), ""])


def gen_get_slice(fn):
    name = "DataArray.get_slice"
    body = _body(fn)
    if len(body) != 4:
        _fail(name, fn, "expected four statements")
    _expect(name, body[0], "datadim = len(self.shape)")
    env = Env(name, {"datadim": ("int", "datadim"), "extents": ("bool", "extents_truthy")},
              {("len(positions)", "int"): "len_positions", ("len(extents)", "int"): "len_extents"})
    guards = []
    for st in body[1:3]:
        if not isinstance(st, ast.If) or st.orelse or len(st.body) != 1 or not isinstance(st.body[0], ast.Raise):
            _fail(name, st, "expected a guard `if <test>: raise …`")
        guards.append((cx(env, st.test, "bool"), exc_of(env, st.body[0].exc)))
    if "len_positions" not in guards[0][0] or "len_extents" not in guards[1][0]:
        _fail(name, body[1], "expected the positions guard before the extents guard")
    disp = body[3]
    if not isinstance(disp, ast.If) or _u(disp.test) != "mode == DataSliceMode.Index" or len(disp.body) != 2:
        _fail(name, disp, "expected the index-mode branch first")
    a, r = disp.body
    ok = isinstance(a, ast.Assign) and _u(a.targets[0]) == "slices" and isinstance(a.value, ast.Call) \
        and _u(a.value.func) == "tuple" and len(a.value.args) == 1 and isinstance(a.value.args[0], ast.GeneratorExp)
    if not ok or _u(r) != "return DataView(self, slices)":
        _fail(name, disp, "unexpected index-mode branch")
    g = a.value.args[0]
    if len(g.generators) != 1 or g.generators[0].ifs or _u(g.generators[0].target) != "(p, e)" \
            or _u(g.generators[0].iter) != "zip(positions, extents)" or not _slice_ctor(g.elt) or len(g.elt.args) != 2:
        _fail(name, g, "unexpected window construction")
    envw = Env(name, {"p": ("int", "p"), "e": ("int", "e")})
    win = "(%s, %s)" % (cx(envw, g.elt.args[0], "int"), cx(envw, g.elt.args[1], "int"))
    rest = []
    node = disp.orelse
    while node:
        if len(node) == 1 and isinstance(node[0], ast.If):
            rest.append("elif %s: %s" % (_u(node[0].test), "; ".join(_u(s) for s in node[0].body)))
            node = node[0].orelse
        else:
            rest.append("else: " + "; ".join(_u(s).split("(")[0] for s in node))
            node = None
    return "\n".join([
        "/-- `DataArray.get_slice`: first guard (`datadim = len(self.shape)`) -/",
        "def getSliceGuard1 (len_positions datadim : Int) : Bool := %s" % guards[0][0],
        "def getSliceErr1 : Err := .%s" % guards[0][1],
        "/-- `DataArray.get_slice`: second guard; `extents_truthy` is the truth value of `extents` -/",
        "def getSliceGuard2 (extents_truthy : Bool) (len_extents datadim : Int) : Bool := %s" % guards[1][0],
        "def getSliceErr2 : Err := .%s" % guards[1][1],
        "/-- `DataArray.get_slice`, `mode == DataSliceMode.Index`: element of "
        "`tuple(slice(…) for p, e in zip(positions, extents))`, as (start, stop) -/",
        "def getSliceWindow (p e : Int) : Int × Int := %s" % win,
        "/-- `DataArray.get_slice`: the other modes -/",
        "def getSliceOtherModes : List String := [" + ", ".join(lean_str(s) for s in rest) + "]", ""])


def _flat(stmts, depth=0):
    """statements as normalised source lines, nesting shown by indentation (compound statements by their headers)"""
    out = []
    pad = "  " * depth
    for st in stmts:
        if _is_doc(st):
            continue
        if isinstance(st, ast.If):
            node, kw = st, "if"
            while True:
                out.append("%s%s %s:" % (pad, kw, _u(node.test)))
                out += _flat(node.body, depth + 1)
                if len(node.orelse) == 1 and isinstance(node.orelse[0], ast.If):
                    node, kw = node.orelse[0], "elif"
                    continue
                if node.orelse:
                    out.append(pad + "else:")
                    out += _flat(node.orelse, depth + 1)
                break
        elif isinstance(st, ast.Try):
            out.append(pad + "try:")
            out += _flat(st.body, depth + 1)
            for h in st.handlers:
                out.append("%sexcept %s:" % (pad, _u(h.type) if h.type is not None else ""))
                out += _flat(h.body, depth + 1)
            if st.orelse:
                out.append(pad + "else:")
                out += _flat(st.orelse, depth + 1)
            if st.finalbody:
                out.append(pad + "finally:")
                out += _flat(st.finalbody, depth + 1)
        elif isinstance(st, ast.For):
            out.append("%sfor %s in %s:" % (pad, _u(st.target), _u(st.iter)))
            out += _flat(st.body, depth + 1)
        elif isinstance(st, ast.Raise):
            exc = st.exc
            out.append(pad + "raise " + (_u(exc.func) if isinstance(exc, ast.Call) else (_u(exc) if exc else "")))
        elif isinstance(st, (ast.While, ast.With, ast.FunctionDef, ast.ClassDef)):
            raise ExtractError("unexpected compound statement `%s`" % _u(st)[:80])
        else:
            out.append(pad + _u(st))
    return out


def gen_bydim(fn, dims_tree):
    """DataArray._get_slice_bydim (statement shape) and the default mode of the index_of it calls without a mode"""
    lines = _flat(_body(fn))
    defaults = []
    for cls in ("SampledDimension", "RangeDimension", "SetDimension"):
        f = _method(dims_tree, cls, "index_of", "nixio/dimensions.py")
        names = [a.arg for a in f.args.args]
        if "mode" not in names:
            _fail(cls + ".index_of", f, "no `mode` parameter")
        k = names.index("mode") - (len(names) - len(f.args.defaults))
        if k < 0:
            _fail(cls + ".index_of", f, "`mode` has no default")
        d = f.args.defaults[k]
        if not (isinstance(d, ast.Attribute) and _u(d.value) == "IndexMode"):
            _fail(cls + ".index_of", d, "unexpected default mode")
        defaults.append((cls, d.attr))
    return "\n".join([
        "/-- `DataArray._get_slice_bydim`: its statements, normalised, nesting shown by indentation -/",
        "def bydimShape : List String := [", ",\n".join("  " + lean_str(x) for x in lines) + "]",
        "/-- default `mode` of `index_of` (what `dim.index_of(pos + ext)` uses), per descriptor class -/",
        "def indexOfDefaultMode : List (String × String) := ["
        + ", ".join("(%s, %s)" % (lean_str(a), lean_str(b)) for a, b in defaults) + "]", ""])


def extract(repo):
    dv = _parse(repo, "nixio/data_view.py")
    da = _parse(repo, "nixio/data_array.py")
    parts = [
        "-- generated by harness/extract/viewshape.py from nixio/data_view.py and nixio/data_array.py — do not edit",
        "import NixModel.Pure.ViewGen", "", "set_option linter.unusedVariables false", "",
        "namespace Nix.Generated.ViewShape", "open Nix Nix.Py Nix.NdIndex Nix.DataView Nix.ViewGen", "",
        gen_init(_method(dv, "DataView", "__init__", "nixio/data_view.py")),
        gen_expand(_method(dv, "DataView", "_expand_user_slices", "nixio/data_view.py")),
        gen_transform(_method(dv, "DataView", "_transform_coordinates", "nixio/data_view.py")),
        gen_rw(_method(dv, "DataView", "_read_data", "nixio/data_view.py"), "read"),
        gen_rw(_method(dv, "DataView", "_write_data", "nixio/data_view.py"), "write"),
        gen_single(_method(da, "DataArray", "_read_data", "nixio/data_array.py")),
        gen_get_slice(_method(da, "DataArray", "get_slice", "nixio/data_array.py")),
        gen_bydim(_method(da, "DataArray", "_get_slice_bydim", "nixio/data_array.py"),
                  _parse(repo, "nixio/dimensions.py")),
        "end Nix.Generated.ViewShape", ""]
    return {TARGET: "\n".join(parts)}
