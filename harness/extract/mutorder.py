"""Translator: the anchored nixio modules  ->  NixModel/Generated/MutatorOrder.lean          (property C12)

For every public method / property setter / create_new of the entity classes that writes to the file, the *order of
validations and writes along every path* through its body, as lists of events (vocabulary: NixModel/Pure/Order.lean):

    raise ...                                          -> .raise      (ends the path)
    util.check_*(..) / self._check_*(..) / _check_*(..) / self._accept(..)        -> .check
    <h5 object>.set_attr / write_data / create_link / delete / delete_all / create_dataset / write_direct /
        _write_data / resize (..),  open_group(.., True),  del <x>[..],  <x>.shape = / <x>.data_extent = ..,
        self.force_updated_at() / force_created_at()   -> .write
    a call of another public mutator (create_* / append* / extend / link_* / remove_link / delete_* / copy_* ...),
        <Class>.create_new(..), an assignment `<obj>.<public attribute> = ..` (a property setter)
                                                       -> .atomic     (refuses without a trace, or writes)
    try: .. except ..: <clean-up containing a write / del>; raise        -> .tryBegin .. .tryEnd   (protected section)
    if / else                                          -> one path per branch;   for / while: the body twice
    for x in map(<validation>, ..) / (<validation>(y) for y in ..)            -> the validation once per iteration
    return                                             -> ends the path

Only the shape is rendered: which events, in which order.  `Props/C12.lean` proves (by evaluation) that on every path of
every listed function no validation / raise / atomic call follows an unprotected write, except for the functions named
there one by one; a new write placed before a validation, or a loop of refusable calls, changes the table and breaks that
theorem.  Parsed with `ast`, never imported.
"""
import ast
import os

from .leanfmt import ExtractError, lean_str

TARGET = "NixModel/Generated/MutatorOrder.lean"
MODULES = ["block.py", "entity.py", "data_array.py", "data_set.py", "tag.py", "multi_tag.py", "section.py", "property.py",
           "dimensions.py", "container.py", "feature.py", "data_frame.py", "source.py", "group.py", "hdf5/h5group.py"]
WRITE_CALLS = {"set_attr", "write_data", "create_link", "delete", "delete_all", "create_dataset", "require_dataset",
               "write_direct", "_write_data", "resize", "force_updated_at", "force_created_at", "set_extent"}
ATOMIC_PREFIXES = ("create_", "append", "extend", "link_data", "remove_link", "delete_", "copy_", "_copy_", "insert",
                   "write_", "unlink")
ATOMIC_NAMES = {"create_new", "extend_values", "delete_values", "_discard_dimension", "_set_dimension_type"}
NOT_MUTATORS = {"create_id", "create_from_h5obj", "create_from_h5obj_or_none"}      # pure helpers despite their names
NOT_ATOMIC_RECEIVERS = ("np.", "numpy.", "list", "dict", "OrderedDict", "os.", "str", "warnings.", "csv")
MAX_PATHS = 96


def _u(n):
    return ast.unparse(n)


def _call_events(call):
    """events of one call expression (arguments first: they are evaluated first)"""
    evs = []
    for a in list(call.args) + [k.value for k in call.keywords]:
        evs += _expr_events(a)
    f = call.func
    if isinstance(f, ast.Attribute):
        evs += _expr_events(f.value)
        name, recv = f.attr, _u(f.value)
        if name.startswith("check_") or name.startswith("_check") or name == "_accept":
            evs.append(".check")
        elif name in WRITE_CALLS:
            evs.append(".write")
        elif name == "open_group" and (len(call.args) >= 2 and _u(call.args[1]) == "True" or
                                       any(k.arg == "create" and _u(k.value) == "True" for k in call.keywords)):
            evs.append(".write")
        elif (name in ATOMIC_NAMES or name.startswith(ATOMIC_PREFIXES)) and name not in NOT_MUTATORS \
                and not recv.startswith(NOT_ATOMIC_RECEIVERS) \
                and not (name in ("append", "extend", "insert") and not _nix_container(recv)):
            evs.append(".atomic")
    elif isinstance(f, ast.Name):
        if f.id.startswith("_check") or f.id.startswith("check_"):
            evs.append(".check")
    return evs


def _nix_container(recv):
    """`append` / `extend` on a nix link container (self, self.data_arrays, ...), not on a Python list"""
    return recv == "self" or recv.startswith("self.") and not recv.startswith("self._") or recv.endswith(
        (".references", ".features", ".sources", ".data_arrays", ".tags", ".multi_tags", ".groups", ".sections"))


def _expr_events(e):
    evs = []
    if e is None:
        return evs
    if isinstance(e, ast.Call):
        return _call_events(e)
    for ch in ast.iter_child_nodes(e):
        if isinstance(ch, ast.expr):
            evs += _expr_events(ch)
        elif isinstance(ch, (ast.comprehension,)):
            evs += _expr_events(ch.iter)
            for c in ch.ifs:
                evs += _expr_events(c)
        elif isinstance(ch, ast.keyword):
            evs += _expr_events(ch.value)
    return evs


def _lazy_check(it):
    """`map(<validation>, ..)` / `filter(<validation>, ..)` / a generator expression calling a validation: evaluated
    lazily, one element per iteration of the loop that consumes it"""
    if isinstance(it, ast.Call) and isinstance(it.func, ast.Name) and it.func.id in ("map", "filter") and it.args:
        f = it.args[0]
        nm = f.attr if isinstance(f, ast.Attribute) else (f.id if isinstance(f, ast.Name) else "")
        if nm.startswith("check_") or nm.startswith("_check") or nm == "_accept":
            return [".check"]
    if isinstance(it, ast.GeneratorExp):
        evs = _expr_events(it.elt)
        return [e for e in evs if e in (".check", ".atomic", ".write")]
    return []


def _handler_rolls_back(h):
    """the except clause cleans up (a write / del / atomic call) and re-raises"""
    evs = []
    for st in h.body:
        for p in _paths([st]):
            evs += p
    reraises = any(isinstance(n, ast.Raise) for st in h.body for n in ast.walk(st))
    return reraises and any(e in (".write", ".atomic") for e in evs)


def _paths(stmts):
    """all event paths through a statement list; a path ending in '.raise' / '.return' is closed"""
    paths = [[]]

    def closed(p):
        return bool(p) and p[-1] in (".raise", ".return")

    def extend(new_tails):
        nonlocal paths
        out = []
        for p in paths:
            if closed(p):
                out.append(p)
            else:
                for t in new_tails:
                    out.append(p + t)
        uniq = []
        for q in out:                      # branches without events give the same path: keep one
            if q not in uniq:
                uniq.append(q)
        if len(uniq) > MAX_PATHS:
            raise ExtractError("more than %d paths" % MAX_PATHS)
        paths = uniq
    for st in stmts:
        if isinstance(st, ast.Expr):
            if isinstance(st.value, ast.Constant):
                continue
            extend([_expr_events(st.value)])
        elif isinstance(st, ast.Raise):
            extend([_expr_events(st.exc) + [".raise"]])
        elif isinstance(st, ast.Return):
            extend([_expr_events(st.value) + [".return"]])
        elif isinstance(st, (ast.Assign, ast.AugAssign, ast.AnnAssign)):
            evs = _expr_events(st.value)
            targets = st.targets if isinstance(st, ast.Assign) else [st.target]
            for t in targets:
                if isinstance(t, ast.Attribute):
                    if t.attr in ("shape", "data_extent"):
                        evs.append(".write")
                    elif not t.attr.startswith("_") and not (isinstance(t.value, ast.Name) and t.value.id in ("cls",)):
                        evs.append(".atomic")              # a property setter of a nix object
                elif isinstance(t, ast.Subscript) and _u(t.value).startswith(("self._h5", "self.group", "self.dataset")):
                    evs.append(".write")
            extend([evs])
        elif isinstance(st, ast.Delete):
            extend([[".write"]])
        elif isinstance(st, ast.If):
            cond = _expr_events(st.test)
            extend([cond + p for p in _paths(st.body)] + [cond + p for p in _paths(st.orelse)])
        elif isinstance(st, (ast.For, ast.While)):
            head = _expr_events(st.iter if isinstance(st, ast.For) else st.test)
            body = [p for p in _paths(st.body)]
            lazy = _lazy_check(st.iter) if isinstance(st, ast.For) else []
            if lazy:
                # `for x in map(self._accept, items)`: the validation runs once per iteration, interleaved with the body
                body = [lazy + p for p in body]
            tails = [head]                                            # zero iterations
            for p in body:
                tails.append(head + p)
                if not closed(p):
                    for q in body:
                        tails.append(head + p + q)                    # two iterations
            extend(tails)
        elif isinstance(st, ast.Try):
            prot = any(_handler_rolls_back(h) for h in st.handlers)
            body = _paths(st.body)
            tails = []
            for p in body:
                if closed(p) and p[-1] == ".raise" and st.handlers and not prot:
                    # caught by a handler that does not re-raise with clean-up: follow the handlers
                    for h in st.handlers:
                        for hp in _paths(h.body):
                            tails.append(p[:-1] + hp)
                elif prot:
                    if closed(p):
                        tails.append([".tryBegin"] + p[:-1] + [".tryEnd", p[-1]] if p[-1] == ".return"
                                     else [".tryBegin"] + p)
                    else:
                        tails.append([".tryBegin"] + p + [".tryEnd"])
                else:
                    tails.append(p)
            extend(tails)
            if st.finalbody:
                extend(_paths(st.finalbody))
        elif isinstance(st, ast.With):
            extend(_paths(st.body))
        elif isinstance(st, (ast.Pass, ast.Import, ast.ImportFrom, ast.Global, ast.Nonlocal, ast.FunctionDef,
                             ast.ClassDef, ast.Assert, ast.Continue, ast.Break)):
            continue
        else:
            raise ExtractError("statement %s not understood" % type(st).__name__)
    return paths


def _public(fn):
    decs = [_u(d) for d in fn.decorator_list]
    if any(d.endswith(".setter") for d in decs):
        return True, fn.name + ".setter"
    if "property" in decs:
        return False, fn.name
    n = fn.name
    if n in ("create_new", "__setitem__", "__delitem__", "write_data"):
        return True, n
    return (not n.startswith("_")), n


def extract(repo):
    rows = []
    for mod in MODULES:
        path = os.path.join(repo, "nixio", mod)
        with open(path, encoding="utf-8") as fh:
            tree = ast.parse(fh.read(), filename=path)
        for cls in tree.body:
            if not isinstance(cls, ast.ClassDef):
                continue
            for fn in cls.body:
                if not isinstance(fn, ast.FunctionDef):
                    continue
                pub, name = _public(fn)
                if not pub:
                    continue
                try:
                    paths = _paths(fn.body)
                except ExtractError as e:
                    raise ExtractError("%s: %s.%s: %s" % (mod, cls.name, name, e))
                norm = []
                for p in paths:
                    q = [e for e in p if e != ".return"]
                    if any(e in (".write", ".atomic") for e in q) and q not in norm:
                        norm.append(q)
                if norm:
                    rows.append(("%s.%s" % (cls.name, name), norm))
    rows.sort(key=lambda r: r[0])
    names = [r[0] for r in rows]
    if len(set(names)) != len(names):
        # the same qualified name in two modules (e.g. a class defined twice): keep them apart by position
        seen = {}
        for i, (n, p) in enumerate(rows):
            seen[n] = seen.get(n, 0) + 1
            if seen[n] > 1:
                rows[i] = ("%s#%d" % (n, seen[n]), p)
    out = ["import NixModel.Pure.Order",
           "/-! GENERATED by harness/extract/mutorder.py from the anchored nixio modules - do not edit -/",
           "namespace Nix.Generated.MutatorOrder", "open Nix.Order", "",
           "/-- public mutators: the events along every path through the body, in source order -/",
           "def mutators : List (String × List (List Ev)) := ["]
    body = []
    for n, paths in rows:
        body.append("  (%s, [%s])" % (lean_str(n), ", ".join("[" + ", ".join(p) + "]" for p in paths)))
    out.append(",\n".join(body))
    out += ["]", "", "end Nix.Generated.MutatorOrder", ""]
    return {TARGET: "\n".join(out)}
