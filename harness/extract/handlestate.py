"""Translator: nixio/**/*.py  ->  NixModel/Generated/HandleState.lean        (property C02)

nixio's entity, container, dimension, view and HDF5-wrapper objects are meant to be *stateless handles*: whatever
they answer is read from the file at the moment of the call, so the observable state cannot depend on which handle,
or how many handles, were used (C02).  The only volatile state the model accounts for is listed, field by field, in
`NixModel/Pure/HandleState.lean`; this translator regenerates from the source what per-object and per-module state
the code *actually* has, and `Props/C02.lean` proves that the two agree.  A new cache on an entity class
(`self._calibration = ...` in a getter), a module-level memo table, a caching decorator, or a new place where an
existing field is assigned, changes the generated table and breaks a named theorem.

Parsed with `ast` only (nothing is imported).  For every class defined in nixio (tests and the `cmd` tools excluded):

  sites            (class, field, method)   for every `self.<field> = ...` / `self.<field> += ...` / annotated
                                            assignment / `setattr(self, "<field>", ...)` / `self.__dict__[...] = ...`
                                            inside a method, unless <field> is a *property with a setter* of the class
                                            or of one of its nixio base classes (then the statement is a call of that
                                            setter, i.e. a write to the file, not object state)
  classAttrs       (class, name)            class-level names bound to a mutable container literal / constructor
  moduleState      (module, name)           module-level names bound to a mutable container literal / constructor
                                            call, or rebound from inside a function through `global`
  cachingDecorators (module, qualified function)   functions or methods decorated with anything whose name contains
                                            `cache` or `memo` (functools.lru_cache, cache, cached_property, ...)
  customSetattr    classes that define __setattr__ (section.S, the proxy used by Section.__getattr__-style access)
  foreignPrivateStores (class, method, target)   `other._field = ...` : state planted on another object
  selfItemStores   (class, field path, method)     `self.<field path>[...] = ...` : a container field being filled
                                            (today all of them are writes to h5py objects, i.e. to the file)
  slotsClasses     classes that declare __slots__ (none today; recorded because __slots__ would hide fields from
                                            nothing here, but changes what `self.x = ...` can do)

Anything the translator cannot classify (a `setattr(self, <non-literal>, ...)`, `self.__dict__.update(...)`,
`vars(self)[...]`, `object.__setattr__(self, ...)`) raises ExtractError: the tie is broken and the check goes looking
for a failing input.
"""
import ast
import glob
import os

from .leanfmt import ExtractError, lean_str

TARGET = "NixModel/Generated/HandleState.lean"
EXCLUDE_DIRS = ("nixio/test/", "nixio/cmd/")
MUTABLE_CALLS = {"dict", "list", "set", "OrderedDict", "defaultdict", "deque", "Counter", "WeakValueDictionary",
                 "WeakKeyDictionary", "bytearray"}


def _name_of(node):
    if isinstance(node, ast.Name):
        return node.id
    if isinstance(node, ast.Attribute):
        return node.attr
    return None


def _is_mutable_value(v):
    if isinstance(v, (ast.Dict, ast.List, ast.Set, ast.ListComp, ast.DictComp, ast.SetComp)):
        return True
    if isinstance(v, ast.Call) and _name_of(v.func) in MUTABLE_CALLS:
        return True
    return False


def _is_self(node, selfname):
    return isinstance(node, ast.Name) and node.id == selfname


def _targets(stmt):
    if isinstance(stmt, ast.Assign):
        return stmt.targets
    if isinstance(stmt, (ast.AugAssign, ast.AnnAssign)):
        return [stmt.target]
    if isinstance(stmt, (ast.For, ast.AsyncFor)):
        return [stmt.target]
    if isinstance(stmt, (ast.With, ast.AsyncWith)):
        return [i.optional_vars for i in stmt.items if i.optional_vars is not None]
    if isinstance(stmt, ast.NamedExpr):
        return [stmt.target]
    return []


def _parse_all(repo):
    mods = {}
    for path in sorted(glob.glob(os.path.join(repo, "nixio", "**", "*.py"), recursive=True)):
        rel = os.path.relpath(path, repo).replace(os.sep, "/")
        if rel.startswith(EXCLUDE_DIRS):
            continue
        with open(path, encoding="utf-8") as f:
            mods[rel] = ast.parse(f.read(), filename=rel)
    if "nixio/entity.py" not in mods or "nixio/hdf5/h5group.py" not in mods:
        raise ExtractError("nixio/entity.py or nixio/hdf5/h5group.py not found")
    return mods


def extract(repo):
    mods = _parse_all(repo)
    classes = {}          # name -> (module, ClassDef)
    for rel, tree in mods.items():
        for node in ast.walk(tree):
            if isinstance(node, ast.ClassDef):
                if node.name in classes and classes[node.name][0] != rel:
                    raise ExtractError("two nixio classes named %s (%s, %s)" % (node.name, classes[node.name][0], rel))
                classes[node.name] = (rel, node)

    def setters_of(cname, seen=()):
        """names of properties with a setter defined by the class or its nixio ancestors"""
        if cname not in classes or cname in seen:
            return set()
        _, cls = classes[cname]
        out = set()
        for n in cls.body:
            if isinstance(n, ast.FunctionDef):
                for d in n.decorator_list:
                    if isinstance(d, ast.Attribute) and d.attr == "setter":
                        out.add(n.name)
        for b in cls.bases:
            bn = _name_of(b)
            if bn:
                out |= setters_of(bn, seen + (cname,))
        return out

    sites, class_attrs, module_state, caching, slots, custom_setattr = set(), set(), set(), set(), set(), set()
    foreign, selfsub = set(), set()
    for rel, tree in mods.items():
        # module level
        for node in tree.body:
            if isinstance(node, (ast.Assign, ast.AnnAssign)) and node.value is not None and _is_mutable_value(node.value):
                for t in _targets(node):
                    if isinstance(t, ast.Name):
                        module_state.add((rel, t.id))
        for node in ast.walk(tree):
            if isinstance(node, ast.Global):
                for nm in node.names:
                    module_state.add((rel, nm))
        # decorators anywhere
        for node in ast.walk(tree):
            if isinstance(node, (ast.FunctionDef, ast.AsyncFunctionDef)):
                for d in node.decorator_list:
                    text = ast.unparse(d).lower()
                    if "cache" in text or "memo" in text:
                        caching.add((rel, node.name))
    for cname, (rel, cls) in classes.items():
        setters = setters_of(cname)
        for n in cls.body:
            if isinstance(n, (ast.Assign, ast.AnnAssign)):
                for t in _targets(n):
                    if isinstance(t, ast.Name):
                        if t.id == "__slots__":
                            slots.add(cname)
                        elif n.value is not None and _is_mutable_value(n.value):
                            class_attrs.add((cname, t.id))
            if not isinstance(n, (ast.FunctionDef, ast.AsyncFunctionDef)):
                continue
            if not n.args.args:
                continue
            deco = {ast.unparse(d) for d in n.decorator_list}
            if "staticmethod" in deco:
                continue
            selfname = n.args.args[0].arg
            mname = n.name
            if any(isinstance(d, ast.Attribute) and d.attr == "setter" for d in n.decorator_list):
                mname = n.name + ".setter"
            elif any(isinstance(d, ast.Attribute) and d.attr == "deleter" for d in n.decorator_list):
                mname = n.name + ".deleter"
            for sub in ast.walk(n):
                for t in _targets(sub):
                    for tt in ast.walk(t):
                        if isinstance(tt, ast.Attribute) and isinstance(tt.ctx, ast.Store) and \
                                not _is_self(tt.value, selfname) and tt.attr.startswith("_"):
                            foreign.add((cname, mname, ast.unparse(tt)))
                        if isinstance(tt, ast.Subscript) and isinstance(tt.ctx, ast.Store):
                            base = tt.value
                            while isinstance(base, ast.Attribute) and not _is_self(base.value, selfname):
                                base = base.value
                            if isinstance(base, ast.Attribute) and _is_self(base.value, selfname) and \
                                    base.attr != "__dict__":
                                selfsub.add((cname, ast.unparse(tt.value)[len(selfname) + 1:], mname))
                        if isinstance(tt, ast.Attribute) and _is_self(tt.value, selfname) and isinstance(tt.ctx, ast.Store):
                            if tt.attr == "__dict__":
                                raise ExtractError("%s.%s rebinds self.__dict__" % (cname, n.name))
                            if tt.attr in setters:
                                continue
                            sites.add((cname, tt.attr, mname))
                        if isinstance(tt, ast.Subscript) and isinstance(tt.value, ast.Attribute) and \
                                _is_self(tt.value.value, selfname) and tt.value.attr == "__dict__":
                            key = tt.slice
                            if isinstance(key, ast.Constant) and isinstance(key.value, str):
                                sites.add((cname, key.value, mname))
                            else:
                                raise ExtractError("%s.%s writes self.__dict__[<computed>]" % (cname, n.name))
                if isinstance(sub, ast.Call):
                    fn = sub.func
                    fname = _name_of(fn)
                    if fname in ("setattr", "__setattr__") and sub.args:
                        first = sub.args[0]
                        recv_self = _is_self(first, selfname) or (
                            isinstance(fn, ast.Attribute) and _is_self(fn.value, selfname))
                        if recv_self and n.name == "__setattr__":
                            custom_setattr.add(cname)      # a class-wide attribute hook: recorded, body not analysed
                        elif recv_self:
                            keyarg = sub.args[1] if _is_self(first, selfname) and len(sub.args) > 1 else sub.args[0]
                            if isinstance(keyarg, ast.Constant) and isinstance(keyarg.value, str):
                                if keyarg.value not in setters:
                                    sites.add((cname, keyarg.value, mname))
                            else:
                                raise ExtractError("%s.%s: setattr(self, <computed name>, ...)" % (cname, n.name))
                    if fname == "update" and isinstance(fn, ast.Attribute) and isinstance(fn.value, ast.Attribute) and \
                            _is_self(fn.value.value, selfname) and fn.value.attr == "__dict__":
                        raise ExtractError("%s.%s: self.__dict__.update(...)" % (cname, n.name))
                    if fname == "vars" and sub.args and _is_self(sub.args[0], selfname):
                        raise ExtractError("%s.%s: vars(self)" % (cname, n.name))

    def lst3(items):
        return "[\n" + ",\n".join("  (%s, %s, %s)" % tuple(lean_str(x) for x in it) for it in sorted(items)) + "]" \
            if items else "[]"

    def lst2(items):
        return "[\n" + ",\n".join("  (%s, %s)" % tuple(lean_str(x) for x in it) for it in sorted(items)) + "]" \
            if items else "[]"

    text = """/-
GENERATED by harness/extract/handlestate.py from nixio/**/*.py (tests and cmd tools excluded) - do not edit.
Per-object and per-module state of the nixio code: where `self.<field>` is assigned (field that is not a property
setter), class-level and module-level mutable containers, `global` rebinding, caching decorators.
-/
namespace Nix.Gen.HandleState

/-- (class, field, method) for every assignment of an instance field -/
def sites : List (String × String × String) := %s

/-- (class, name): class-level mutable containers -/
def classAttrs : List (String × String) := %s

/-- (module, name): module-level mutable containers and names rebound through `global` -/
def moduleState : List (String × String) := %s

/-- (module, function): functions carrying a caching decorator -/
def cachingDecorators : List (String × String) := %s

/-- classes declaring __slots__ -/
def slotsClasses : List String := %s

/-- classes defining their own __setattr__ (attribute hook) -/
def customSetattr : List String := %s

/-- (class, method, target): assignments to a private (underscore) attribute of an object other than `self` -/
def foreignPrivateStores : List (String × String × String) := %s

/-- (class, field path, method): item assignments `self.<field path>[...] = ...` -/
def selfItemStores : List (String × String × String) := %s

end Nix.Gen.HandleState
""" % (lst3(sites), lst2(class_attrs), lst2(module_state), lst2(caching),
       "[" + ", ".join(lean_str(c) for c in sorted(slots)) + "]",
       "[" + ", ".join(lean_str(c) for c in sorted(custom_setattr)) + "]", lst3(foreign), lst3(selfsub))
    return {TARGET: text}
